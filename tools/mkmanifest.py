#!/usr/bin/env python3
# mkmanifest.py — writes /verif/MANIFEST.json from the table below (kept in one place so that the
# manifest, the theorem files and DESIGN.md do not drift apart).
import json, os

VERIF = os.path.dirname(os.path.dirname(os.path.abspath(__file__)))

TB = ("Trusted base: Coq 8.16.1 kernel (full .vo build, no native_compute), no axioms (Print Assumptions audited on every run), "
      "extraction with ExtrOcamlBasic only, and the correspondence check (Rust harness enr_impl built against /repo's working tree, "
      "OCaml driver of the extracted model, Python generators/diff) which is differential testing (plus an extraction cross-check by vm_compute inside Coq on every run). Crypto cores (ECDSA equation, "
      "Ed25519, SEC1 point decoding) are universally quantified in the theorems and answered by k256/libsecp256k1/dalek called directly at run time. ")

# id -> (claimed?, level text, note on what is partial/assumed, design section)
P = {
 "C01": ("Theorems for all byte strings and all crypto behaviours: an accepted input verifies under the key it carries over exactly the reported seq/pairs; signature framing (64 bytes, ranges, low-S) and high-S twin rejection are proved arithmetic facts; alteration_accepted_only_as_forgery: a second, different accepted input carries its own verifying (key, content, signature); only_the_original_is_accepted: under the unforgeability hypothesis every accepted input with the same public key is the original record byte for byte; the same guarantees for the text and JSON entry points. Tied to the code by the correspondence run (valid records signed by the libraries directly, bit flips, tampers, text form, 5 key types) plus a monitor that re-verifies every accepted record with the crypto library directly.",
         "Unforgeability of ECDSA/Ed25519 is the named residual assumption: 'every alteration is rejected' is the contrapositive of decode_authentic, not a cryptographic theorem."),
 "C02": ("decode_iff_wellformed: the model decoder accepts item++rest iff item satisfies the declarative grammar WellFormed (no parsing in the spec); both directions proved for all byte strings and crypto behaviours; decode_total: every other input yields an error value. Correspondence: verdicts on valid records and re-signed structural mutants under 5 key types.",
         "65-byte SEC1 keys are inside the secp_pk oracle; inner bytes of list values are unconstrained, as the property says."),
 "C03": ("No-panic theorems: in the model every expect/unwrap/index of the Rust is a Panic outcome; decode, decode_vec, from_str, from_json, enr_to_public never panic for any input; step_no_panic and build_no_panic hold for ALL records, arguments and signers; accessors on a Valid record are total; with C05 (reachable -> Valid) this covers every record handed out; the guards of the Rust's slice/expect sites are proved to hold whenever reached (slice_in_bounds, node_id_len, display_slices_in_bounds). Correspondence: catch_unwind + timeouts over unstructured inputs, tampers, histories with every accessor after every step.",
         "Partial by nature: panics inside dependencies on inputs the model does not send them, allocation failure, aborts and stack exhaustion are runtime behaviour a Gallina model cannot exhibit; those are sampled only."),
 "C04": ("decode_canonical (consumed bytes = re-encoding), decode_injective, decode_reports_parse, valid_roundtrip (bytes, text with and without prefix, JSON) and reachable_roundtrip along every history, proved for all inputs. Correspondence: re-encoding vs consumed bytes, and bytes/text/JSON round trip of every record seen in histories.",
         "JSON escapes are serde_json's (model covers plain string literals)."),
 "C05": ("Valid is an invariant: decode_valid, build_valid, step_valid and history_valid (induction over arbitrary operation lists, any signer satisfying GoodSigner, any crypto behaviour), plus re-keying. Valid records re-decode (valid_redecodes). Correspondence: full observation after every step of random/directed histories, 5 key types incl. variable-length Toy signatures; model-independent monitor re-verifies with the crypto libraries directly.",
         "GoodSigner (the signer returns signatures its public key verifies) and KeyOk are hypotheses, checked at run time on every signature produced."),
 "C06": ("step_err_unchanged for every record, operation, signer (failing, lying, any length) and crypto behaviour; signer_fault; err_still_valid. Correspondence: observation before/after every failing step, signing faults injected at each signing call.",
         ""),
 "C07": ("step_seq (+1 / exact set), no_wrap, finish_at_max, step_at_max_reports_seq (the exact error and unchanged record at 2^64-1), seq_codec for all 64-bit values, seq range of decoded records. Correspondence: seq before/after each step from boundary starting values.",
         ""),
 "C08": ("Refinement to a sorted-map specification: per operation the pairs after a successful step are spec_after of the pairs before (touched keys get the canonical encodings, everything else untouched), return values are the previous values, StrictSorted preserved; build_refines; step_err_exact_cause: each error kind names the cause that holds of this very call (the message the signer refused, the candidate that is too large); set_public_key to the own key succeeds on every Valid record under the generic update conditions. Correspondence: pairs, return values and error kinds over histories.",
         ""),
 "C09": ("size is the encoding length by definition; decode_size, step_size, build_size (<= 300 for any signature length); step_refused_iff for equal-length signatures, set_seq_refused_iff for any; builder refusal bounds. Correspondence: size sweep 280..320 x seq growth points x mutators.",
         ""),
 "C10": ("decode_nid, step_nid, build_nid, step_rekeys, nid_function_of_key: node id = keccak256 (uncompressed key) with keccak256 concrete in Gallina (standard vectors evaluated by the kernel). Correspondence: node id vs independent derivation, after build/decode/every step.",
         "The uncompressed form of a SEC1 key comes from the secp_pk oracle (library called directly), checked against both libraries."),
 "C11": ("decode_k256_libsecp, decode_kt_ext, decode_comb_of_k256 / decode_comb_of_ed / decode_comb_split (CombinedKey accepts exactly what the secp256k1 types accept plus what the ed25519 type accepts when no valid secp256k1 entry is present, same record), isolation (decode_needs_own_key), combined_precedence; validity and acceptance transfer between the key types (valid_k256_iff_libsecp, secp_record_accepted_by_all, ed_record_accepted_by_comb, built_by_k256_accepted_by_all, updated_by_comb_accepted). Correspondence: all inputs under all key types, pairwise comparison of back-ends.",
         "That k256 and libsecp256k1 implement the same curve equation is a fact about two foreign libraries: sampled, not proved."),
 "C12": ("to_text_def, b64_roundtrip, b64_canonical (unique text per byte string), from_str_strict, from_json_strict, from_str_accepts, from_str_rejects_trailing. Correspondence: every edit class of the property on valid texts.",
         ""),
 "C13": ("decode_prefix_local for every complete item and suffix, decode_ok_complete, decode_advance, decode_vec of back-to-back records. Correspondence: suffixes 0..1000 bytes, streams and lists of 1..8 records.",
         ""),
 "C14": ("Accessor iff-theorems for all values (ports for all p by arithmetic, not enumeration): tcp4/udp4/tcp6/udp6, ip4/ip6, id, sockets = product, reachability = disjunction, setters and builder methods store canonical encodings and read back (no premise on the result); side-condition-free characterisation of every accessor by the stored bytes (x_iff_prefix). Correspondence: typed getters vs raw pairs, port sweeps, 64 presence combinations.",
         "Lossy UTF-8 conversion of non-UTF-8 client/id strings is outside the model (compared only as Some/None)."),
 "C15": ("rec_eqb is an equivalence, equal records hash equally, differs on seq/nid/sig; compare_content iff same seq and pairs (payload injectivity). Correspondence: ==, hash equality, compare_content over clones, re-decodings, re-signings, edits, re-keyings.",
         "'Equal records carry identical pairs' reduces to keccak/signature collisions, which are not claimed impossible."),
 "C16": ("parse_iff, ser/deser/hex round trips, deser_iff, debug/display definitions, the literal shape 0x + 64 digits in 0-9a-f, for all byte strings. Correspondence: all functions on slices 0..64 and strings 0..70.", ""),
 "C17": ("import_secp_iff (0 < x < n), export = input, buffer wiped, ed25519 length rule. Correspondence: boundary and random secrets; public key vs independent derivation by libsecp256k1 / dalek.",
         "Public-key derivation and 'signed records verify' are library facts: sampled."),
}

CLAIMED = ["C01", "C03", "C04", "C06", "C07", "C09", "C10", "C11", "C12", "C13", "C15", "C16", "C17"]
for extra in ("C02", "C05", "C08", "C14"):
    if os.path.exists(os.path.join(VERIF, "coq", "props", extra + ".v")):
        CLAIMED.append(extra)
CLAIMED.sort()

checks = []
for pid in CLAIMED:
    text, note = P[pid]
    checks.append({
        "property_id": pid,
        "quick_cmd": "tools/check %s --tier quick" % pid,
        "thorough_cmd": "tools/check %s --tier thorough" % pid,
        "evidence_file": "evidence/%s.json" % pid,
        "replay_cmd_template": "tools/check %s --replay {path}" % pid,
        "engine": "coq-proof+correspondence",
        "level_claimed": {"category": "proof", "text": text, "design_ref": "DESIGN.md section 5, " + pid},
        "level_note": TB + note,
        "technique": "machine-checked proof in Coq 8.16 over a hand-written executable Gallina model; model tied to /repo by a differential correspondence check (extracted OCaml model vs Rust harness) on every run",
    })

na = [{"property_id": p, "reason": "theorem file props/%s.v not yet complete in this commit; the correspondence run exists but the property is not claimed until its theorems are checked" % p}
      for p in sorted(P) if p not in CLAIMED]

m = {
 "version": 1,
 "setup_cmd": "tools/setup",
 "hooks": {
  "guard": "enr_verif",
  "enable": "RUSTFLAGS='--cfg enr_verif' (set in /verif/harness/.cargo/config.toml, so every harness build against /repo has the hook on)",
  "baseline_off_cmd": "cd /repo && cargo test --workspace --no-fail-fast --offline",
  "source_commits": ["848ed05", "a4f64d8"],
  "add_only": True,
 },
 "engines": [{"name": "coq-proof+correspondence", "path": "tools/check", "serves_properties": CLAIMED,
              "kind_free_text": "Coq 8.16 theorems about a Gallina model (coq/), extracted to OCaml and run against the Rust crate on the same inputs (harness/, ocaml/, tools/)"}],
 "checks": checks,
 "not_applicable": na,
 "notes": "All checks share tools/check <id> [--tier quick|thorough]. Known findings (all repaired by fix: commits) are in known_findings.json; seeded changes and which check catches them are in DESIGN.md.",
}
json.dump(m, open(os.path.join(VERIF, "MANIFEST.json"), "w"), indent=1)
print("claimed:", CLAIMED, "not claimed:", [x["property_id"] for x in na])
