# enrlib.py — shared machinery of the checks: build, Coq audit, oracle client, independent RLP
# encoder for the generators, batch runner (implementation vs extracted model), comparison,
# evidence writer. Python never decides what RLP or a record *means*: it produces inputs and
# compares observation lines.
import fcntl, hashlib, json, os, random, re, subprocess, sys, time
from concurrent.futures import ThreadPoolExecutor

VERIF = os.path.dirname(os.path.dirname(os.path.abspath(__file__)))
REPO = os.environ.get("ENR_REPO", "/repo")
BUILD = os.path.join(VERIF, "build")
WORK = os.path.join(VERIF, "work")
IMPL = os.environ.get("ENR_IMPL", os.path.join(VERIF, "harness", "target", "debug", "enr_impl"))  # ENR_IMPL: an instrumented build, for coverage measurement only
# the same harness built against the crate's DEFAULT features (serde + k256): the configuration the repository's own suite runs
IMPL_DEFAULT = os.path.join(VERIF, "harness", "target-default", "debug", "enr_impl")
MODEL = os.path.join(BUILD, "model_run")
COQ = os.path.join(VERIF, "coq")
KTS = ["k256", "libsecp", "ed", "comb", "toy"]
NCPU = 16


class InfraError(Exception):
    pass


def sh(cmd, timeout=1800, cwd=None, env=None, check=True):
    e = dict(os.environ)
    e.update({"CARGO_NET_OFFLINE": "true"})
    if env:
        e.update(env)
    p = subprocess.run(cmd, shell=True, cwd=cwd, env=e, stdout=subprocess.PIPE, stderr=subprocess.STDOUT, timeout=timeout)
    out = p.stdout.decode(errors="replace")
    if check and p.returncode != 0:
        raise InfraError("command failed (%d): %s\n%s" % (p.returncode, cmd, out[-4000:]))
    return p.returncode, out


# ---------------------------------------------------------------- build

def build_all(need_coq_props=None):
    """Build (incrementally) the Coq development, the extracted model driver and the Rust harness
    against /repo's current working tree. Serialised by a lock so that concurrent checks do not race."""
    os.makedirs(BUILD, exist_ok=True)
    os.makedirs(WORK, exist_ok=True)
    t0 = time.time()
    with open(os.path.join(BUILD, ".lock"), "w") as lk:
        fcntl.flock(lk, fcntl.LOCK_EX)
        # 1. Coq (full .vo build; proofs do not depend on /repo, so this is a no-op once built)
        if not os.path.exists(os.path.join(COQ, "Makefile")):
            sh("coq_makefile -f _CoqProject -o Makefile", cwd=COQ)
        rc, out = sh("timeout 3000 make -j%d 2>&1" % NCPU, cwd=COQ, timeout=3100, check=False)
        coq_ok = rc == 0
        with open(os.path.join(BUILD, "coq_build.log"), "a") as f:
            f.write(out)
        # 2. extraction + OCaml driver
        ext = os.path.join(COQ, "extracted", "model.ml")
        srcs = [os.path.join(COQ, "theories", x) for x in os.listdir(os.path.join(COQ, "theories")) if x.endswith(".v")]
        srcs += [os.path.join(COQ, "Extract.v"), os.path.join(VERIF, "ocaml", "model_run.ml")]
        newest = max(os.path.getmtime(s) for s in srcs)
        if not os.path.exists(MODEL) or os.path.getmtime(MODEL) < newest:
            os.makedirs(os.path.join(COQ, "extracted"), exist_ok=True)
            sh("timeout 600 coqc -Q theories Enr -Q proofs EnrProofs Extract.v", cwd=COQ)
            sh("cp %s %s %s %s/ && cd %s && timeout 600 ocamlfind ocamlopt -O2 -package unix -linkpkg -w -a model.mli model.ml model_run.ml -o model_run"
               % (ext, ext + "i", os.path.join(VERIF, "ocaml", "model_run.ml"), BUILD, BUILD))
        # 3. the harness, against /repo as it is now
        lock_src = os.path.join(REPO, "Cargo.lock")
        rc, out = sh("timeout 1500 cargo build --offline 2>&1", cwd=os.path.join(VERIF, "harness"), timeout=1600, check=False)
        if rc != 0:
            raise InfraError("the harness does not build against %s:\n%s" % (REPO, out[-3000:]))
        rc, out = sh("timeout 1500 cargo build --offline --no-default-features --target-dir target-default 2>&1", cwd=os.path.join(VERIF, "harness"), timeout=1600, check=False)
        if rc != 0:
            raise InfraError("the harness does not build against %s with the crate's default features:\n%s" % (REPO, out[-3000:]))
    return coq_ok, time.time() - t0


# ---------------------------------------------------------------- Coq audit

ALLOWED_AXIOMS = set()  # target: every property theorem is closed under the global context
FORBIDDEN = re.compile(r"\b(Admitted|admit|Axiom|Parameter|Conjecture|Hypothesis|Variable|bypass_check|Unset Guard|Admit Obligations)\b")


def coq_audit(pid, thorough=False):
    """Re-checks props/<pid>.v with coqc (so the kernel re-checks the theorems on this run), parses
    the Print Assumptions output and greps the development for escape hatches."""
    f = os.path.join(COQ, "props", pid + ".v")
    res = {"file": f, "theorems": [], "obligations": 0, "discharged": 0, "problems": [], "axioms": []}
    if not os.path.exists(f):
        res["problems"].append("no theorem file")
        return res
    src = open(f).read()
    names = re.findall(r"^\s*(?:Theorem|Lemma|Corollary)\s+(\w+)", src, re.M)
    res["theorems"] = names
    res["obligations"] = len(names)
    rc, out = sh("timeout 900 coqc -Q theories Enr -Q proofs EnrProofs -Q props EnrProps props/%s.v 2>&1" % pid, cwd=COQ, timeout=1000, check=False)
    if rc != 0:
        res["problems"].append("props/%s.v does not compile: %s" % (pid, out[-1500:]))
        return res
    closed = len(re.findall(r"Closed under the global context", out))
    axs = re.findall(r"^Axioms:\n((?:.+\n)+?)(?=\S|\Z)", out, re.M)
    ax_names = []
    for block in re.findall(r"Axioms:\n((?:[ \t]*\S.*\n?)+)", out):
        for line in block.splitlines():
            m = re.match(r"^(\S+)\s*:", line)
            if m:
                ax_names.append(m.group(1))
    res["axioms"] = sorted(set(ax_names))
    bad = [a for a in res["axioms"] if a not in ALLOWED_AXIOMS]
    if bad:
        res["problems"].append("theorems depend on axioms outside the allow-list: %s" % bad)
    n_print = len(re.findall(r"^\s*Print Assumptions\s+(\w+)", src, re.M))
    if n_print < len(names):
        res["problems"].append("%d theorems but only %d Print Assumptions" % (len(names), n_print))
    res["discharged"] = min(closed + (len(names) - closed if not bad and n_print >= len(names) else 0), len(names)) if not res["problems"] else closed
    if thorough and not res["problems"]:
        # independent re-check of the compiled theorem file and everything it depends on
        rc, out = sh("timeout 3000 coqchk -o -silent -Q theories Enr -Q proofs EnrProofs -Q props EnrProps EnrProps.%s 2>&1" % pid, cwd=COQ, timeout=3100, check=False)
        m = re.search(r"\* Axioms:\s*(.*?)\n\s*\n", out, re.S)
        res["coqchk"] = {"exit": rc, "axioms": (m.group(1).strip() if m else "?")}
        if rc != 0 or not m or m.group(1).strip() != "<none>":
            res["problems"].append("coqchk does not accept props/%s.vo with an empty axiom list: %s" % (pid, out[-400:]))
    # escape hatches anywhere in the development (sections' Variables are allowed: they are inside Section)
    for root in ("theories", "proofs", "props"):
        d = os.path.join(COQ, root)
        if not os.path.isdir(d):
            continue
        for fn in sorted(os.listdir(d)):
            if not fn.endswith(".v"):
                continue
            txt = open(os.path.join(d, fn)).read()
            txt_nc = re.sub(r"\(\*.*?\*\)", "", txt, flags=re.S)
            depth = 0
            for ln in txt_nc.splitlines():
                if re.match(r"\s*Section\b", ln):
                    depth += 1
                if re.match(r"\s*End\b", ln) and depth > 0:
                    depth -= 1
                m = FORBIDDEN.search(ln)
                if m:
                    w = m.group(1)
                    if w in ("Variable", "Hypothesis") and depth > 0:
                        continue
                    res["problems"].append("%s/%s: forbidden '%s': %s" % (root, fn, w, ln.strip()[:80]))
    return res


# ---------------------------------------------------------------- oracle client

class Oracle:
    def __init__(self):
        self.p = subprocess.Popen([IMPL, "oracle"], stdin=subprocess.PIPE, stdout=subprocess.PIPE)
        self.cache = {}

    def q(self, line):
        if line in self.cache:
            return self.cache[line]
        self.p.stdin.write((line + "\n").encode())
        self.p.stdin.flush()
        r = self.p.stdout.readline().decode().strip()
        self.cache[line] = r
        return r

    def keccak(self, b):
        return bytes.fromhex(self.q("keccak " + hx(b)))

    def close(self):
        try:
            self.p.stdin.close()
            self.p.wait(timeout=5)
        except Exception:
            self.p.kill()


def hx(b):
    return b.hex() if len(b) else "-"


def unhx(s):
    return b"" if s == "-" else bytes.fromhex(s)


# ---------------------------------------------------------------- independent RLP encoder (generators only)

def be(n):
    return n.to_bytes((n.bit_length() + 7) // 8, "big") if n else b""


def rlp_hdr(is_list, n):
    base = 0xC0 if is_list else 0x80
    if n < 56:
        return bytes([base + n])
    l = be(n)
    return bytes([base + 55 + len(l)]) + l


def rlp_str(b):
    if len(b) == 1 and b[0] < 0x80:
        return bytes(b)
    return rlp_hdr(False, len(b)) + bytes(b)


def rlp_uint(n):
    return rlp_str(be(n))


def rlp_list(payload):
    return rlp_hdr(True, len(payload)) + payload


def rlp_item_len(b):
    """total length of the RLP item a buffer begins with (header + payload), or None when the buffer does not
    begin with a complete header; lenient about canonicity (used only to tell whether an input IS one complete item)"""
    if not b:
        return None
    x = b[0]
    if x < 0x80:
        return 1
    if x <= 0xB7:
        return 1 + (x - 0x80)
    if x <= 0xBF:
        ll = x - 0xB7
        if len(b) < 1 + ll:
            return None
        return 1 + ll + int.from_bytes(b[1:1 + ll], "big")
    if x <= 0xF7:
        return 1 + (x - 0xC0)
    ll = x - 0xF7
    if len(b) < 1 + ll:
        return None
    return 1 + ll + int.from_bytes(b[1:1 + ll], "big")


SECP_N = 0xFFFFFFFFFFFFFFFFFFFFFFFFFFFFFFFEBAAEDCE6AF48A03BBFD25E8CD0364141


class Key:
    """A signing key for the generators: kt-specific spec string for the `key` command, scheme for the oracle."""

    def __init__(self, oracle, kt, secret, variant=None, sched="0"):
        self.kt, self.secret = kt, secret
        if kt in ("k256", "libsecp") or (kt == "comb" and variant == "secp"):
            self.scheme = "k"
            self.entry = b"secp256k1"
            r = oracle.q("pub k " + secret.hex()).split()
            self.pub = bytes.fromhex(r[1]) if r[0] == "ok" else None
            self.pub_unc = None
            if self.pub is not None:
                r2 = oracle.q("secp_pk k " + self.pub.hex()).split()
                if r2[0] == "ok":
                    self.pub_unc = b"\x04" + bytes.fromhex(r2[2])   # 65-byte uncompressed SEC1 form of the same key
        elif kt == "ed" or (kt == "comb" and variant == "ed"):
            self.scheme = "ed"
            self.entry = b"ed25519"
            r = oracle.q("pub ed " + secret.hex()).split()
            self.pub = bytes.fromhex(r[1]) if r[0] == "ok" else None
        else:
            self.scheme = "toy"
            self.entry = b"toy"
            self.pub = secret[:8]
        if kt == "comb":
            self.spec = ("secp:" if self.scheme == "k" else "ed:") + secret.hex()
        elif kt == "toy":
            self.spec = secret[:8].hex() + ":" + sched
        else:
            self.spec = secret.hex()

    def sign(self, oracle, msg):
        sec = self.secret[:8] if self.scheme == "toy" else self.secret
        return bytes.fromhex(oracle.q("sign %s %s %s" % (self.scheme, sec.hex(), hx(msg))))


def record_bytes(oracle, key, seq, pairs, sort=True, sig=None, seq_raw=None, outer=None, sig_raw=None):
    """Independent construction of a signed record. pairs: list of (key bytes, raw RLP value bytes).
    The signature is made by the oracle over exactly the content list (also when the content is malformed)."""
    if sort:
        pairs = sorted(pairs, key=lambda kv: kv[0])
    body = (seq_raw if seq_raw is not None else rlp_uint(seq)) + b"".join(rlp_str(k) + v for k, v in pairs)
    content = rlp_list(body)
    if sig is None:
        sig = key.sign(oracle, content)
    sig_enc = sig_raw if sig_raw is not None else rlp_str(sig)
    payload = sig_enc + body
    return (outer(payload) if outer else rlp_list(payload)), content, sig


# ---------------------------------------------------------------- running batches

def parse_line(line):
    toks = line.split()
    head, fields = [], {}
    for t in toks:
        if "=" in t and not t.startswith("="):
            k, v = t.split("=", 1)
            fields[k] = v
        else:
            head.append(t)
    return head, fields


def run_pair(kt, cmds, tag):
    """Runs one shard of command lines through the implementation and the model."""
    os.makedirs(WORK, exist_ok=True)
    base = os.path.join(WORK, "%s.%d" % (tag, os.getpid()))
    cf, imf, mof = base + ".cmds", base + ".impl", base + ".model"
    with open(cf, "w") as f:
        f.write("\n".join(cmds) + "\n")
    t0 = time.time()
    binary, impl_kt = (IMPL_DEFAULT, kt[:-len("_default")]) if kt.endswith("_default") else (IMPL, kt)
    p = subprocess.run("timeout 900 %s %s < %s > %s" % (binary, impl_kt, cf, imf), shell=True)
    if p.returncode != 0:
        # a crash or hang of the driver process: find the line (abort / non-termination are C03 matters)
        impl_lines = open(imf).read().splitlines()
        while len(impl_lines) < len(cmds):
            impl_lines.append("hang-or-abort rc=%d" % p.returncode if len(impl_lines) == len(open(imf).read().splitlines()) else "notrun")
    else:
        impl_lines = open(imf).read().splitlines()
    p = subprocess.run("timeout 1800 %s %s %s %s %s > %s 2> %s.err" % (MODEL, kt, cf, imf, IMPL, mof, mof), shell=True)
    if p.returncode != 0:
        raise InfraError("model driver failed on shard %s (rc %d): %s" % (tag, p.returncode, open(mof + ".err").read()[-500:]))
    model_lines = open(mof).read().splitlines()
    for x in (cf, imf, mof, mof + ".err"):
        try:
            os.remove(x)
        except OSError:
            pass
    if len(model_lines) != len(cmds) or len(impl_lines) != len(cmds):
        raise InfraError("line count mismatch on shard %s: %d cmds, %d impl, %d model" % (tag, len(cmds), len(impl_lines), len(model_lines)))
    return impl_lines, model_lines, time.time() - t0


def run_cases(kt, cases, tag, shards=NCPU):
    """cases: list of lists of command lines (each case re-establishes its own keys/record).
    Returns per case (impl_lines, model_lines)."""
    if not cases:
        return []
    shards = max(1, min(shards, len(cases)))
    buckets = [[] for _ in range(shards)]
    for i, c in enumerate(cases):
        buckets[i % shards].append(i)

    def work(si):
        idxs = buckets[si]
        cmds = []
        for i in idxs:
            cmds.append("reset")
            cmds.extend(cases[i])
        il, ml, _ = run_pair(kt, cmds, "%s.%s.%d" % (tag, kt, si))
        out, pos = {}, 0
        for i in idxs:
            n = len(cases[i])
            out[i] = (il[pos + 1:pos + 1 + n], ml[pos + 1:pos + 1 + n])
            pos += n + 1
        return out

    res = {}
    with ThreadPoolExecutor(max_workers=shards) as ex:
        for o in ex.map(work, range(shards)):
            res.update(o)
    return [res[i] for i in range(len(cases))]


def run_impl_only(kt, cmds, tag):
    os.makedirs(WORK, exist_ok=True)
    base = os.path.join(WORK, "%s.%d" % (tag, os.getpid()))
    with open(base + ".cmds", "w") as f:
        f.write("\n".join(cmds) + "\n")
    binary, impl_kt = (IMPL_DEFAULT, kt[:-len("_default")]) if kt.endswith("_default") else (IMPL, kt)
    subprocess.run("timeout 900 %s %s < %s.cmds > %s.impl" % (binary, impl_kt, base, base), shell=True)
    out = open(base + ".impl").read().splitlines()
    os.remove(base + ".cmds")
    os.remove(base + ".impl")
    return out


def base_kt(kt):
    """the key type as the generators know it (k256_default / k256_plain are k256 for them)"""
    return kt.replace("_default", "").replace("_plain", "")


def cls(head):
    """outcome class of an observation line"""
    if not head:
        return "?"
    if head[0] in ("panic", "hang-or-abort"):
        return "panic"
    return head[0]


def diff_lines(impl, model, fields=None, skip=()):
    """Returns a list of (what, impl value, model value) for the projected fields (None = all)."""
    hi, fi = parse_line(impl)
    hm, fm = parse_line(model)
    out = []
    if hm and hm[0] in ("unmodelled",):
        return out
    if cls(hi) != cls(hm):
        out.append(("outcome", " ".join(hi)[:200], " ".join(hm)[:200]))
        return out
    if "panic" in hi or "panic" in hm:
        if ("panic" in hi) != ("panic" in hm):
            out.append(("panic", impl[:200], model[:200]))
        return out
    keys = fields if fields is not None else sorted(set(fi) | set(fm))
    for k in keys:
        if k in skip or k == "kinds":   # `kinds` exists on the model's line only: the admissible set for `kind`
            continue
        a, b = fi.get(k), fm.get(k)
        if k == "kind" and a != b and a is not None and a in fm.get("kinds", "").split("+"):
            # two causes hold of the call and the implementation reports another applicable one than the model (each
            # listed kind is a cause that holds: Thm_Cause.step_err_is_a_cause / presign_causes). The correspondence is
            # broken, but no property is shown to fail: reported with no-failing-input-found (field name "kind~").
            out.append(("kind~", a, b + " (also applicable: %s)" % fm.get("kinds")))
            continue
        if a != b:
            out.append((k, a, b))
    if fields is None and hi != hm:
        out.append(("head", " ".join(hi), " ".join(hm)))
    return out


def utf8_ok(hexstr):
    try:
        unhx(hexstr).decode("utf-8")
        return True
    except Exception:
        return False


# ---------------------------------------------------------------- evidence

def case_hash(case):
    return hashlib.sha256("\n".join(case).encode()).hexdigest()


def write_evidence(pid, tier, seed, audit, cov, wall, violations, assumptions, extra=None):
    os.makedirs(os.path.join(VERIF, "evidence"), exist_ok=True)
    ev = {
        "property_id": pid,
        "tier": tier,
        "seed": seed,
        "level": "proof",
        "coverage": {
            "obligations": audit["obligations"],
            "discharged": audit["discharged"],
            "checker_cmd": "cd /verif/coq && make && coqc -Q theories Enr -Q proofs EnrProofs -Q props EnrProps props/%s.v (Print Assumptions under every theorem; thorough tier adds coqchk -o)" % pid,
            "trusted_base": TRUSTED_BASE,
            "theorems": audit["theorems"],
            "axioms_reported": audit["axioms"],
            "audit_problems": audit["problems"],
            "coqchk": audit.get("coqchk", "thorough tier only"),
        },
        "assumptions": assumptions,
        "wall_s": round(wall, 2),
        "violations": violations,
    }
    ev["coverage"].update(cov)
    if extra:
        ev.update(extra)
    with open(os.path.join(VERIF, "evidence", pid + ".json"), "w") as f:
        json.dump(ev, f, indent=1)
    return ev


TRUSTED_BASE = [
    "Coq 8.16.1 kernel (coqc, full .vo build, vm_compute in Examples; no native_compute)",
    "axioms: none expected (Print Assumptions under every property theorem must say 'Closed under the global context')",
    "extraction: ExtrOcamlBasic only (Extract Inductive for bool, option, unit, prod, list, sumbool); no Extract Constant; N/positive/nat stay Coq datatypes; OCaml 4.13.1 ocamlfind ocamlopt; a sample of every run is cross-checked by vm_compute inside Coq",
    "correspondence check: Rust harness enr_impl (Spy/Toy key wrappers), OCaml driver model_run, Python generators/diff (differential testing: agreement on the inputs run, not for all inputs)",
    "modelled by hand, tied only by the correspondence check: alloy-rlp codecs, BTreeMap as sorted association list, bytes buffers as lists, base64 URL_SAFE_NO_PAD, hex, serde_json string quoting, zeroize, Hash as a function of (seq, node id, signature)",
    "crypto cores are universally quantified in the theorems (ECDSA equation, ed25519 verification and key validity, SEC1 point decoding); at run time they are answered by k256 / libsecp256k1 / ed25519-dalek called directly, never through enr",
    "keccak256 is concrete in Gallina, validated by standard vectors evaluated by the kernel and by the correspondence check",
    "read from the source text and recorded, deciding nothing: constants of /repo/src vs Consts.v, public functions vs the harness (source_surface), statement order of the update bodies vs Stmt.v (statement_skeleton, C06)",
    "not covered: unforgeability / collision resistance, memory safety of dependencies, timing, allocation failure",
]


# ---------------------------------------------------------------------------------------------------
# Source surface: a cheap second tie between /repo's current source and what the harness and the model
# cover.  It decides nothing (verdicts come from theorems + correspondence); it goes into the evidence and
# prints a NOTE when the crate grew public API the harness never calls, or when a constant of the source no
# longer equals the constant the model was written with.
_MODEL_CONSTS = {"MAX_ENR_SIZE": "300", "ID_ENR_KEY": "id", "ENR_VERSION": "v4", "IP_ENR_KEY": "ip", "IP6_ENR_KEY": "ip6",
                 "TCP_ENR_KEY": "tcp", "TCP6_ENR_KEY": "tcp6", "UDP_ENR_KEY": "udp", "UDP6_ENR_KEY": "udp6",
                 "ENR_KEY(k256/libsecp)": "secp256k1", "ENR_KEY(ed25519)": "ed25519"}
# public functions that cannot be exercised deterministically or are trait plumbing (reason recorded)
_API_EXEMPT = {"random": "NodeId::random: random output", "generate_secp256k1": "random key", "generate_ed25519": "random key",
               "fmt": "trait method, reached through format!", "hash": "trait method", "eq": "trait method",
               "serialize": "trait method, reached through serde_json", "deserialize": "trait method", "from_str": "trait method, reached through parse()",
               "encode": "trait method", "decode": "trait method", "length": "trait method", "from": "trait method", "try_from": "trait method",
               "visit_str": "serde visitor", "expecting": "serde visitor", "clone": "derive"}


def source_surface():
    import re
    src = {}
    for root, _, files in os.walk("/repo/src"):
        for fn in files:
            if fn.endswith(".rs"):
                src[os.path.join(root, fn)] = open(os.path.join(root, fn), errors="replace").read()
    consts, differ = {}, []
    for path, text in src.items():
        body = text.split("#[cfg(test)]\nmod tests")[0]
        for m in re.finditer(r"const\s+([A-Z0-9_]+)\s*:\s*[^=]+=\s*(?:b?\"([^\"]*)\"|(\d+))\s*;", body):
            name = m.group(1)
            val = m.group(2) if m.group(2) is not None else m.group(3)
            if name == "ENR_KEY":
                name = "ENR_KEY(ed25519)" if "ed25519" in path else "ENR_KEY(k256/libsecp)"
            consts.setdefault(name, set()).add(val)
    for name, want in _MODEL_CONSTS.items():
        got = consts.get(name)
        if got is None:
            differ.append("%s: not found in the source (model uses %r)" % (name, want))
        elif got != {want}:
            differ.append("%s: source %s, model %r" % (name, sorted(got), want))
    harness = "".join(open(os.path.join(VERIF, "harness", "src", f), errors="replace").read()
                      for f in os.listdir(os.path.join(VERIF, "harness", "src")))
    pubs, missing = [], []
    for path, text in sorted(src.items()):
        body = text.split("#[cfg(test)]\nmod tests")[0]
        for m in re.finditer(r"^\s*pub\s+(?:const\s+)?fn\s+([a-z_0-9]+)", body, re.M):
            f = m.group(1)
            pubs.append(f)
            if f in _API_EXEMPT:
                continue
            if not re.search(r"[.:]%s\s*(?:::<[^>]*>)?\s*\(" % re.escape(f), harness):
                missing.append("%s (%s)" % (f, os.path.relpath(path, "/repo")))
    return {"source_constants_checked": len(_MODEL_CONSTS), "source_constants_differ_from_model": differ,
            "pub_fns_in_source": len(pubs), "pub_fns_not_called_by_harness": sorted(set(missing)),
            "exempt": _API_EXEMPT}


# ---------------------------------------------------------------------------------------------------
# Statement skeleton (C06): the order of the state-relevant statements in the five update bodies of /repo/src/lib.rs,
# read from the source text, against the statement-level programs of coq/theories/Stmt.v. Like source_surface it
# decides nothing: a refactoring may legitimately move statements into helpers; it goes into the evidence and prints
# a NOTE when the shapes differ, which says where to look first when the correspondence of C06 breaks.
_SKELETON_MODEL = {
    "set_seq": ["set_seq", "insert", "check_keyed", "sign", "check_size", "set_nid", "commit"],
    "insert_raw_rlp": ["check_reserved", "insert", "insert", "check_keyed", "check_size", "inc_seq", "sign", "set_nid", "check_size", "commit"],
    "set_socket": ["insert", "insert", "insert", "check_keyed", "check_size", "inc_seq", "sign", "set_nid", "check_size", "commit"],
    "remove_key": ["remove", "insert", "check_keyed", "inc_seq", "sign", "set_nid", "check_size", "commit"],
    "remove_insert": ["remove", "check_reserved", "insert", "insert", "check_keyed", "inc_seq", "sign", "set_nid", "check_size", "commit"],
}
_SKELETON_PATTERNS = [
    ("commit", r"\*self\s*=\s*new_enr"), ("inc_seq", r"checked_add\(1\)"), ("set_seq", r"new_enr\.seq\s*=\s*seq\b"),
    ("check_reserved", r"check_spec_reserved_keys\("), ("check_keyed", r"check_keyed_by\("), ("check_size", r"\.size\(\)\s*>\s*MAX_ENR_SIZE"),
    ("sign", r"new_enr\.sign\("), ("set_nid", r"new_enr\.node_id\s*="), ("remove", r"\.content\s*\.remove\("), ("insert", r"\.content\s*\.insert\("),
    ("self_write", r"\bself\.(seq|signature|node_id)\s*=|self\.content\s*\.(insert|remove)\(|mem::replace\(&mut self"),
]


def statement_skeleton(path="/repo/src/lib.rs"):
    import re
    text = open(path, errors="replace").read().split("#[cfg(test)]\nmod tests")[0]
    out, differ = {}, []
    for fn, want in _SKELETON_MODEL.items():
        m = re.search(r"fn\s+%s\b[^{]*\{" % fn, text)
        if not m:
            differ.append("%s: not found" % fn)
            continue
        i, depth = m.end(), 1
        while i < len(text) and depth:
            depth += {"{": 1, "}": -1}.get(text[i], 0)
            i += 1
        body = re.sub(r"//[^\n]*", "", text[m.end():i])
        body = re.sub(r"\s+", " ", body)
        hits = []
        for name, pat in _SKELETON_PATTERNS:
            for mm in re.finditer(pat, body):
                hits.append((mm.start(), name))
        got = [n for _, n in sorted(hits)]
        if fn == "set_socket":
            # the v4 and v6 arms each insert ip and port: one arm is taken
            got2, seen = [], 0
            for n in got:
                if n == "insert":
                    seen += 1
                    if seen in (3, 4):
                        continue
                got2.append(n)
            got = got2
        out[fn] = got
        if got != want:
            differ.append("%s: source %s, Stmt.v %s" % (fn, got, want))
    return {"bodies_compared": len(_SKELETON_MODEL), "differ": differ}
