#!/usr/bin/env python3
# check.py <PID> [--tier quick|thorough] [--replay path]
# One check run for one property: (1) the property's theorems are re-checked by coqc and their
# assumptions audited; (2) the harness is rebuilt against /repo's working tree and the corpus plus
# freshly generated cases are run through implementation and extracted model, comparing the
# observables the property's theorems speak about; (3) disagreements are turned into a failing
# input of the property itself by the property's monitor where possible; (4) evidence is written.
import argparse, collections, glob, json, os, random, sys, time

sys.path.insert(0, os.path.dirname(os.path.abspath(__file__)))
from enrlib import *
import gens
import coqcross

REC_FIELDS = ["seq", "nid", "sig", "pairs", "pk", "pku", "nidpk", "verify", "size", "enc", "text", "disp", "json", "id", "ip4", "ip6",
              "tcp4", "tcp6", "udp4", "udp6", "s_udp4", "s_udp6", "s_tcp4", "s_tcp6", "r_udp", "r_tcp", "client", "acc", "glue", "redec", "alt"]
REC_CMP = [k for k in REC_FIELDS if k != "alt"]   # alt exists only on json lines


class Ctx:
    def __init__(self, pid, tier, seed):
        self.pid, self.tier, self.seed = pid, tier, seed
        self.rng = random.Random(seed * 1000003 + int(pid[1:]))
        self.oracle = Oracle()
        self.evals = 0
        self.hashes = set()
        self.nontrivial = set()
        self.dist = collections.Counter()
        self.samples = []
        self.findings = []  # dicts: kind (monitor|disagreement|audit), kt, case, line, detail
        self.validated = 0
        self.hyp_checked = collections.Counter()
        self.quick = tier == "quick"
        self.cross = {"decode_and_text_cases": 0, "history_steps": 0, "seconds": 0.0}

    def scale(self, q, t):
        return q if self.quick else t

    def note_case(self, kt, case, nontrivial, label=None):
        h = case_hash([kt] + case)
        self.hashes.add(h)
        if nontrivial:
            self.nontrivial.add(h)
        if label:
            self.dist[label] += 1
        if len(self.samples) < 6 and nontrivial and self.rng.random() < 0.3:
            self.samples.append({"kt": kt, "label": label, "commands": [c[:300] for c in case[:8]]})

    def finding(self, kind, kt, case, idx, detail, impl=None, model=None):
        self.findings.append({"kind": kind, "kt": kt, "case": case, "line": idx, "detail": detail, "impl": impl, "model": model})


def first(head):
    return head[0] if head else "?"


# ------------------------------------------------------------------ generic comparison over cases

def compare_cases(ctx, kt, cases, labels, fields_for, tag, monitor=None, nontrivial=None):
    """Runs cases through impl and model; for each line compares the projected fields.
    fields_for(cmd, head_impl) -> list of fields or None (all); monitor(kt, case, impl_lines) -> list of (idx, text)."""
    res = run_cases(kt, cases, tag)
    for ci, (case, (il, ml)) in enumerate(zip(cases, res)):
        nt = False
        for li, (cmd, a, b) in enumerate(zip(case, il, ml)):
            ctx.evals += 1
            ha, fa = parse_line(a)
            hb, fb = parse_line(b)
            if cls(ha) == "panic" and ctx.pid == "C03":
                pass
            if first(hb) in ("modelfail", "badcmd") or first(ha) in ("badcmd",):
                raise InfraError("driver could not run %r: impl=%r model=%r" % (cmd[:200], a[:200], b[:200]))
            flds = fields_for(cmd, ha)
            skip = set()
            if kt.endswith("_plain"):
                skip |= {"sgn", "vfy"}
            # lossy UTF-8 conversions are outside the model: compare only when the model's bytes are valid UTF-8
            shape = []
            for f in ("id", "client"):
                mv = fb.get(f)
                if mv and mv != "none" and not all(utf8_ok(x) for x in mv.split(",")):
                    skip.add(f)
                    # ... but the SHAPE is inside the model: the same number of components, and the components that are
                    # valid UTF-8 are reported as they are (only the lossy conversion of the others is not compared)
                    if flds is None or f in flds:
                        av = fa.get(f)
                        ac, mc = (av or "none").split(","), mv.split(",")
                        if av in (None, "none") or len(ac) != len(mc) or any(utf8_ok(y) and x != y for x, y in zip(ac, mc)):
                            shape.append((f + "#shape", av, mv))
            if ctx.pid in ("C04", "C12") and fa.get("alt", "1") != "1":
                ctx.finding("monitor", kt, case, li, "the JSON form does not deserialise the same way through serde_json::from_str / from_slice / from_reader / from_value", a, b)
            d = diff_lines(a, b, flds, skip)
            if shape and cls(ha) == cls(hb) and "panic" not in ha:
                d = d + shape
            if d:
                ctx.finding("disagreement", kt, case, li, d, a, b)
            else:
                ctx.validated += 1
            if first(ha) == "ok":
                nt = True
        if monitor:
            for idx, text in monitor(kt, case, il):
                ctx.finding("monitor", kt, case, idx, text, il[idx] if idx < len(il) else None, ml[idx] if idx < len(ml) else None)
        is_nt = nt if nontrivial is None else nontrivial(case, il)
        ctx.note_case(kt, case, is_nt, labels[ci] if labels else None)
    return res


def rec_of(line):
    h, f = parse_line(line)
    return h, f


def payload_from_obs(f):
    """rebuild the signed content list from the reported seq and raw pairs (independent encoder)"""
    body = rlp_uint(int(f["seq"]))
    if f["pairs"] != "-":
        for kv in f["pairs"].split(","):
            k, v = kv.split(":")
            body += rlp_str(unhx(k)) + unhx(v)
    return rlp_list(body)


def pairs_list_of(f):
    """the reported raw pairs in the order the implementation iterates them"""
    out = []
    if f.get("pairs", "-") != "-":
        for kv in f["pairs"].split(","):
            k, v = kv.split(":")
            out.append((unhx(k), unhx(v)))
    return out


def pairs_of(f):
    out = {}
    if f.get("pairs", "-") != "-":
        for kv in f["pairs"].split(","):
            k, v = kv.split(":")
            out[unhx(k)] = unhx(v)
    return out


def oracle_verifies(ctx, kt, f):
    """asks the crypto libraries directly whether the reported signature is valid for the public key in the
    reported pairs over the content list rebuilt from the reported seq and pairs"""
    kt = base_kt(kt)
    pairs = pairs_of(f)
    msg = payload_from_obs(f)
    sig = unhx(f["sig"])

    def raw_str(v):
        # the stored value is an RLP string: strip the header (independent of the model)
        if len(v) == 1 and v[0] < 0x80:
            return v
        if v and 0x80 <= v[0] <= 0xB7:
            return v[1:1 + v[0] - 0x80]
        if v and 0xB8 <= v[0] <= 0xBF:
            ll = v[0] - 0xB7
            return v[1 + ll:]
        return None

    def secp():
        v = pairs.get(b"secp256k1")
        pk = raw_str(v) if v is not None else None
        be = "l" if kt == "libsecp" else "k"
        if pk is None or ctx.oracle.q("secp_pk %s %s" % (be, hx(pk))) == "err":
            return None
        return ctx.oracle.q("ecdsa %s %s %s %s" % (be, hx(pk), hx(ctx.oracle.keccak(msg)), hx(sig))) == "1" and len(sig) == 64

    def ed():
        v = pairs.get(b"ed25519")
        pk = raw_str(v) if v is not None else None
        if pk is None or ctx.oracle.q("edpk " + hx(pk)) != "1":
            return None
        return ctx.oracle.q("ed %s %s %s" % (hx(pk), hx(msg), hx(sig))) == "1" and len(sig) == 64

    def toy():
        v = pairs.get(b"toy")
        pk = raw_str(v) if v is not None else None
        if pk is None or len(pk) != 8:
            return None
        return len(sig) >= 16 and sig[:8] == pk and sig[8:16] == ctx.oracle.keccak(pk + msg)[:8]

    if kt in ("k256", "libsecp", "k256_plain"):
        return secp()
    if kt == "ed":
        return ed()
    if kt == "toy":
        return toy()
    r = secp()
    return r if r is not None else ed()


def valid_obs_problems(ctx, kt, f):
    """model-independent validity monitor on one record observation (C05's conjuncts)"""
    out = []
    if f.get("verify") != "1":
        out.append("verify() is false")
    if f.get("id") != "7634":
        out.append("id is not v4")
    if "pku" in f and f.get("nid") != hx(ctx.oracle.keccak(unhx(f["pku"]))):
        out.append("node id is not keccak256 of the uncompressed public key")
    if f.get("nid") != f.get("nidpk"):
        out.append("node id differs from NodeId::from(public_key())")
    if "size" in f and int(f["size"]) > 300:
        out.append("size %s > 300" % f["size"])
    if "enc" in f and "size" in f and int(f["size"]) != len(unhx(f["enc"])):
        out.append("size() != encoding length")
    if f.get("redec", "1") != "1":
        out.append("the record's own encoding is not accepted back by the decoder as the same record")
    ov = oracle_verifies(ctx, kt, f)
    ctx.hyp_checked["signature checked by the library directly"] += 1
    if ov is not True:
        out.append("the crypto library, asked directly, does not accept (key in pairs, content rebuilt from seq+pairs, signature)")
    return out


# ------------------------------------------------------------------ C01 / C02 / C04(decode part) / C11 / C13

def decode_inputs(ctx, kt, n_valid, with_tampers, with_struct, n_unstructured, n_flips):
    """returns (inputs, labels) for the decode-family checks"""
    rng, o = ctx.rng, ctx.oracle
    recs = gens.valid_records(rng, o, kt, n_valid)
    inputs, labels = [], []
    for r in recs:
        inputs.append(r["bytes"]); labels.append("valid")
    # the other entry points' forms handed to this one: the text of a valid record, its base64 body and its JSON string as
    # BYTES (each begins with a complete one-byte RLP item, so the binary decoder must treat it as that item)
    for r in recs[:3]:
        t = b"enr:" + gens.b64(r["bytes"])
        for lab, b in (("text_form_as_bytes", t), ("base64_body_as_bytes", t[4:]), ("json_form_as_bytes", b'"' + t + b'"'), ("record_then_text_form", r["bytes"] + t)):
            inputs.append(b); labels.append(lab)
    brecs = gens.boundary_records(rng, o, kt)
    for r in brecs:
        inputs.append(r["bytes"]); labels.append("valid_framing_boundary")
    if with_struct:
        for r in brecs[-1:] + rng.sample(brecs[:-1], 2):
            for lab, b in gens.wire_malformed_signed_canonical(rng, o, r):
                inputs.append(b); labels.append(lab)
    if with_tampers:
        for i, r in enumerate(recs[:with_tampers]):
            for lab, b in gens.tampers(rng, o, r, recs[i + 1:] + recs[:i], n_flips):
                inputs.append(b); labels.append(lab)
    if with_struct:
        for r in recs[:with_struct]:
            for lab, b in gens.structural_mutants(rng, o, r):
                inputs.append(b); labels.append(lab)
            for lab, b in gens.wire_malformed_signed_canonical(rng, o, r):
                inputs.append(b); labels.append(lab)
        # every item of a record in every deformed framing, signed over the canonical content and over the wire bytes
        small = sorted(recs, key=lambda r: len(r["pairs"]))
        for r in small[:1] + (small[len(small) // 2:len(small) // 2 + 1] if not ctx.quick else []):
            for lab, b in gens.rlp_deformation_matrix(rng, o, r, None if not ctx.quick else 220):
                inputs.append(b); labels.append(lab)
        k0 = recs[0]["key"]
        base = {b"id": rlp_str(b"v4"), k0.entry: rlp_str(k0.pub), b"ip": rlp_str(bytes([10, 0, 0, 1]))}
        for lab, b in gens.honest_with_duplicates(rng, o, k0, 5, base) + gens.ill_typed_after_neighbour(rng, o, k0, 5, base) \
                + gens.wellknown_keys_any_value(rng, o, k0, 6, base, 2 if ctx.quick else 6):
            inputs.append(b); labels.append(lab)
        for lab, b in gens.many_pairs_records(rng, o, k0):
            inputs.append(b); labels.append(lab)
        for lab, b in gens.huge_records(rng, o, k0, (65536 + 250, 65536 + 300) if ctx.quick else (65536 + 250, 65536 + 300, 65536, 65536 + 301, 2 * 65536 + 100, 70000)):
            inputs.append(b); labels.append(lab)
        if kt == "comb":
            # a record of one scheme carrying a stray entry under the other scheme's key: a non-key, an invalid key, a valid key
            ks = gens.secrets(rng, o, "comb", 6)
            for sk in [k for k in ks if k.scheme == "k"][:1] + [k for k in ks if k.scheme == "ed"][:1]:
                other_entry = b"ed25519" if sk.scheme == "k" else b"secp256k1"
                for stray in (b"", b"xyz", gens.rbytes(rng, 33 if other_entry == b"secp256k1" else 32), bytes([2]) + b"\xff" * 32):
                    pairs = {b"id": rlp_str(b"v4"), sk.entry: rlp_str(sk.pub), other_entry: rlp_str(stray)}
                    inputs.append(record_bytes(o, sk, 3, sorted(pairs.items()))[0]); labels.append("stray_entry_of_other_scheme")
    for b in gens.unstructured(rng, n_unstructured):
        inputs.append(b); labels.append("unstructured")
    if kt in ("ed", "comb", "k256"):
        for b in gens.weak_ed_records(rng):
            inputs.append(b); labels.append("ed25519_weak_key" if kt != "k256" else "other_scheme_only")
    return recs, inputs, labels


def cross_decode(ctx, kt, inputs, texts=()):
    """extraction cross-check on a sample of this run's own toy-key inputs (see coqcross.py)"""
    if kt != "toy":
        return
    n = ctx.scale(24, 250)
    ins = [b for b in inputs if len(b) <= 2000]   # (a 64 KiB list literal overflows coqc's parser stack)
    ctx.rng.shuffle(ins)
    txt = list(texts)[:ctx.scale(6, 60)]
    k, dt = coqcross.cross_check(ins[:n], txt, ctx.pid.lower())
    ctx.cross["decode_and_text_cases"] += k
    ctx.cross["seconds"] += dt


def cross_hist(ctx, kt, cases, res):
    if kt != "toy":
        return
    pairs = [(c, ml) for c, (il, ml) in zip(cases, res) if not any(l.startswith(("rebuild", "save", "use", "pair", "recode", "show")) for l in c)]
    ctx.rng.shuffle(pairs)
    k, dt = coqcross.cross_check_histories(pairs[:ctx.scale(8, 80)], ctx.pid.lower() + "h")
    ctx.cross["history_steps"] += k
    ctx.cross["seconds"] += dt


def check_C01(ctx):
    fields = ["rest", "seq", "pairs", "sig", "pk", "verify", "vfy"]

    def mon(kt, case, il):
        out = []
        for i, l in enumerate(il):
            h, f = parse_line(l)
            if first(h) == "ok" and "seq" in f:
                if f.get("verify") != "1":
                    out.append((i, "accepted record reports verify() = false"))
                if oracle_verifies(ctx, kt, f) is not True:
                    out.append((i, "accepted, but the library asked directly rejects the signature for the key/content the record reports"))
                ctx.hyp_checked["accepted record re-verified by the library directly"] += 1
                # the signature covers exactly what the INPUT carries: the consumed input is the encoding of the reported
                # signature, sequence number and pairs (otherwise an altered copy of a signed record was accepted)
                t = case[i].split()
                if t[0] == "decode" and "rest" in f:
                    inp = unhx(t[1])
                    consumed = inp[:len(inp) - int(f["rest"])]
                    body = rlp_uint(int(f["seq"])) + b"".join(rlp_str(k) + v for k, v in pairs_list_of(f))
                    if consumed != rlp_list(rlp_str(unhx(f["sig"])) + body):
                        out.append((i, "accepted an input that is not the encoding of the signature, sequence number and pairs the record reports: what was verified is not what the input carries"))
        return out

    for kt in ["k256", "libsecp", "ed", "comb", "toy"]:
        recs, inputs, labels = decode_inputs(ctx, kt, ctx.scale(6, 40), ctx.scale(2, 8), ctx.scale(2, 10), ctx.scale(60, 2000), ctx.scale(400, None))
        cases, labs = [], []
        for b, lab in zip(inputs, labels):
            if lab != "valid" and ctx.rng.random() < 0.15:
                cases.append(["parse " + hx(b"enr:" + gens.b64(b))]); labs.append(lab + "/text")
            else:
                cases.append(["decode " + hx(b)]); labs.append(lab)
        for r in recs[:ctx.scale(6, 40)]:
            tw = gens.content_twin(ctx.rng, ctx.oracle, r)
            cases.append(["decode " + hx(r["bytes"]), "decode " + hx(tw), "decode " + hx(r["bytes"]), "parse " + hx(b"enr:" + gens.b64(tw))])
            labs.append("genuine_then_content_twin")
        compare_cases(ctx, kt, cases, labs, lambda c, h: fields, "c01", mon, nontrivial=lambda case, il: True)
        cross_decode(ctx, kt, inputs, [b"enr:" + gens.b64(b) for b in inputs[:12]])


def check_C02(ctx):
    for kt in ["k256", "libsecp", "ed", "comb", "toy", "k256_default"]:
        recs, inputs, labels = decode_inputs(ctx, base_kt(kt), ctx.scale(10, 120), 0, ctx.scale(10, 120), ctx.scale(40, 1000), 0)
        # "a valid signature" is part of well-formedness: the shapes a signature field must not have
        for i, r in enumerate(recs[:ctx.scale(3, 30)]):
            for lab, b in gens.tampers(ctx.rng, ctx.oracle, r, recs[i + 1:] + recs[:i], 0):
                if lab in ("der_sig", "sig_leading_zero_stripped", "wrong_length_sig", "high_s_twin", "zero_r", "r_plus_n", "pubkey_reencoded_unsigned"):
                    inputs.append(b); labels.append(lab)
        cases = [["decode " + hx(b)] for b in inputs]
        for i in range(0, len(inputs), 7):
            cases.append(["parse " + hx(b"enr:" + gens.b64(inputs[i]))]); labels.append(labels[i] + "/text")
        # verdict only; a verdict that differs from the model's is a failing input (the model's verdict is WellFormed's)
        compare_cases(ctx, kt, cases, labels, lambda c, h: [], "c02", None, nontrivial=lambda case, il: True)
        cross_decode(ctx, kt, inputs)


def check_C13(ctx):
    def mon(kt, case, il):
        out = []
        # case = [decode item, decode item+suffix] (+ stream/list lines)
        if len(case) >= 2 and case[0].startswith("decode") and case[1].startswith("decode"):
            h0, f0 = parse_line(il[0]); h1, f1 = parse_line(il[1])
            item = unhx(case[0].split()[1])
            if rlp_item_len(item) != len(item):
                return out  # the property speaks about buffers that begin with a COMPLETE item; a truncated one may be completed by what follows
            suf = (len(case[1].split()[1]) - len(case[0].split()[1])) // 2 if case[0].split()[1] != "-" else len(unhx(case[1].split()[1]))
            if cls(h0) != cls(h1):
                out.append((1, "outcome changes with the suffix: alone=%s with %d-byte suffix=%s" % (first(h0), suf, first(h1))))
            elif first(h0) == "err" and f0.get("e") != f1.get("e"):
                out.append((1, "the error reported for an invalid item changes with what follows it: alone=%s, followed by %d bytes=%s" % (f0.get("e"), suf, f1.get("e"))))
            elif first(h0) == "ok":
                if int(f1["rest"]) != int(f0["rest"]) + suf:
                    out.append((1, "buffer not advanced by exactly the item length"))
                for k in ("seq", "pairs", "sig", "nid", "enc"):
                    if f0.get(k) != f1.get(k):
                        out.append((1, "field %s changes with the suffix" % k))
        return out

    for kt in ["k256", "libsecp", "ed", "comb", "toy"]:
        rng = ctx.rng
        recs, inputs, labels = decode_inputs(ctx, kt, ctx.scale(8, 60), 0, ctx.scale(2, 20), ctx.scale(10, 200), 0)
        cases, labs = [], []
        for b, lab in zip(inputs, labels):
            n = rng.choice([0, 1, 1, 2, 8, 55, 181, 182, 250, 300, 301, 1000]) if rng.random() < 0.7 else rng.randrange(0, 1001)
            suffix = gens.rbytes(rng, n) if rng.random() < 0.7 else (recs[0]["bytes"] * 4)[:n]
            cases.append(["decode " + hx(b), "decode " + hx(b + suffix)]); labs.append(lab + "+suffix")
        # complete but invalid items (last element cut short / missing value) followed by bytes that would complete them
        for r in recs[:ctx.scale(4, 30)]:
            body = rlp_uint(r["seq"]) + b"".join(rlp_str(k) + v for k, v in r["pairs"])
            for extra in (rlp_str(b"tcp"), rlp_str(b"zzz") + b"\x83ab", rlp_str(b"zzz") + b"\xc2\x01", rlp_str(b"zzz") + b"\xb8"):
                bad = rlp_list(rlp_str(r["sig"]) + body + extra)
                for sfx in (b"\x00", b"\x05", rng.choice(recs)["bytes"], b"\x80", gens.rbytes(rng, 7)):
                    cases.append(["decode " + hx(bad), "decode " + hx(bad + sfx)]); labs.append("truncated_last_element+suffix")
        # records of exactly 300 bytes followed by more than 64 KiB
        for r in recs:
            if len(r["bytes"]) == 300 and sum(1 for l in labs if l == "300_bytes+huge_suffix") < ctx.scale(2, 8):
                for n in (65236, 65536, 70000):
                    cases.append(["decode " + hx(r["bytes"]), "decode " + hx(r["bytes"] + (recs[0]["bytes"] * (n // len(recs[0]["bytes"]) + 1))[:n])]); labs.append("300_bytes+huge_suffix")
        # two records whose keys are d and n-d (same x coordinate, other parity), back to back in both orders, as a
        # stream and as a list: state carried from one decode to the next must not matter
        if kt in ("k256", "libsecp", "comb"):
            import enrlib as _el
            for _ in range(ctx.scale(2, 12)):
                sd = gens.rbytes(rng, 32)
                ns = gens.neg_secret(sd)
                if ns is None:
                    continue
                k1 = _el.Key(ctx.oracle, kt, sd, "secp" if kt == "comb" else None)
                k2 = _el.Key(ctx.oracle, kt, ns, "secp" if kt == "comb" else None)
                if k1.pub is None or k2.pub is None:
                    continue
                r1 = record_bytes(ctx.oracle, k1, 1, sorted({b"id": rlp_str(b"v4"), k1.entry: rlp_str(k1.pub)}.items()))[0]
                r2 = record_bytes(ctx.oracle, k2, 1, sorted({b"id": rlp_str(b"v4"), k2.entry: rlp_str(k2.pub), b"udp": rlp_uint(9)}.items()))[0]
                for x, y in ((r1, r2), (r2, r1)):
                    cases.append(["decode " + hx(x), "decode " + hx(x + y), "decode " + hx(y), "decode " + hx(x), "decvec " + hx(rlp_list(x + y)), "decvec " + hx(rlp_list(y + x + y))])
                    labs.append("negated_key_pair_back_to_back")
        # streams and lists of 1..8 records
        for _ in range(ctx.scale(12, 150)):
            k = rng.randrange(1, 9)
            picks = [rng.choice(recs) for _ in range(k)]
            rs = [r["bytes"] for r in picks]
            if rng.random() < 0.2:
                rs[rng.randrange(k)] = rng.choice(inputs)
            if rng.random() < 0.35:
                # the genuine record immediately followed by a copy with altered content and the same signature
                j = rng.randrange(k)
                rs = rs[:j] + [picks[j]["bytes"], gens.content_twin(rng, ctx.oracle, picks[j])] + rs[j + 1:]
                k = len(rs)
            cat = b"".join(rs)
            case = ["decvec " + hx(rlp_list(cat)), "decvec " + hx(rlp_list(cat) + gens.rbytes(rng, rng.randrange(0, 20)))]
            pos = 0
            for r in rs:
                case.append("decode " + hx(cat[pos:]))
                pos += len(r)
            cases.append(case); labs.append("stream_of_%d" % k)
        compare_cases(ctx, kt, cases, labs, lambda c, h: ["rest", "n", "recs", "seq", "pairs", "sig", "nid", "enc"], "c13", mon,
                      nontrivial=lambda case, il: True)
        cross_decode(ctx, kt, [unhx(c[1].split()[1]) for c in cases if len(c) > 1 and c[1].startswith("decode ")])


def check_C11(ctx):
    rng, o = ctx.rng, ctx.oracle
    groups = [("secp", ["k256", "libsecp", "comb"], "k256"), ("ed", ["ed", "comb"], "ed")]
    cmp_fields = ["seq", "pairs", "sig", "pk", "nid", "rest"]
    for gname, kts, gen_kt in groups:
        recs, inputs, labels = decode_inputs(ctx, gen_kt, ctx.scale(8, 60), ctx.scale(1, 6), ctx.scale(3, 30), ctx.scale(30, 500), ctx.scale(150, 1500))
        # records of the other scheme, and records carrying both keys
        other_kt = "ed" if gname == "secp" else "k256"
        orecs = gens.valid_records(rng, o, other_kt, ctx.scale(4, 20))
        for r in orecs:
            inputs.append(r["bytes"]); labels.append("other_scheme_only")
        both_key = gens.secrets(rng, o, gen_kt, 1)[0]
        okey = gens.secrets(rng, o, other_kt, 1)[0]
        for i in range(ctx.scale(4, 30)):
            pl = dict(gens.base_pairs(rng, both_key))
            pl[okey.entry] = rlp_str(okey.pub if rng.random() < 0.7 else gens.rbytes(rng, len(okey.pub)))
            signer = rng.choice([both_key, okey])
            pl2 = sorted(pl.items())
            inputs.append(record_bytes(o, signer, rng.choice(gens.SEQ_POOL), pl2)[0]); labels.append("both_keys_signed_by_" + signer.scheme)
        for lab, b in gens.mislabelled_key_entries(rng, o):
            inputs.append(b); labels.append(lab)
        # a record of this group's scheme carrying an entry under the other scheme's name that is NOT a valid key
        # (empty, short, garbage, off-curve): the single-scheme type and CombinedKey both go by this group's key
        oentry = b"ed25519" if gname == "secp" else b"secp256k1"
        for stray in (b"", b"xyz", gens.rbytes(rng, 33 if oentry == b"secp256k1" else 32), bytes([2]) + b"\xff" * 32, b"\x04" + b"\x01" * 64, gens.rbytes(rng, 31)):
            if oentry == b"secp256k1" and o.q("secp_pk k " + hx(stray)).split()[0] == "ok":
                continue
            pl = dict(gens.base_pairs(rng, both_key)); pl[oentry] = rlp_str(stray)
            inputs.append(record_bytes(o, both_key, rng.choice([1, 200, 70000]), sorted(pl.items()))[0]); labels.append("invalid_stray_entry_of_other_scheme")
        cases = [["decode " + hx(b)] for b in inputs]
        per_kt = {}
        for kt in kts + ([other_kt] if True else []):
            res = compare_cases(ctx, kt, cases, labels, lambda c, h: cmp_fields, "c11" + gname, None, nontrivial=lambda case, il: True)
            per_kt[kt] = [il[0] for il, ml in res]
        # pairwise agreement between the back-ends on the implementation's own observations.
        # Records that carry a key of BOTH schemes are excluded from the pairwise comparison: there the
        # single-scheme type and CombinedKey legitimately differ (precedence rule); the model decides those.
        for i, case in enumerate(cases):
            if labels[i] in ("pubkey_hybrid", "pubkey_uncompressed_signed", "pubkey_reencoded_unsigned"):
                continue  # 65-byte SEC1 encodings are outside the property (the two libraries differ on the hybrid form)
            if labels[i].startswith("both_keys") or labels[i] == "other_scheme_only":
                if labels[i] == "other_scheme_only":
                    h, f = parse_line(per_kt[gen_kt][i])
                    if first(h) == "ok":
                        ctx.finding("monitor", gen_kt, case, 0, "single-scheme key type accepted a record that carries only the other scheme's key", per_kt[gen_kt][i], None)
                continue
            base = None
            for kt in kts:
                h, f = parse_line(per_kt[kt][i])
                obs = (cls(h),) + tuple(f.get(k) for k in cmp_fields) if first(h) == "ok" else (cls(h),)
                if base is None:
                    base = (kt, obs)
                elif obs != base[1]:
                    ctx.finding("monitor", kt, case, 0, "back-ends disagree: %s gives %s, %s gives %s" % (base[0], str(base[1])[:200], kt, str(obs)[:200]), per_kt[kt][i], None)


# ------------------------------------------------------------------ histories: C05..C10, C14, C15, C04(roundtrip), C03

def hist_cases(ctx, kt, n, steps, start_fn=None):
    cases = []
    for i in range(n):
        st = start_fn(ctx.rng) if start_fn else None
        cases.append(gens.history(ctx.rng, ctx.oracle, kt, steps if isinstance(steps, int) else ctx.rng.randrange(*steps), st))
    return cases


def op_name(cmd):
    t = cmd.split()
    return t[1] if t and t[0] == "op" else t[0] if t else ""


def walk_history(case, il):
    """yields (idx, cmd, head, fields, prev_fields) following the current record of the implementation"""
    prev = None
    for i, (cmd, l) in enumerate(zip(case, il)):
        h, f = parse_line(l)
        yield i, cmd, h, f, prev
        if "seq" in f and "panic" not in h:
            prev = f


def key_obs(case, il):
    out = {}
    for cmd, l in zip(case, il):
        t = cmd.split()
        if t and t[0] == "key":
            out[t[1]] = parse_line(l)[1]
    return out


def mon_C05(ctx):
    def mon(kt, case, il):
        out = []
        keys = key_obs(case, il)
        for i, cmd, h, f, prev in walk_history(case, il):
            if first(h) == "ok" and "seq" in f:
                for p in valid_obs_problems(ctx, kt, f):
                    out.append((i, "record returned with Ok is not valid: " + p))
                t = cmd.split()
                if t[0] == "op" or t[0] == "build":
                    slot = t[2] if t[0] == "op" else t[1]
                    ko = keys.get(slot)
                    if ko and (f.get("pk") != ko.get("pk") or f.get("nid") != ko.get("nid")):
                        out.append((i, "after an update with key %s the record's public key / node id are not that key's" % slot))
        return out
    return mon


def mon_C06(ctx):
    def mon(kt, case, il):
        out = []
        for i, cmd, h, f, prev in walk_history(case, il):
            if first(h) == "err" and cmd.startswith("op") and prev is not None and "seq" in f:
                for k in REC_CMP:
                    if f.get(k) != prev.get(k):
                        out.append((i, "failed update (%s) changed %s" % (f.get("kind"), k)))
                        break
                if f.get("verify") != "1" and prev.get("verify") == "1":
                    out.append((i, "record does not verify after a failed update"))
        return out
    return mon


def mon_C07(ctx):
    def mon(kt, case, il):
        out = []
        for i, cmd, h, f, prev in walk_history(case, il):
            if not cmd.startswith("op") or prev is None or "seq" not in f:
                continue
            name = op_name(cmd)
            if first(h) == "ok":
                if name == "set_seq":
                    if f["seq"] != cmd.split()[4]:
                        out.append((i, "set_seq(%s) left seq=%s" % (cmd.split()[4], f["seq"])))
                elif int(f["seq"]) != int(prev["seq"]) + 1:
                    out.append((i, "%s: seq %s -> %s (not +1)" % (name, prev["seq"], f["seq"])))
                if int(f["seq"]) >= 2**64:
                    out.append((i, "seq out of range"))
            if name != "set_seq" and prev["seq"] == str(2**64 - 1) and first(h) == "ok":
                out.append((i, "update at 2^64-1 succeeded"))
        return out
    return mon


def mon_C09(ctx):
    def mon(kt, case, il):
        out = []
        for i, cmd, h, f, prev in walk_history(case, il):
            if "size" in f and "enc" in f:
                if int(f["size"]) != len(unhx(f["enc"])):
                    out.append((i, "size() %s != encoding length %d" % (f["size"], len(unhx(f["enc"])))))
                if int(f["size"]) > 300:
                    out.append((i, "record of %s bytes handed out / left behind" % f["size"]))
        return out
    return mon


def mon_C10(ctx):
    def mon(kt, case, il):
        out = []
        for i, cmd, h, f, prev in walk_history(case, il):
            if "nid" in f and "pku" in f and "seq" in f:
                if f["nid"] != hx(ctx.oracle.keccak(unhx(f["pku"]))):
                    out.append((i, "node id != keccak256(uncompressed public key)"))
                if f["nid"] != f.get("nidpk"):
                    out.append((i, "node id != NodeId::from(public_key())"))
                # uncompressed form derived independently from the raw entry in the pairs
                pairs = pairs_of(f)
                v = pairs.get(b"secp256k1")
                if v is not None and base_kt(kt) in ("k256", "libsecp", "comb") and len(v) == 35:
                    r = ctx.oracle.q("secp_pk %s %s" % ("l" if kt != "libsecp" else "k", hx(v[2:]))).split()
                    if r[0] == "ok" and r[2] != f["pku"]:
                        out.append((i, "encode_uncompressed() differs from an independent derivation from the stored key"))
                # an entry stored in the uncompressed SEC1 form 04 || x || y: the id is the hash of exactly that x || y
                if v is not None and base_kt(kt) in ("k256", "libsecp", "comb") and len(v) == 67 and v[:3] == b"\xb8\x41\x04" and f.get("pk", "")[2:] == hx(v[3:35]):
                    if f["nid"] != hx(ctx.oracle.keccak(v[3:])):
                        out.append((i, "node id != keccak256 of the 64-byte x||y stored in the record's secp256k1 entry"))
                ved = pairs.get(b"ed25519")
                if ved is not None and len(ved) == 33 and (kt == "ed" or (kt == "comb" and f.get("pk") == hx(ved[1:]))):
                    if f["nid"] != hx(ctx.oracle.keccak(ved[1:])):
                        out.append((i, "node id != keccak256 of the 32-byte ed25519 key stored in the record"))
                if prev is not None and cmd.startswith("op") and first(h) == "ok" and f.get("pk") == prev.get("pk") and f["nid"] != prev["nid"]:
                    out.append((i, "node id changed under an update with the same key"))
        return out
    return mon


def mon_C14(ctx):
    def mon(kt, case, il):
        out = []
        for i, cmd, h, f, prev in walk_history(case, il):
            if "ip4" not in f:
                continue
            def comb(ip, p):
                return "none" if f[ip] == "none" or f[p] == "none" else f[ip] + ":" + f[p]
            for s, ip, p in (("s_udp4", "ip4", "udp4"), ("s_udp6", "ip6", "udp6"), ("s_tcp4", "ip4", "tcp4"), ("s_tcp6", "ip6", "tcp6")):
                if f[s] != comb(ip, p):
                    out.append((i, "%s is not the combination of %s and %s" % (s, ip, p)))
            if f["r_udp"] != ("1" if f["s_udp4"] != "none" or f["s_udp6"] != "none" else "0"):
                out.append((i, "is_udp_reachable is not the disjunction of the udp sockets"))
            if f["r_tcp"] != ("1" if f["s_tcp4"] != "none" or f["s_tcp6"] != "none" else "0"):
                out.append((i, "is_tcp_reachable is not the disjunction of the tcp sockets"))
            pairs = pairs_of(f)
            for fld, k in (("tcp4", b"tcp"), ("tcp6", b"tcp6"), ("udp4", b"udp"), ("udp6", b"udp6")):
                raw = pairs.get(k)
                if f[fld] != "none":
                    if raw != rlp_uint(int(f[fld])) or int(f[fld]) >= 65536:
                        out.append((i, "%s reports %s but the raw value is %s" % (fld, f[fld], hx(raw or b""))))
                elif raw is not None and any(raw == rlp_uint(p) for p in (0, 1, 80, 127, 128, 255, 256, 30303, 65535)):
                    out.append((i, "%s reports None although the raw value is a canonical port" % fld))
            for fld, k, n in (("ip4", b"ip", 4), ("ip6", b"ip6", 16)):
                raw = pairs.get(k)
                if f[fld] != "none":
                    if raw != rlp_str(unhx(f[fld])) or len(unhx(f[fld])) != n:
                        out.append((i, "%s reports %s but the raw value is %s" % (fld, f[fld], hx(raw or b""))))
                elif raw is not None and len(raw) == n + 1 and raw[0] == 0x80 + n:
                    out.append((i, "%s reports None although the raw value is a canonical address" % fld))
            # what a typed setter stored reads back
            t = cmd.split()
            if first(h) == "ok" and t[0] == "op" and t[1] in ("set_udp4", "set_udp6", "set_tcp4", "set_tcp6"):
                if f[t[1][4:]] != t[4]:
                    out.append((i, "%s(%s) reads back as %s" % (t[1], t[4], f[t[1][4:]])))
        return out
    return mon


HIST_PROJ = {
    "C05": ["verify", "id", "nid", "pk", "size", "seq", "pairs", "sig", "redec"],
    "C06": ["kind"] + REC_FIELDS,
    "C07": ["seq", "kind"],
    "C08": ["pairs", "ret", "kind", "sgn"],
    "C09": ["size", "kind", "enc"],
    "C10": ["nid", "pk", "pku", "nidpk"],
    "C14": ["id", "ip4", "ip6", "tcp4", "tcp6", "udp4", "udp6", "s_udp4", "s_udp6", "s_tcp4", "s_tcp6", "r_udp", "r_tcp", "client", "acc", "pairs"],
}
HIST_MON = {"C05": mon_C05, "C06": mon_C06, "C07": mon_C07, "C09": mon_C09, "C10": mon_C10, "C14": mon_C14}


def size_sweep_cases(ctx, kt):
    """C09: records whose size sits at 280..300, at sequence numbers whose encoding grows on increment,
    then each mutator with arguments of every small size"""
    rng, o = ctx.rng, ctx.oracle
    cases = []
    keys = gens.secrets(rng, o, kt, 2)
    a = keys[0]
    siglen = 16 if a.scheme == "toy" else 64
    targets = list(range(280, 301))
    seqs = [127, 255, 65535, 2**32 - 1, 5, 2**64 - 2]
    n = ctx.scale(40, 500)
    for _ in range(n):
        seq = rng.choice(seqs)
        pairs = {b"id": rlp_str(b"v4"), a.entry: rlp_str(a.pub)}
        if rng.random() < 0.5:
            pairs[b"ip"] = rlp_str(gens.rbytes(rng, 4))
        if rng.random() < 0.3:
            pairs[b"udp"] = rlp_uint(rng.choice([80, 30303]))
        p2 = gens.pad_to(rng, seq, pairs, rng.choice(targets), siglen)
        if not p2:
            continue
        b = record_bytes(o, a, seq, sorted(p2.items()))[0]
        lines = ["key a " + a.spec, "key b " + keys[1].spec if keys[1].scheme == a.scheme else "key b " + a.spec, "load " + b.hex()]
        for _ in range(6):
            c = rng.random()
            if c < 0.3:
                lines.append("op insert a 0 %s b:%s" % (hx(rng.choice([b"a", b"zz", b"foo", b"zfill"])), hx(b"y" * rng.randrange(0, 24))))
            elif c < 0.45:
                lines.append("op %s a 0 %d" % (rng.choice(["set_udp4", "set_tcp4", "set_udp6", "set_tcp6"]), rng.choice([0, 80, 255, 256, 65535])))
            elif c < 0.55:
                lines.append("op %s a 0 %s %d" % (rng.choice(["set_udp_socket", "set_tcp_socket"]), gens.rbytes(rng, rng.choice([4, 16])).hex(), rng.choice([80, 30303])))
            elif c < 0.65:
                lines.append("op set_seq a 0 %d" % rng.choice([0, 127, 128, 255, 256, 65535, 65536, 2**32, 2**64 - 1]))
            elif c < 0.75:
                lines.append("op remove_insert a 0 %s %s:%s" % (rng.choice(["none", hx(b"zfill"), hx(b"ip")]), hx(rng.choice([b"q", b"zz"])), hx(b"w" * rng.randrange(0, 20))))
            elif c < 0.80:
                lines.append("op set_ip a 0 %s" % gens.rbytes(rng, rng.choice([4, 16])).hex())
            elif c < 0.84:
                lines.append("op remove_key a 0 %s" % hx(rng.choice([b"ip", b"udp", b"nokey"])))
            elif c < 0.87:
                lines.append("op set_client_info a 0 %s %s none" % (hx(b"c" * rng.randrange(0, 12)), hx(b"v1")))
            else:
                lines.append(rng.choice(["op insert b 0 %s b:%s" % (hx(b"a"), hx(b"y" * rng.randrange(0, 10))),
                                         "op remove_key b 0 %s" % hx(rng.choice([b"nokey", b"udp", b"zfill"])),
                                         "op remove_udp4 b 0", "op remove_tcp b 0",
                                         "op set_udp_socket b 0 %s 30303" % gens.raddr(rng).hex(),
                                         "op set_seq b 0 %d" % rng.choice([128, 256, 65536, 2**32])]))
        cases.append(lines)
    # the builder near the limit: every result size 286..310 in 1-byte steps, for several sequence-number widths
    for seq in (rng.sample(seqs, 3) if ctx.quick else seqs):
        for target in range(286, 311):
            pairs = {b"id": rlp_str(b"v4"), a.entry: rlp_str(a.pub), b"ip": rlp_str(bytes([127, 0, 0, 1]))}
            p2 = gens.pad_to(rng, seq, pairs, target, siglen)
            if not p2 or b"zfill" not in p2:
                continue
            fill = p2[b"zfill"]
            cases.append(["key a " + a.spec, "build a 0 %d raw/%s/%s ip4/7f000001" % (seq, hx(b"zfill"), hx(fill))])
    return cases


def builder_reuse_cases(ctx, kt):
    """the same Builder object used again: after a refused build (invalid value, oversize, signing fault) and after a
    successful one, with and without further calls in between"""
    rng, o = ctx.rng, ctx.oracle
    a = gens.secrets(rng, o, kt, 1)[0]
    pubs = [a.pub]
    cases = []
    bad_raw = ["raw/%s/%s" % (hx(b"custom"), "85"), "raw/%s/%s" % (hx(b"tcp"), "83010000"), "val/%s/s:%s" % (hx(b"id"), hx(b"v5")), "raw/%s/%s" % (hx(b"ip"), "8501020304")]
    good = lambda: " ".join(gens.rand_bcalls(rng, pubs))
    for _ in range(ctx.scale(10, 120)):
        lines = ["key a " + a.spec]
        c = rng.random()
        if c < 0.35:
            bad = rng.choice(bad_raw)
            key = bad.split("/")[1]
            lines.append("build a 0 1 ip4/c0000207 udp4/30303 %s %s" % (bad, good()))
            lines.append("rebuild a 0")
            lines.append("rebuild a 0 raw/%s/%s" % (key, rng.choice(["8161", "826162", "05"]) if key not in (hx(b"tcp"), hx(b"ip"), hx(b"id")) else {hx(b"tcp"): "820050", hx(b"ip"): "8401020304", hx(b"id"): "827634"}[key]))
            lines.append("rebuild a 0")
        elif c < 0.7:
            big = hx(b"x" * rng.randrange(240, 300))
            lines.append("build a 0 %d ip4/c0000207 tcp4/8080 udp6/9000 client/%s/%s/none val/%s/b:%s" % (rng.choice([1, 127, 65535]), hx(b"Nimbus"), hx(b"v1"), hx(b"zfill"), big))
            lines.append("rebuild a 0 val/%s/b:%s" % (hx(b"zfill"), hx(b"y" * rng.randrange(0, 40))))
            lines.append("rebuild a 0")
        elif c < 0.85:
            lines.append("build a 1 1 ip4/c0000207 udp4/30303 %s" % good())
            lines.append("rebuild a 0")
            lines.append("rebuild a 0 %s" % good())
        else:
            lines.append("build a 0 - %s" % good())
            lines.append("rebuild a 0 %s" % good())
            lines.append("rebuild a 0")
        for _ in range(rng.randrange(0, 3)):
            lines.append("op " + gens.rand_op(rng, ["a"], a.entry, pubs))
        cases.append(lines)
    return cases


def size_neutral_cases(ctx, kt):
    """records of exactly 296..300 bytes that already hold ip/udp/tcp/client entries, at sequence numbers whose encoding
    grows on increment; then every kind of mutator with arguments that leave the size unchanged, with the record's key,
    another key of the scheme, and (CombinedKey) a key of the other scheme: the second size check of every mutator is
    the only thing between the caller and a 301-byte record"""
    rng, o = ctx.rng, ctx.oracle
    ks_all = gens.secrets(rng, o, kt, 4)
    cases = []
    for _ in range(ctx.scale(36, 400)):
        ks = list(ks_all)
        rng.shuffle(ks)   # under CombinedKey the record's key may be of either scheme, and the other keys too
        a = ks[0]
        same = [k for k in ks[1:] if k.scheme == a.scheme]
        other = [k for k in ks[1:] if k.scheme != a.scheme]
        siglen = 16 if a.scheme == "toy" else 64
        seq = rng.choice([127, 255, 65535, 2**24 - 1, 2**32 - 1, 126, 5])
        pairs = {b"id": rlp_str(b"v4"), a.entry: rlp_str(a.pub), b"ip": rlp_str(gens.rbytes(rng, 4)), b"udp": rlp_uint(30303), b"tcp": rlp_uint(30304)}
        if rng.random() < 0.5:
            pairs[b"ip6"] = rlp_str(gens.rbytes(rng, 16)); pairs[b"udp6"] = rlp_uint(9000)
        if rng.random() < 0.4:
            pairs[b"client"] = rlp_list(rlp_str(b"Nimbus") + rlp_str(b"v1"))
        p2 = gens.pad_to(rng, seq, pairs, rng.choice([300, 300, 300, 299, 298, 296] + ([260, 270, 280, 290] if other else [])), siglen)
        if not p2:
            continue
        b = record_bytes(o, a, seq, sorted(p2.items()))[0]
        lines = ["key a " + a.spec]
        slots = ["a"]
        if same:
            lines.append("key b " + same[0].spec); slots.append("b")
        if other:
            lines.append("key c " + other[0].spec); slots.append("c")
        lines.append("load " + b.hex())
        for _ in range(4):
            slot = rng.choice(slots) if rng.random() < 0.4 else "a"
            fail = rng.choice(["0", "0", "0", "1"])
            c = rng.random()
            if c < 0.2:
                lines.append("op %s %s %s %s 30303" % (rng.choice(["set_udp_socket", "set_tcp_socket"]), slot, fail, gens.rbytes(rng, 16 if (b"ip6" in p2 and rng.random() < 0.5) else 4).hex()))
            elif c < 0.35:
                lines.append("op %s %s %s %d" % (rng.choice(["set_udp4", "set_tcp4"]), slot, fail, rng.choice([30303, 8080, 256])))
            elif c < 0.45:
                lines.append("op set_ip %s %s %s" % (slot, fail, gens.rbytes(rng, 4).hex()))
            elif c < 0.55 and b"zfill" in p2:
                n = len(p2[b"zfill"]) - (1 if len(p2[b"zfill"]) < 57 else 2)
                lines.append("op insert %s %s %s b:%s" % (slot, fail, hx(b"zfill"), hx(b"w" * max(n, 2))))
            elif c < 0.65:
                lines.append("op remove_insert %s %s %s %s:%s" % (slot, fail, hx(b"udp"), hx(b"udp"), hx(b"\x76\x5f")))
            elif c < 0.72:
                lines.append("op remove_key %s %s %s" % (slot, fail, hx(b"nokey")))
            elif c < 0.8:
                lines.append("op set_seq %s %s %d" % (slot, fail, rng.choice([seq, seq + 1, 127, 128, 255])))
            elif c < 0.86 and b"client" in p2:
                lines.append("op set_client_info %s %s %s %s none" % (slot, fail, hx(b"Besuuu"), hx(b"v2")))
            elif c < 0.93 and getattr(a, "pub_unc", None):
                # the signer's own key in 65-byte uncompressed form: normalised to the compressed form by the update
                lines.append("op insert %s %s %s b:%s" % (slot, fail, hx(a.entry), hx(a.pub_unc)))
            else:
                lines.append("op set_public_key %s %s %s" % (slot, fail, slot))
        cases.append(lines)
    return cases


def cross_scheme_cases(ctx, kt):
    """CombinedKey only: a record signed by an ed25519 key, 250..300 bytes, updated once with a secp256k1 key (the update
    adds a 45-byte secp256k1 entry next to the ed25519 one and re-keys the record), and the other way round"""
    if kt != "comb":
        return []
    rng, o = ctx.rng, ctx.oracle
    ks = gens.secrets(rng, o, kt, 6)
    eds = [k for k in ks if k.scheme == "ed"]
    secps = [k for k in ks if k.scheme == "k"]
    if not eds or not secps:
        return []
    cases = []
    # an ed25519 signer whose public key is the first 32 bytes of a valid 33-byte secp256k1 point, with that point as a
    # stray "secp256k1" entry: through the builder and through every kind of update (the record must never be handed
    # out keyed by the point)
    for sec, pub, extra in gens.ED_PREFIX_OF_SECP:
        point = rlp_str(bytes.fromhex(pub) + bytes([extra]))
        head = ["key a ed:" + sec]
        cases.append(head + ["build a 0 1 raw/%s/%s" % (hx(b"secp256k1"), hx(point)), "rebuild a 0"])
        cases.append(head + ["build a 0 1 udp4/30303", "op insert_raw a 0 %s %s" % (hx(b"secp256k1"), hx(point)), "op set_udp4 a 0 9",
                             "op remove_insert a 0 none %s:%s" % (hx(b"secp256k1"), hx(bytes.fromhex(pub) + bytes([extra]))), "op set_seq a 0 77"])
    targets = [200, 254, 255, 256, 257, 258, 262, 270, 285, 296, 299, 300]
    for (a, cc) in ((eds[0], secps[0]), (secps[0], eds[0])):
        for target in (rng.sample(targets, 5) if ctx.quick else targets):
            seq = rng.choice([5, 127, 255, 300, 65535])
            pairs = {b"id": rlp_str(b"v4"), a.entry: rlp_str(a.pub), b"ip": rlp_str(gens.rbytes(rng, 4)), b"udp": rlp_uint(30303)}
            p2 = gens.pad_to(rng, seq, pairs, target, 64)
            if not p2:
                continue
            b = record_bytes(o, a, seq, sorted(p2.items()))[0]
            head = ["key a " + a.spec, "key c " + cc.spec, "load " + b.hex()]
            ops = ["op set_seq c 0 %d" % rng.choice([seq, max(seq - 1, 0), 1]), "op set_seq c 0 %d" % (seq + 1),
                   "op insert c 0 %s b:%s" % (hx(b"q"), hx(b"w")), "op set_udp4 c 0 30303", "op remove_key c 0 %s" % hx(b"nokey"),
                   "op remove_insert c 0 none %s:%s" % (hx(b"q"), hx(b"w")), "op set_udp_socket c 0 %s 30303" % gens.rbytes(rng, 4).hex(),
                   "op set_public_key c 0 c", "op remove_udp4 c 0"]
            for op in (rng.sample(ops, 4) if ctx.quick else ops):
                tail = rng.choice(["op set_udp4 c 0 80", "op remove_key a 0 %s" % hx(cc.entry), "op remove_insert a 0 %s none" % hx(cc.entry),
                                   "op remove_key c 0 %s" % hx(a.entry), "op remove_insert a 0 %s %s:%s" % (hx(cc.entry), hx(b"q"), hx(b"z"))])
                cases.append(head + [op, tail, "op set_tcp4 a 0 81"])
    return cases


def op_state_matrix(ctx, kt, first_scheme=None, own_rng=None):
    """every mutator x a fixed set of record states x argument classes (the value already stored / another valid value /
    an invalid one) x signer (the record's key, another key of the scheme, a key of the other scheme under CombinedKey),
    each as a two-step case: the call, and the same call again. Systematic where the random histories are not."""
    rng, o = (own_rng or ctx.rng), ctx.oracle
    ks = gens.secrets(rng, o, kt, 6)
    if kt == "comb" and first_scheme is None:
        # once with a secp256k1-keyed record and once with an ed25519-keyed one (the other scheme's key is slot c)
        return op_state_matrix(ctx, kt, "k", own_rng) + op_state_matrix(ctx, kt, "ed", own_rng)
    if first_scheme is not None:
        ks = [k for k in ks if k.scheme == first_scheme][:1] + [k for k in ks if k.scheme != first_scheme][:1] + [k for k in ks if k.scheme == first_scheme][1:]
    a = ks[0]
    same = [k for k in ks[1:] if k.scheme == a.scheme]
    other = [k for k in ks[1:] if k.scheme != a.scheme]
    slots = [("a", a)] + ([("b", same[0])] if same else []) + ([("c", other[0])] if other else [])
    head = ["key %s %s" % (sl, k.spec) for sl, k in slots]
    siglen = 16 if a.scheme == "toy" else 64
    ip4, ip6 = bytes([10, 0, 0, 7]), bytes(range(16))
    typical = {b"id": rlp_str(b"v4"), a.entry: rlp_str(a.pub), b"ip": rlp_str(ip4), b"udp": rlp_uint(30303), b"tcp": rlp_uint(80)}
    full = dict(typical)
    full.update({b"ip6": rlp_str(ip6), b"udp6": rlp_uint(30304), b"tcp6": rlp_uint(81), b"client": rlp_list(rlp_str(b"cl") + rlp_str(b"1.0")), b"foo": rlp_str(b"bar")})
    states = [("min", 1, {b"id": rlp_str(b"v4"), a.entry: rlp_str(a.pub)}), ("typ", 5, typical), ("full", 127, full),
              ("max", 2**64 - 1, typical), ("max-1", 2**64 - 2, typical), ("i63", 2**63 - 1, typical), ("grow", 65535, typical)]
    for target, sq in ((300, 255), (296, 7)):
        p2 = gens.pad_to(rng, sq, dict(typical), target, siglen)
        if p2:
            states.append(("sz%d" % target, sq, p2))
    if other:
        both = dict(typical); both[other[0].entry] = rlp_str(other[0].pub)
        states.append(("both", 9, both))
    def ops_for(pairs, sl):
        d = pairs
        cur_udp = int.from_bytes(d[b"udp"][1:] if d.get(b"udp", b"\x80")[0] >= 0x80 else d[b"udp"], "big") if b"udp" in d else 30303
        out = ["set_seq %s 0 %d" % (sl, 6), "set_seq %s 0 0" % sl, "set_seq %s 0 %d" % (sl, 2**64 - 1),
               "set_udp4 %s 0 %d" % (sl, cur_udp), "set_udp4 %s 0 9" % sl, "set_tcp4 %s 0 80" % sl, "set_udp6 %s 0 30304" % sl, "set_tcp6 %s 0 0" % sl,
               "set_ip %s 0 %s" % (sl, ip4.hex()), "set_ip %s 0 %s" % (sl, ip6.hex()), "set_ip %s 0 %s" % (sl, bytes([1, 2, 3, 4]).hex()),
               "set_udp_socket %s 0 %s %d" % (sl, ip4.hex(), cur_udp), "set_udp_socket %s 0 %s 5" % (sl, ip6.hex()), "set_tcp_socket %s 0 %s 80" % (sl, ip4.hex()),
               "set_tcp_socket %s 0 %s 81" % (sl, ip6.hex()),
               "remove_udp4 %s 0" % sl, "remove_udp6 %s 0" % sl, "remove_tcp %s 0" % sl, "remove_tcp6 %s 0" % sl,
               "remove_udp_socket %s 0" % sl, "remove_udp6_socket %s 0" % sl, "remove_tcp_socket %s 0" % sl, "remove_tcp6_socket %s 0" % sl,
               "remove_key %s 0 %s" % (sl, hx(b"foo")), "remove_key %s 0 %s" % (sl, hx(b"id")), "remove_key %s 0 %s" % (sl, hx(a.entry)), "remove_key %s 0 %s" % (sl, hx(b"nokey")),
               "insert %s 0 %s b:%s" % (sl, hx(b"foo"), hx(b"bar")), "insert %s 0 %s b:%s" % (sl, hx(b"foo"), hx(b"baz")), "insert %s 0 %s u16:%d" % (sl, hx(b"udp"), cur_udp),
               "insert %s 0 %s s:%s" % (sl, hx(b"id"), hx(b"v4")), "insert %s 0 %s s:%s" % (sl, hx(b"id"), hx(b"v5")), "insert %s 0 %s b:%s" % (sl, hx(b"ip"), hx(b"abcde")),
               "insert_raw %s 0 %s %s" % (sl, hx(b"foo"), hx(rlp_str(b"bar"))), "insert_raw %s 0 %s %s" % (sl, hx(b"udp"), hx(rlp_uint(cur_udp))), "insert_raw %s 0 %s c0" % (sl, hx(b"x")),
               "insert_raw %s 0 %s 8100" % (sl, hx(b"x")),
               "set_client_info %s 0 %s %s none" % (sl, hx(b"cl"), hx(b"1.0")), "set_client_info %s 0 %s %s %s" % (sl, hx(b"cl"), hx(b"1.1"), hx(b"b")),
               "remove_insert %s 0 %s %s:%s" % (sl, hx(b"tcp"), hx(b"udp"), hx(be(cur_udp))), "remove_insert %s 0 none none" % sl,
               "remove_insert %s 0 %s,%s %s:%s" % (sl, hx(b"udp"), hx(b"id"), hx(b"id"), hx(b"v4"))]
        for s2, k2 in slots:
            out.append("set_public_key %s 0 %s" % (sl, s2))
            out.append("insert %s 0 %s b:%s" % (sl, hx(k2.entry), hx(k2.pub)))
        # an insert list that alone exceeds the limit (every cause that can hold together with it)
        out.append("remove_insert %s 0 none %s:%s,%s:%s" % (sl, hx(b"big1"), hx(b"x" * 150), hx(b"big2"), hx(b"y" * 150)))
        out.append("remove_insert %s 0 %s %s:%s" % (sl, hx(b"id"), hx(b"big1"), hx(b"x" * 290)))
        out.append("insert %s 0 %s b:%s" % (sl, hx(b"big"), hx(b"z" * 290)))
        return out
    def must_ops(name, sl):
        # combinations the sampling of the quick tier must not skip: removals on large records by every signer
        if name.startswith("sz") or name == "both":
            return ["remove_udp4 %s 0" % sl, "remove_tcp %s 0" % sl, "remove_key %s 0 %s" % (sl, hx(b"nokey")), "remove_udp_socket %s 0" % sl,
                    "remove_insert %s 0 %s none" % (sl, hx(b"udp"))]
        own = ["remove_key %s %s %s" % (sl, fm, hx(a.entry)) for fm in ("0", "1", "3")] + ["remove_insert %s 0 %s none" % (sl, hx(a.entry)), "remove_insert %s 1 %s none" % (sl, hx(a.entry))]
        if name == "typ":
            # the record's own public-key entry removed by a call that then fails (signing fault) or succeeds
            return own
        if name in ("max", "max-1"):
            return own[:1] + own[3:4] + ["remove_insert %s 0 none %s:%s,%s:%s" % (sl, hx(b"big1"), hx(b"x" * 150), hx(b"big2"), hx(b"y" * 150)),
                    "remove_insert %s 0 %s none" % (sl, hx(b"id")), "insert %s 0 %s b:%s" % (sl, hx(b"big"), hx(b"z" * 290))]
        return []
    cases = []
    for name, sq, pairs in states:
        b = record_bytes(o, a, sq, sorted(pairs.items()))[0]
        for sl, k in slots:
            ops = ops_for(pairs, sl)
            if ctx.quick:
                ops = rng.sample(ops, 14 if sl == "a" else 8) + must_ops(name, sl)
            for op in ops:
                cases.append(head + ["load " + b.hex(), "op " + op, "op " + op])
    # entry names that are a reserved name plus / minus one character: ordinary keys, any single item is a legal value
    affix = []
    for rn in gens.RESERVED + [b"toy"]:
        for ch in b"46_-0sx":
            affix += [rn + bytes([ch]), bytes([ch]) + rn]
        affix += [rn[:-1], rn[1:], rn + rn, rn.upper()]
    affix = [k for k in dict.fromkeys(affix) if k not in gens.RESERVED and k != a.entry and k not in (b"toy",)]
    b = record_bytes(o, a, 5, sorted(typical.items()))[0]
    vals = ["b:%s" % hx(b"v5"), "u64:70000", "l:%s" % hx(b"x")] if False else ["b:%s" % hx(b"v5"), "u64:70000"]
    for k in (affix if not ctx.quick else rng.sample(affix, min(len(affix), 60)) + [x for x in (b"id6", b"secp256k16", b"ed255196", b"ip66", b"tcp66") if x in affix]):
        cases.append(head + ["load " + b.hex(), "op insert a 0 %s %s" % (hx(k), rng.choice(vals)), "op insert_raw a 0 %s %s" % (hx(k), hx(rlp_list(rlp_str(b"q")))),
                             "build a 0 1 val/%s/b:%s" % (hx(k), hx(b"\x01\x02\x03"))])
    return cases


def _late_rng(ctx, kt, salt):
    import random as _random
    return _random.Random(ctx.seed * 15485863 + salt * 7 + sum(kt.encode()))


def nested_value(depth):
    v = b"\xc0"
    for _ in range(depth - 1):
        v = rlp_list(v)
    return v


def late_history_cases(ctx, kt):
    """later additions to the history checks; their own generator, appended after everything else so that the earlier cases
    stay what they were: deeply nested list values; a record inserted as a value; records whose own key entry is stored
    uncompressed; an ed25519-keyed record carrying a 65-byte `secp256k1` content entry; both schemes' valid entries"""
    rng, o = _late_rng(ctx, kt, 1), ctx.oracle
    ks = gens.secrets(rng, o, kt, 6)
    a = ks[0]
    head = ["key a " + a.spec]
    cases = []
    for d in (2, 15, 16, 17, 18, 19, 24, 60, 120):
        v = nested_value(d)
        cases.append(head + ["build a 0 1 raw/%s/%s" % (hx(b"deep"), hx(v)), "op set_udp4 a 0 9"])
        cases.append(head + ["build a 0 1", "op insert_raw a 0 %s %s" % (hx(b"deep"), hx(v)), "op remove_insert a 0 none %s:%s" % (hx(b"x"), hx(b"y"))])
        pl = sorted({b"id": rlp_str(b"v4"), a.entry: rlp_str(a.pub), b"deep": v}.items())
        cases.append(["decode " + hx(record_bytes(o, a, 3, pl)[0])])
    cases.append(head + ["build a 0 1 udp4/30303", "save 0", "op insert_enr a 0 %s 0" % hx(b"rec"), "op insert_enr a 0 %s 77" % hx(b"recs"), "op set_tcp4 a 0 1"])
    secp = [k for k in ks if getattr(k, "pub_unc", None)]
    eds = [k for k in ks if k.scheme == "ed"]
    typical = lambda k, entry_val: {b"id": rlp_str(b"v4"), k.entry: entry_val, b"udp": rlp_uint(30303), b"tcp": rlp_uint(80)}
    for k in secp[:1]:
        hd = ["key a " + k.spec] + (["key b " + secp[1].spec] if len(secp) > 1 else [])
        for sq, extra in ((5, {}), (2**64 - 1, {}), (7, "pad")):
            pairs = typical(k, rlp_str(k.pub_unc))
            if extra == "pad":
                pairs = gens.pad_to(rng, sq, pairs, 298, 64) or pairs
            b = record_bytes(o, k, sq, sorted(pairs.items()))[0]
            for op in ("remove_key a 0 %s" % hx(b"id"), "insert a 0 %s b:%s" % (hx(b"big"), hx(b"z" * 290)), "set_udp4 a 1 9", "set_udp4 a 3 9", "set_udp4 a 0 9",
                       "remove_insert a 0 none %s:%s" % (hx(b"ip"), hx(b"abcde")), "set_seq a 0 9", "remove_udp4 a 0"):
                cases.append(hd + ["load " + b.hex(), "op " + op, "op set_tcp4 a 0 81"])
    if eds and kt in ("ed", "comb"):
        e0 = eds[0]
        other = [bytes.fromhex("04" + "79be667ef9dcbbac55a06295ce870b07029bfcdb2dce28d959f2815b16f81798" + "483ada7726a3c4655da4fbfc0e1108a8fd17b448a68554199c47d08ffb10d4b8"),
                 bytes.fromhex("06" + "79be667ef9dcbbac55a06295ce870b07029bfcdb2dce28d959f2815b16f81798" + "483ada7726a3c4655da4fbfc0e1108a8fd17b448a68554199c47d08ffb10d4b8"),
                 b"\x04" + b"\x01" * 64]
        for ov in other:
            pairs = {b"id": rlp_str(b"v4"), e0.entry: rlp_str(e0.pub), b"secp256k1": rlp_str(ov)}
            b = record_bytes(o, e0, 4, sorted(pairs.items()))[0]
            cases.append(["key a " + e0.spec, "decode " + b.hex(), "load " + b.hex(), "op set_udp4 a 0 9", "recode 1"])
    # long keys that are not UTF-8 (or whose multi-byte characters sit on every small offset): the formatters render keys lossily
    for lk in (b"\xff" * 20, b"application-key" + b"\x80" * 12, "\u00e9".encode() * 15, b"k" * 15 + "\u20ac".encode() * 4, b"\xc3" * 25, b"a" * 23 + b"\xe2\x82"):
        cases.append(head + ["build a 0 1 val/%s/b:%s" % (hx(lk), hx(b"v")), "op insert a 0 %s b:%s" % (hx(lk[:-1] + b"z"), hx(b"\x00" * 40))])
        pl = sorted({b"id": rlp_str(b"v4"), a.entry: rlp_str(a.pub), lk: rlp_str(b"\xde\xad" * 20)}.items())
        cases.append(["decode " + hx(record_bytes(o, a, 3, pl)[0])])
    if kt == "comb" and eds and secp:
        for signer in (secp[0], eds[0]):
            pairs = {b"id": rlp_str(b"v4"), eds[0].entry: rlp_str(eds[0].pub), secp[0].entry: rlp_str(secp[0].pub), b"udp": rlp_uint(1)}
            b = record_bytes(o, signer, 6, sorted(pairs.items()))[0]
            cases.append(["key a " + signer.spec, "decode " + b.hex(), "load " + b.hex(), "op set_tcp4 a 0 9", "recode 1", "decode " + b.hex()])
    return cases


def port_cases(ctx, kt, ports):
    """C14: every given port on all four port keys through builder, setter, socket setter and decode"""
    rng, o = ctx.rng, ctx.oracle
    a = gens.secrets(rng, o, kt, 1)[0]
    cases = []
    chunk = 64
    for i in range(0, len(ports), chunk):
        ps = ports[i:i + chunk]
        lines = ["key a " + a.spec, "build a 0 1"]
        for p in ps:
            which = rng.randrange(4)
            name = ["udp4", "udp6", "tcp4", "tcp6"][which]
            lines.append("op set_%s a 0 %d" % (name, p))
            lines.append("op %s a 0 %s %d" % (rng.choice(["set_udp_socket", "set_tcp_socket"]), gens.rbytes(rng, rng.choice([4, 16])).hex(), p))
        cases.append(lines)
        for p in ps[:: max(1, len(ps) // 8)]:
            cases.append(["key a " + a.spec, "build a 0 1 tcp4/%d udp6/%d tcp6/%d udp4/%d" % (p, (p * 7) % 65536, 65535 - p, p ^ 1)])
            pairs = {b"id": rlp_str(b"v4"), a.entry: rlp_str(a.pub), rng.choice([b"tcp", b"udp", b"tcp6", b"udp6"]): rlp_uint(p)}
            cases.append(["decode " + record_bytes(o, a, 1, sorted(pairs.items()))[0].hex()])
    # client entries whose items are not all valid UTF-8 (the accessor converts lossily, item by item): 2 and 3 items,
    # the bad item at every position; also 1, 4 and 5 items, and a nested list
    bad = b"\xde\xad\xbe\xef"
    for items in ([bad, b"v"], [b"n", bad], [bad, b"v", b"b"], [b"n", bad, b"b"], [b"n", b"v", bad], [b"n", b"v", b"\xff"], [bad, bad, bad],
                  [b"n"], [b"n", b"v", b"b", b"x"], [b"n", b"v", b"b", b"x", bad], []):
        raw = rlp_list(b"".join(rlp_str(x) for x in items))
        cases.append(["key a " + a.spec, "build a 0 1", "op insert_raw a 0 %s %s" % (hx(b"client"), hx(raw)), "build a 0 1 raw/%s/%s" % (hx(b"client"), hx(raw))])
    cases.append(["key a " + a.spec, "build a 0 1", "op insert_raw a 0 %s %s" % (hx(b"client"), hx(rlp_list(rlp_list(rlp_str(b"n")) + rlp_str(b"v"))))])
    # IPv6 socket addresses with a scope id / flow info (not stored in a record): stored and read back like plain ones
    for ext in ("%3", "%0^7", "%4294967295", "%1^1048575", ""):
        a6 = gens.raddr(rng, 16).hex()
        cases.append(["key a " + a.spec, "build a 0 1", "op set_udp_socket a 0 %s%s 30303" % (a6, ext), "op set_tcp_socket a 0 %s%s 30304" % (a6, ext)])
    # presence combinations of the six address/port keys
    for mask in range(64):
        bc = []
        if mask & 1: bc.append("ip4/" + gens.rbytes(rng, 4).hex())
        if mask & 2: bc.append("ip6/" + gens.rbytes(rng, 16).hex())
        if mask & 4: bc.append("udp4/%d" % rng.choice(gens.PORT_POOL))
        if mask & 8: bc.append("udp6/%d" % rng.choice(gens.PORT_POOL))
        if mask & 16: bc.append("tcp4/%d" % rng.choice(gens.PORT_POOL))
        if mask & 32: bc.append("tcp6/%d" % rng.choice(gens.PORT_POOL))
        cases.append(["key a " + a.spec, "build a 0 1 " + " ".join(bc)])
    return cases


def check_history_property(ctx):
    pid = ctx.pid
    proj = HIST_PROJ[pid]
    mon = HIST_MON.get(pid, lambda c: None)(ctx) if pid in HIST_MON else None

    def fields_for(cmd, head):
        t = cmd.split()
        if t and t[0] == "key":
            return ["pk", "pku", "nid", "ek"]
        return proj

    kts = ["k256", "libsecp", "ed", "comb", "toy", "k256_default"]
    for kt in kts:
        gk = base_kt(kt)   # what the generators are told; kt selects the build of the harness and the model instance
        cases = hist_cases(ctx, gk, ctx.scale(24, 400), (4, 25))
        if pid in ("C07",):
            cases += hist_cases(ctx, gk, ctx.scale(12, 200), 6, start_fn=lambda rng: "build a 0 %d" % rng.choice(gens.SEQ_POOL))
        if pid in ("C09", "C05", "C06", "C10"):
            cases += size_sweep_cases(ctx, gk)
            cases += size_neutral_cases(ctx, gk)
            cases += cross_scheme_cases(ctx, gk)
        if pid in ("C05", "C08", "C14", "C09"):
            cases += builder_reuse_cases(ctx, gk)
        if pid in ("C05", "C06", "C07", "C08", "C09", "C10"):
            cases += op_state_matrix(ctx, gk)
        if pid == "C08":
            # error kinds at the size limit: ExceedsMaxSize exactly when the result would not fit
            cases += size_neutral_cases(ctx, gk)[:ctx.scale(30, 300)]
            # the builder given an entry under the signer's own key name: the own key in every encoding (compressed,
            # uncompressed, hybrid), another valid key, junk — what is built carries the signer's key in the canonical form
            bk = gens.secrets(ctx.rng, ctx.oracle, gk, 3)
            forms = [bk[0].pub, bk[1].pub, b"junk", b""]
            if getattr(bk[0], "pub_unc", None):
                forms += [bk[0].pub_unc, bytes([6 + (bk[0].pub_unc[-1] & 1)]) + bk[0].pub_unc[1:], bk[0].pub_unc[1:]]
                if getattr(bk[1], "pub_unc", None):
                    forms.append(bk[1].pub_unc)
            for fm in forms:
                for how in ("raw/%s/%s" % (hx(bk[0].entry), hx(rlp_str(fm))), "val/%s/b:%s" % (hx(bk[0].entry), hx(fm))):
                    cases.append(["key a " + bk[0].spec, "build a 0 1 udp4/30303 " + how, "rebuild a 0", "op set_tcp4 a 0 80"])
            # remove_insert with repeated keys: the same key twice among the inserts (absent / present before), a key both
            # removed and inserted, a key removed twice — the returned previous values are those of a sequential map
            a8 = gens.secrets(ctx.rng, ctx.oracle, gk, 1)[0]
            kx, ky = hx(b"x"), hx(b"tcp")
            for start in ("build a 0 1", "build a 0 1 val/%s/b:%s tcp4/80" % (kx, hx(b"old"))):
                cases.append(["key a " + a8.spec, start,
                              "op remove_insert a 0 none %s:%s,%s:%s" % (kx, hx(b"v1"), kx, hx(b"v2")),
                              "op remove_insert a 0 %s %s:%s" % (kx, kx, hx(b"v3")),
                              "op remove_insert a 0 %s,%s none" % (kx, kx),
                              "op remove_insert a 0 none %s:%s,%s:%s,%s:%s" % (kx, hx(b"p"), ky, hx(b"\x50"), kx, hx(b"q")),
                              "op remove_insert a 0 %s,%s %s:%s,%s:%s" % (ky, kx, ky, hx(b"\x51"), ky, hx(b"\x52"))])
        if pid in ("C05", "C09"):
            recs_d, inputs_d, labels_d = decode_inputs(ctx, gk, ctx.scale(4, 40), ctx.scale(1, 4), ctx.scale(3, 30), ctx.scale(5, 100), ctx.scale(40, 300))
            cases += [["decode " + hx(b)] for b in inputs_d]
        if pid == "C10":
            # keys whose (uncompressed) public key begins with a SEC1 tag byte or another special byte
            sk = gens.special_first_byte_keys(ctx.oracle, gk)
            for k in (sk if not ctx.quick else ctx.rng.sample(sk, min(len(sk), 6)) + [x for x in sk if x.secret in ((45).to_bytes(32, "big"), (242).to_bytes(32, "big"))]):
                pl = sorted({b"id": rlp_str(b"v4"), k.entry: rlp_str(k.pub), b"udp": rlp_uint(30303)}.items())
                cases.append(["key a " + k.spec, "build a 0 1 udp4/30303", "op set_tcp4 a 0 80", "decode " + hx(record_bytes(ctx.oracle, k, 9, pl)[0])])
            vr = gens.valid_records(ctx.rng, ctx.oracle, gk, ctx.scale(6, 60))
            for r in vr:
                cases.append(["decode " + hx(r["bytes"])])
            # every other encoding of the public key (uncompressed, hybrid, raw x||y, off-curve with the right parity, ...),
            # signed over exactly that content: if accepted, the node id must be the hash of the key the record stores
            for r in vr[:ctx.scale(3, 30)]:
                for lab, b in gens.structural_mutants(ctx.rng, ctx.oracle, r):
                    if "pubkey" in lab:
                        cases.append(["decode " + hx(b)])
            if gk in ("ed", "comb"):
                for b in gens.weak_ed_records(ctx.rng):
                    cases.append(["decode " + hx(b)])
        if pid == "C14":
            ports = sorted(set(gens.PORT_POOL + [ctx.rng.randrange(65536) for _ in range(ctx.scale(120, 0))])) if ctx.quick else list(range(65536))
            if gk in ("k256", "ed") or ctx.quick:
                cases += port_cases(ctx, gk, ports)
            else:
                cases += port_cases(ctx, gk, ports[::16])
        if pid == "C06":
            # a signing fault injected at every signing call of sampled histories
            extra = []
            for case in cases[: ctx.scale(8, 100)]:
                ops = [i for i, c in enumerate(case) if c.startswith("op ")]
                for i in ops[:ctx.scale(6, 30)]:
                    t = case[i].split()
                    t[3] = "1"
                    extra.append(case[:i] + [" ".join(t)] + case[i + 1:])
                    if ctx.rng.random() < 0.5:
                        # a signer that fails silently: Ok with a signature that does not verify
                        t[3] = "2"
                        extra.append(case[:i] + [" ".join(t)] + case[i + 1:])
                    if ctx.rng.random() < 0.5:
                        # a signer that panics (the caller catches the unwind): the following calls must be unaffected
                        t[3] = "3"
                        extra.append(case[:i] + [" ".join(t)] + case[i + 1:])
            cases += extra
        if pid in ("C05", "C06", "C08", "C09", "C10", "C14"):
            cases += late_history_cases(ctx, gk)
        if pid == "C14":
            # the matrix also under the accessor projection (own generator: the cases above stay as they were)
            import random as _random
            cases += op_state_matrix(ctx, gk, None, _random.Random(ctx.seed * 104729 + sum(kt.encode())))
        hres = compare_cases(ctx, kt, cases, None, fields_for, pid.lower(), mon)
        cross_hist(ctx, kt, cases, hres)
        for c in cases:
            for l in c:
                if l.startswith("op "):
                    ctx.dist["op:" + l.split()[1]] += 1
                elif l.startswith(("build", "load")):
                    ctx.dist["start:" + l.split()[0]] += 1


def check_C08(ctx):
    check_history_property(ctx)


def check_C04(ctx):
    """(a) accepted inputs re-encode to the consumed bytes; fields match the model's parse.
       (b) every record produced by builder/updates/decoder re-decodes from bytes, text and JSON to an equal record."""
    fields = ["rest", "seq", "pairs", "sig", "pk", "nid", "enc", "text", "json"]

    def mon_a(kt, case, il):
        out = []
        for i, (cmd, l) in enumerate(zip(case, il)):
            h, f = parse_line(l)
            if first(h) == "ok" and cmd.startswith("decode"):
                inp = unhx(cmd.split()[1])
                consumed = inp[:len(inp) - int(f["rest"])]
                if unhx(f["enc"]) != consumed:
                    out.append((i, "re-encoding differs from the consumed input bytes"))
        return out

    for kt in ["k256", "libsecp", "ed", "comb", "toy"]:
        recs, inputs, labels = decode_inputs(ctx, kt, ctx.scale(10, 100), 0, ctx.scale(4, 40), ctx.scale(10, 200), 0)
        cases = [["decode " + hx(b)] for b in inputs]
        compare_cases(ctx, kt, cases, labels, lambda c, h: fields, "c04a", mon_a)
        cross_decode(ctx, kt, inputs, [b"enr:" + gens.b64(b) for b in inputs[:12]] + [gens.b64(b) for b in inputs[:6]])
        # (b) histories, then round trips of every distinct record observed
        hcases = hist_cases(ctx, kt, ctx.scale(16, 300), (3, 15))
        hcases += [c for c in size_sweep_cases(ctx, kt) if any(l.startswith("build") for l in c)]
        hcases += size_neutral_cases(ctx, kt)[:ctx.scale(16, 200)] + builder_reuse_cases(ctx, kt)[:ctx.scale(6, 60)]
        hcases += late_history_cases(ctx, kt)
        res = compare_cases(ctx, kt, hcases, None, lambda c, h: ["enc", "text", "json", "pairs", "seq", "sig"], "c04b")
        seen = {}
        for case, (il, ml) in zip(hcases, res):
            for i, cmd, h, f, prev in walk_history(case, il):
                if "enc" in f and first(h) in ("ok", "err") and f["enc"] not in seen:
                    seen[f["enc"]] = (f, case[:i + 1])
        rcases, origs = [], []
        for enc, (f, origin) in seen.items():
            esc = b'"\\u0065' + f["text"].encode()[1:] + b'"'
            rcases.append(["decode " + enc, "parse " + hx(f["text"].encode()), "parse " + hx(f["text"].encode()[4:]), "json " + f["json"], "json " + hx(esc)])
            origs.append((f, origin))
        rres = compare_cases(ctx, kt, rcases, ["roundtrip"] * len(rcases), lambda c, h: [k for k in REC_FIELDS], "c04r")
        for (f0, origin), rc, (il, ml) in zip(origs, rcases, rres):
            for i, l in enumerate(il):
                h, f = parse_line(l)
                if first(h) == "ok" and f.get("alt", "1") != "1":
                    ctx.finding("monitor", kt, origin + [rc[i]], len(origin), "JSON of a record handed out deserialises differently through from_str / from_slice / from_reader / from_value", l, None)
                if first(h) != "ok":
                    ctx.finding("monitor", kt, origin + [rc[i]], len(origin), "record handed out by the library is not accepted back (%s)" % rc[i].split()[0], l, None)
                    continue
                for k in REC_CMP:
                    if f.get(k) != f0.get(k):
                        ctx.finding("monitor", kt, origin + [rc[i]], len(origin), "field %s differs after a round trip through %s" % (k, rc[i].split()[0]), l, None)
                        break


def check_C12(ctx):
    def mon(kt, case, il):
        out = []
        # case[0] is the canonical parse, giving the record's own text
        h0, f0 = parse_line(il[0])
        if first(h0) != "ok":
            return [(0, "canonical text of a valid record does not parse")]
        text = f0["text"].encode()
        if f0.get("disp") != "1":
            out.append((0, "Display differs from to_base64"))
        if unhx(f0["json"]) != b'"' + text + b'"':
            out.append((0, "JSON form is not the quoted text form"))
        if text != b"enr:" + gens.b64(unhx(f0["enc"])):
            out.append((0, "text is not enr: + unpadded URL-safe base64 of the encoding"))
        for i, (cmd, l) in enumerate(zip(case, il)):
            h, f = parse_line(l)
            t = cmd.split()
            s = unhx(t[1])
            if t[0] == "json":
                if s[:1] != b'"' and first(h) == "ok":
                    out.append((i, "a JSON value that is not a string was accepted as a record: %r" % s[:60]))
                if not (s[:1] == b'"' and s[-1:] == b'"' and b"\\" not in s):
                    continue
                s = s[1:-1]
            if first(h) == "ok":
                if f.get("enc") == f0["enc"] and s not in (text, text[4:]):
                    out.append((i, "a string other than the canonical text (with or without prefix) parses to the record: %r" % s[:80]))
                if s in (text, text[4:]) and any(f.get(k) != f0.get(k) for k in REC_CMP):
                    out.append((i, "parsing the canonical text gives a different record"))
            elif s in (text, text[4:]):
                out.append((i, "canonical string rejected"))
        return out

    for kt in ["k256", "libsecp", "ed", "comb", "toy"]:
        recs = gens.valid_records(ctx.rng, ctx.oracle, kt, ctx.scale(8, 150))
        br = gens.boundary_records(ctx.rng, ctx.oracle, kt)
        recs += br if not ctx.quick else ctx.rng.sample(br, 6) + br[-1:]
        # records whose encoding ends in a zero byte (a decoder that pads with zeros would complete a truncated text)
        for r in list(recs[:ctx.scale(3, 30)]):
            pl = [kv for kv in r["pairs"] if kv[0] < b"zzz"] + [(b"zzz", rlp_str(gens.rbytes(ctx.rng, ctx.rng.randrange(1, 4)) + b"\x00" * ctx.rng.choice([1, 2])))]
            if gens.enc_len(r["seq"], dict(pl), 16 if r["key"].scheme == "toy" else 64) <= 300:
                b2 = record_bytes(ctx.oracle, r["key"], r["seq"], pl)[0]
                recs.append({"bytes": b2, "key": r["key"], "seq": r["seq"], "pairs": pl})
        cases, labs = [], []
        for r in recs:
            eds = gens.text_edits(ctx.rng, r["bytes"])
            case = ["parse " + hx(eds[0][1])]
            for u in ctx.rng.sample(gens.utf8_strings(ctx.rng, r["bytes"]), 12):
                eds.append(("utf8_multibyte", u))
            case.append("json " + hx(b'"\\u0065' + eds[0][1][1:] + b'"'))
            case.append("json " + hx(b'"' + eds[0][1] + b'"'))
            for lab, s in eds[1:]:
                case.append("parse " + hx(s))
                if ctx.rng.random() < 0.4:
                    case.append("json " + hx(b'"' + s + b'"'))
                ctx.dist[lab] += 1
            # other WIRE forms of the same record under its own signature (unsorted, duplicated, non-canonical integers
            # or lengths), as text: none of them is "the" text of the record
            if "sig" in r and (r in br or ctx.rng.random() < 0.3):
                for lab, wb in gens.wire_malformed_signed_canonical(ctx.rng, ctx.oracle, r):
                    case.append("parse " + hx(b"enr:" + gens.b64(wb)))
                    ctx.dist[lab] += 1
            # other renderings of the same bytes, and JSON values that are not strings (deterministic, no generator state)
            hexl = r["bytes"].hex().encode()
            for t_alt in (hexl, hexl.upper(), b"enr:" + hexl, b"0x" + hexl):
                case.append("parse " + hx(t_alt))
                case.append("json " + hx(b'"' + t_alt + b'"'))
            case.append("json " + hx(("[" + ",".join(str(x) for x in r["bytes"]) + "]").encode()))
            case.append("json " + hx(b'["' + eds[0][1] + b'"]'))
            case.append("json " + hx(b'{"enr":"' + eds[0][1] + b'"}'))
            case.append("json " + hx(b"12345"))
            # line terminators and other white space after / before the text, as text and as an escaped JSON string
            for ws, esc in ((b"\n", b"\\n"), (b"\r\n", b"\\r\\n"), (b"\r", b"\\r"), (b"\n\n", b"\\n\\n"), (b"\t", b"\\t"), (b"\x0c", b"\\f"), (b"\x00", b"\\u0000")):
                case.append("parse " + hx(eds[0][1] + ws))
                case.append("parse " + hx(ws + eds[0][1]))
                case.append("parse " + hx(eds[0][1][4:] + ws))
                case.append("json " + hx(b'"' + eds[0][1] + esc + b'"'))
            cases.append(case); labs.append("text_edits")
        compare_cases(ctx, kt, cases, labs, lambda c, h: ["enc", "text", "json", "disp", "seq", "pairs", "sig"], "c12", mon)
        cross_decode(ctx, kt, [], [unhx(l.split()[1]) for c in cases for l in c if l.startswith("parse ")])


def check_C15(ctx):
    def mon(kt, case, il):
        out = []
        shows = {}
        pairs = {}
        recoded = set()
        cur = None
        for i, (cmd, l) in enumerate(zip(case, il)):
            t = cmd.split()
            h, f = parse_line(l)
            if "seq" in f:
                cur = f
            if t[0] == "save" and cur is not None:
                shows[int(t[1])] = cur
            if t[0] == "recode" and first(h) == "recoded" and cur is not None:
                shows[int(t[1])] = cur
                recoded.add(int(t[1]))
            if t[0] == "pair" and first(h) == "pair":
                a, b = int(t[1]), int(t[2])
                pairs[(a, b)] = (i, f)
                fa, fb = shows.get(a), shows.get(b)
                if fa is None or fb is None:
                    continue
                if f["eqc"] != "1":
                    out.append((i, "a record differs from its clone"))
                if ({a, b} == {6, 7} or {a, b} == {9, 10} or ((a in recoded) != (b in recoded) and fa["enc"] == fb["enc"])) and f["eq"] != "1":
                    out.append((i, "a record differs from its decode-after-encode image"))
                if a == b and f["eq"] != "1":
                    out.append((i, "equality is not reflexive"))
                if f["eq"] == "1":
                    if f["heq"] != "1":
                        out.append((i, "equal records hash differently"))
                    if fa["pairs"] != fb["pairs"]:
                        out.append((i, "equal records carry different pairs"))
                    if fa["enc"] != fb["enc"]:
                        out.append((i, "equal records encode differently"))
                else:
                    if fa["seq"] == fb["seq"] and fa["nid"] == fb["nid"] and fa["sig"] == fb["sig"]:
                        out.append((i, "records with the same seq, key and signature are unequal"))
                if (fa["seq"] != fb["seq"] or fa["pk"] != fb["pk"] or fa["sig"] != fb["sig"]) and f["eq"] == "1":
                    out.append((i, "records with different seq/key/signature compare equal"))
                want_cc = "1" if fa["seq"] == fb["seq"] and fa["pairs"] == fb["pairs"] else "0"
                if f["cc"] != want_cc:
                    out.append((i, "compare_content=%s but seq/pairs equality is %s" % (f["cc"], want_cc)))
        for (a, b), (i, f) in pairs.items():
            if (b, a) in pairs and pairs[(b, a)][1]["eq"] != f["eq"]:
                out.append((i, "equality is not symmetric"))
        return out

    for kt in ["k256", "libsecp", "ed", "comb", "toy"]:
        cases = []
        for _ in range(ctx.scale(16, 300)):
            base = gens.history(ctx.rng, ctx.oracle, kt, ctx.rng.randrange(1, 6))
            lines = list(base) + ["save 0"]
            # clone / re-decode / re-sign same content / one-field edit / re-key
            lines += ["show", "save 1"]
            lines += ["op set_seq a 0 %d" % ctx.rng.choice([5, 5, 6]), "save 2", "op set_seq a 0 5", "save 3"]
            lines += ["op insert a 0 %s b:%s" % (hx(b"foo"), hx(gens.rbytes(ctx.rng, 3))), "save 4"]
            if any(l.startswith("key b") for l in base):
                lines += ["op set_seq b 0 5", "save 5"]
            else:
                lines += ["op set_seq a 0 5", "save 5"]
            lines += ["use 2", "op set_seq a 0 5", "save 6"]
            # the decode-after-encode image of the current record
            lines += ["recode 7"]
            tail = []
            kx = hx(ctx.rng.choice([b"x", b"udp4-name", b"tcp-alt", b"zz"]))
            tail += ["op insert_raw a 0 %s 826162" % kx, "op set_seq a 0 9", "save 8", "op insert_raw a 0 %s c26162" % kx, "op set_seq a 0 9", "save 9",
                     "pair 8 9", "pair 9 8", "recode 10", "pair 9 10", "pair 10 9"]
            # a slot holding an older record (with an entry the newer one lacks) refreshed from the newer one
            ky = hx(ctx.rng.choice([b"y", b"tcp", b"zzz"]))
            vy = "82 01 bb".replace(" ", "") if ky != hx(b"tcp") else "8201bb"
            tail += ["op insert_raw a 0 %s %s" % (ky, vy), "save 11", "save 12", "op remove_key a 0 %s" % ky, "op set_udp4 a 0 4444", "save 12", "save 13",
                     "pair 12 13", "pair 13 12", "pair 11 12", "use 12", "show"]
            n = 8
            for i in range(n):
                for j in range(n):
                    if i == j or (i, j) == (6, 7) or ctx.rng.random() < 0.5:
                        lines.append("pair %d %d" % (i, j))
                        if ctx.rng.random() < 0.3:
                            lines.append("pair %d %d" % (j, i))
            cases.append(lines + tail)
        # records whose pairs are a leading run of another record's pairs (same seq, same key): content differs
        a2 = gens.secrets(ctx.rng, ctx.oracle, kt, 1)[0]
        ip = gens.rbytes(ctx.rng, 4).hex()
        cases.append(["key a " + a2.spec, "build a 0 5 ip4/" + ip, "save 0", "build a 0 5 ip4/%s udp4/30303" % ip, "save 1",
                      "build a 0 5 ip4/%s udp4/30303 val/%s/b:%s" % (ip, hx(b"zzz"), hx(b"q")), "save 2", "build a 0 5 ip4/%s tcp4/80 udp4/30303" % ip, "save 3",
                      "pair 0 1", "pair 1 0", "pair 1 2", "pair 2 1", "pair 0 2", "pair 1 3", "pair 3 1", "pair 0 3", "pair 2 2"])
        # re-keying through every path that writes the new key's entry itself, then the decode-after-encode image
        ks = [k for k in gens.secrets(ctx.rng, ctx.oracle, kt, 6)]
        same = [k for k in ks[1:] if k.scheme == ks[0].scheme]
        if same:
            ka, kb = ks[0], same[0]
            for op in ("op set_public_key b 0 b", "op insert b 0 %s b:%s" % (hx(kb.entry), hx(kb.pub)), "op remove_insert b 0 none %s:%s" % (hx(kb.entry), hx(kb.pub)),
                       "op insert_raw b 0 %s %s" % (hx(kb.entry), hx(rlp_str(kb.pub))), "op set_udp4 b 0 7"):
                cases.append(["key a " + ka.spec, "key b " + kb.spec, "build a 0 1 udp4/30303", op, "save 0", "recode 1", "pair 0 1", "pair 1 0",
                              "op set_tcp4 b 0 9", "save 2", "recode 3", "pair 2 3", "pair 3 2"])
        # same seq, same NUMBER of pairs, key sets differ in one name (udp / tcp; ip / ip6-less custom)
        cases.append(["key a " + a2.spec, "build a 0 5 ip4/%s udp4/30303" % ip, "save 0", "build a 0 5 ip4/%s tcp4/30303" % ip, "save 1",
                      "build a 0 5 ip4/%s val/%s/u16:30303" % (ip, hx(b"udq")), "save 2", "pair 0 1", "pair 1 0", "pair 0 2", "pair 2 1", "pair 1 1"])
        # the same node, seq and other pairs, the own key entry once compressed and once uncompressed (hand-signed, loaded)
        ku = [k for k in gens.secrets(_late_rng(ctx, kt, 5), ctx.oracle, kt, 4) if getattr(k, "pub_unc", None)]
        if ku:
            k0 = ku[0]
            recs2 = [record_bytes(ctx.oracle, k0, 5, sorted({b"id": rlp_str(b"v4"), k0.entry: rlp_str(pkv), b"udp": rlp_uint(7)}.items()))[0] for pkv in (k0.pub, k0.pub_unc)]
            cases.append(["key a " + k0.spec, "load " + recs2[0].hex(), "save 0", "load " + recs2[1].hex(), "save 1", "pair 0 1", "pair 1 0", "pair 0 0", "pair 1 1"])
        # a record and the clone taken before a FAILING call (a re-keying set_seq / insert that does not fit; a signing fault):
        # equal records must carry identical pairs
        r15 = _late_rng(ctx, kt, 15)
        k15 = gens.secrets(r15, ctx.oracle, kt, 6)
        oth = [k for k in k15[1:] if k.scheme != k15[0].scheme] or [k for k in k15[1:] if k.scheme == k15[0].scheme]
        if oth:
            a15, b15 = k15[0], oth[0]
            siglen = 16 if a15.scheme == "toy" else 64
            for target in (270, 290, 298):
                p15 = gens.pad_to(r15, 5, {b"id": rlp_str(b"v4"), a15.entry: rlp_str(a15.pub), b"udp": rlp_uint(9)}, target, siglen)
                if not p15:
                    continue
                rb = record_bytes(ctx.oracle, a15, 5, sorted(p15.items()))[0]
                for op in ("op set_seq b 0 %d" % (2**64 - 1), "op set_seq b 0 6", "op insert b 0 %s b:%s" % (hx(b"q"), hx(b"w" * 20)), "op set_udp4 b 1 7", "op set_udp4 b 3 7",
                           "op remove_key b 0 %s" % hx(b"nokey")):
                    cases.append(["key a " + a15.spec, "key b " + b15.spec, "load " + rb.hex(), "save 0", op, "save 1", "pair 0 1", "pair 1 0", "recode 2", "pair 1 2"])
        # content twins by concatenation: {k1: v1, k3: v2} against {k1 ++ v1 ++ k3: v2} — the same bytes once the framing of
        # keys is dropped, different pairs (a comparison over an unframed stream of entries takes them for equal)
        a = gens.secrets(ctx.rng, ctx.oracle, kt, 1)[0]
        for k1, v1, k3 in ((b"a", b"\x62", b"c"), (b"", b"\x61", b"b"), (b"a", rlp_str(b"xy"), b"b"), (b"a1", b"\xc1\x05", b"a2"), (b"A", b"\x80", b"B")):
            v2 = rlp_str(gens.rbytes(ctx.rng, 2))
            cases.append(["key a " + a.spec,
                          "build a 0 5 raw/%s/%s raw/%s/%s" % (hx(k1), hx(v1), hx(k3), hx(v2)), "save 0",
                          "build a 0 5 raw/%s/%s" % (hx(k1 + v1 + k3), hx(v2)), "save 1", "pair 0 1", "pair 1 0", "pair 0 0",
                          "build a 0 5 raw/%s/%s raw/%s/%s" % (hx(k1), hx(v1), hx(k3), hx(v2)), "save 2", "pair 0 2", "pair 2 1"])
        res = compare_cases(ctx, kt, cases, None, lambda c, h: ["eq", "heq", "cc", "eqc", "seq", "pairs", "sig", "nid", "enc"], "c15", mon)


def check_C16(ctx):
    rng = ctx.rng
    cases, labs = [], []
    hexd = b"0123456789abcdef"

    def add(cmd, lab):
        cases.append([cmd]); labs.append(lab)

    for n in list(range(0, 65)) * ctx.scale(1, 20):
        add("nodeid parse " + hx(gens.rbytes(rng, n)), "parse_len_%s" % ("32" if n == 32 else "lt32" if n < 32 else "gt32"))
    for _ in range(ctx.scale(40, 2000)):
        pat = rng.choice([gens.rbytes(rng, 32), b"\x00" * 32, b"\xff" * 32, bytes(range(32)), b"\x00" * 31 + b"\x01", b"\x0a" * 32])
        add("nodeid new " + pat.hex(), "new")
        h = pat.hex().encode()
        variants = [h, b"0x" + h, h.upper(), b"0x" + h.upper(), b"0X" + h, b"0x0x" + h, h[:-1], h + b"0", b"0x" + h[:-2], h[:10] + b"g" + h[11:],
                    b" " + h, h + b" ", b"\n" + h, h + b"\n", b"\t0x" + h, b"0x" + h + b"\r\n", "\u00a0".encode() + h, b"0x" + h + "\u2003".encode(), b" 0x" + h + b" ", b"0x" + h[:63] + b"G", bytes(rng.choice([x, x.upper()] if isinstance(x, bytes) else [bytes([x]), bytes([x]).upper()]) [0] for x in h),
                    b"", b"0x", h[:62], b"0x" + h + b"00", "é".encode() + h[2:], h.replace(b"a", b"A", 1)]
        for v in rng.sample(variants, ctx.scale(8, len(variants))):
            add("nodeid deser " + hx(v), "deser")
    # 64 characters of which one or more are "almost" hex digits: every byte class next to the digit ranges, control
    # characters that case folding (| 0x20, & 0xdf, ^ 0x20) maps onto digits or letters, and a few non-ASCII ones
    near = [0x2b, 0x2d, 0x5f, 0x2e, 0x10, 0x11, 0x15, 0x19, 0x1a, 0x00, 0x01, 0x06, 0x2f, 0x3a, 0x40, 0x47, 0x60, 0x67, 0x21, 0x26, 0x41 ^ 0x80, 0x7f, 0x5f, 0x20]
    for ch in near:
        for places in ([0], [63], [2 * rng.randrange(32)], [2 * rng.randrange(32) + 1], rng.sample(range(64), 2), list(range(0, 64, 2)), list(range(64))):
            h = bytearray(gens.rbytes(rng, 32).hex().encode())
            for pos in places:
                h[pos] = ch
            try:
                bytes(h).decode("utf-8")
            except UnicodeDecodeError:
                continue
            add("nodeid deser " + hx(bytes(h)), "deser_near_digit")
            add("nodeid deser " + hx(b"0x" + bytes(h)), "deser_near_digit")
    # equality: ids that differ in one byte, in two bytes by the same xor at word distance, in swapped words/halves
    for _ in range(ctx.scale(12, 400)):
        a = bytearray(gens.rbytes(rng, 32))
        b = bytearray(a)
        kind = rng.randrange(6)
        if kind == 0:
            b[rng.randrange(32)] ^= 1 << rng.randrange(8)
        elif kind == 1:
            i = rng.randrange(24); x = rng.randrange(1, 256); d = rng.choice([8, 16, 24, 4, 1]); j = (i + d) % 32
            b[i] ^= x; b[j] ^= x
        elif kind == 2:
            w = rng.choice([4, 8, 16]); i, j = rng.sample(range(32 // w), 2)
            b[i * w:(i + 1) * w], b[j * w:(j + 1) * w] = a[j * w:(j + 1) * w], a[i * w:(i + 1) * w]
        elif kind == 3:
            b = bytearray(reversed(a))
        elif kind == 4:
            x = rng.randrange(1, 256)
            for i in range(16, 32):
                b[i] ^= x
        add("nodeid eq %s %s" % (bytes(a).hex(), bytes(b).hex()), "eq")
    late = []
    for ch in ("\u00f1", "\u00f6", "\u00b0", "\u00e9", "\u00c0", "\u20ac", "\u0131", "\uff10", "\u0661"):
        c8 = ch.encode()
        body = ("c1" * 40).encode()
        for pos in (0, 31, 64 - len(c8)):
            v = body[:pos] + c8 + body[pos:64 - len(c8)]
            late.append(v[:64] if len(v) >= 64 else v)
            late.append(body[:pos] + c8 + body[pos:63])      # 64 characters, 65+ bytes
    for n in range(0, 71):
        s = bytes(rng.choice(hexd) for _ in range(n))
        add("nodeid deser " + hx(s), "deser_len")
        add("nodeid deser " + hx(b"0x" + s), "deser_len_0x")

    def mon(kt, case, il):
        t = case[0].split()
        h, f = parse_line(il[0])
        out = []
        if t[1] == "parse":
            x = unhx(t[2])
            if (first(h) == "ok") != (len(x) == 32):
                out.append((0, "parse of a %d-byte slice: %s" % (len(x), first(h))))
            if first(h) == "ok" and h[1] != t[2]:
                out.append((0, "parse does not return the bytes given"))
        if t[1] == "new":
            x = t[2]
            if not (f["raw"] == x and f["asref"] == x and f["from"] == x and f["eqraw"] == "1"):
                out.append((0, "accessors do not return the bytes given"))
            if unhx(f["ser"]) != b'"0x' + x.encode() + b'"':
                out.append((0, "JSON form is not 0x + 64 lowercase hex digits"))
            if unhx(f["dbg"]) != b"0x" + x.encode() or unhx(f.get("dbgp", f["dbg"])) != b"0x" + x.encode():
                out.append((0, "Debug is not the full 0x-hex"))
            if unhx(f["disp"]) != b"0x" + x.encode()[:4] + b".." + x.encode()[-4:]:
                out.append((0, "Display is not the first and last two bytes"))
        if t[1] == "eq":
            want = "1" if t[2] == t[3] else "0"
            if f.get("eq") != want or f.get("eqraw") != want:
                out.append((0, "two ids of %s bytes compare %s/%s" % ("equal" if want == "1" else "different", f.get("eq"), f.get("eqraw"))))
            if want == "1" and f.get("hash") != "1":
                out.append((0, "equal ids hash differently"))
        if t[1] == "deser":
            s = unhx(t[2])
            body = s[2:] if s[:2] == b"0x" else s
            good = len(body) == 64 and all(c in b"0123456789abcdefABCDEF" for c in body)
            if (first(h) == "ok") != good:
                out.append((0, "deserialisation of %r: %s" % (s[:80], first(h))))
            if good and first(h) == "ok" and h[1] != body.decode().lower():
                out.append((0, "deserialised id differs from the digits"))
        return out

    for v in late:
        add("nodeid deser " + hx(v), "deser_non_ascii_aliasing")
        add("nodeid deser " + hx(b"0x" + v), "deser_non_ascii_aliasing")
    compare_cases(ctx, "k256", cases, labs, lambda c, h: None, "c16", mon, nontrivial=lambda case, il: True)


def check_C17(ctx):
    rng = ctx.rng
    N = SECP_N
    cases, labs = [], []
    edge = [0, 1, 2, N - 2, N - 1, N, N + 1, 2**256 - 1, 2**255, N // 2, 2**128]
    for v in edge:
        cases.append(["ckimport secp " + v.to_bytes(32, "big").hex()]); labs.append("secp_edge")
        cases.append(["ckimport ed " + v.to_bytes(32, "big").hex()]); labs.append("ed_edge")
    for _ in range(ctx.scale(40, 3000)):
        c = rng.random()
        if c < 0.6:
            b = gens.rbytes(rng, 32)
        elif c < 0.8:
            b = (N + rng.randrange(-3, 2**128)).to_bytes(32, "big") if rng.random() < 0.5 else (rng.randrange(1, 2**200)).to_bytes(32, "big")
        else:
            b = b"\xff" * 16 + gens.rbytes(rng, 16)
        cases.append(["ckimport secp " + b.hex()]); labs.append("secp_random")
        cases.append(["ckimport ed " + b.hex()]); labs.append("ed_random")
    # limb boundaries: every 64-bit (and a sample of 32-bit) limb at, just below and just above the group order's limb,
    # 0 and all-ones — a hand-written multi-limb comparison goes wrong on exactly one such combination
    def limbs(width):
        k = 256 // width
        nl = [(N >> (width * (k - 1 - i))) & ((1 << width) - 1) for i in range(k)]
        return k, nl
    combos = []
    k, nl = limbs(64)
    import itertools
    for choice in itertools.product(range(5), repeat=k):
        v = 0
        for i, c in enumerate(choice):
            limb = [nl[i] - 1, nl[i], nl[i] + 1, 0, (1 << 64) - 1][c] % (1 << 64)
            v = (v << 64) | limb
        combos.append(v)
    k, nl = limbs(32)
    for _ in range(400):
        v = 0
        for i in range(k):
            limb = rng.choice([nl[i] - 1, nl[i], nl[i], nl[i] + 1, 0, (1 << 32) - 1, rng.randrange(1 << 32)]) % (1 << 32)
            v = (v << 32) | limb
        combos.append(v)
    combos += [N - (1 << e) for e in (8, 16, 32, 63, 64, 65, 96, 127, 128, 129, 160, 191, 192, 193, 224)]
    for v in (combos if not ctx.quick else rng.sample(combos, 160) + combos[-15:]):
        cases.append(["ckimport secp " + v.to_bytes(32, "big").hex()]); labs.append("secp_limb_boundary")
    for n in list(range(0, 40)) + [63, 64, 65]:
        if n != 32:
            cases.append(["ckimport ed " + hx(gens.rbytes(rng, n))]); labs.append("ed_wrong_length")
    for _ in range(ctx.scale(6, 100)):
        sec = gens.rbytes(rng, 32)
        r = ctx.oracle.q("pub ed " + sec.hex()).split()
        if r[0] == "ok":
            # the 64-byte "keypair" serialisation: the secret followed by its own public key
            cases.append(["ckimport ed " + (sec + bytes.fromhex(r[1])).hex()]); labs.append("ed_keypair_64")
        cases.append(["ckimport ed " + (sec + sec).hex()]); labs.append("ed_wrong_length")
        # 32-byte secp256k1 secrets that happen to parse as other serialisations (ASN.1 DER ECPrivateKey, PKCS#8 prefixes)
        for pre in (bytes.fromhex("301e0201010419"), bytes.fromhex("30200201010420")[:7], bytes.fromhex("3081d30201010420")[:8], bytes.fromhex("302e0201010420")[:7]):
            cases.append(["ckimport secp " + (pre + gens.rbytes(rng, 32 - len(pre))).hex()]); labs.append("secp_der_like")

    def mon(kt, case, il):
        t = case[0].split()
        h, f = parse_line(il[0])
        x = unhx(t[2])
        out = []
        if len(x) == 32:
            v = int.from_bytes(x, "big")
            want = (0 < v < N) if t[1] == "secp" else True
            if (first(h) == "ok") != want:
                out.append((0, "import of a %s secret: %s" % ("valid" if want else "invalid", first(h))))
        elif t[1] == "ed" and first(h) == "ok":
            out.append((0, "ed25519 import accepted %d bytes" % len(x)))
        if first(h) == "ok":
            if unhx(f["buf"]) != b"\x00" * len(x):
                out.append((0, "caller's buffer not wiped"))
            if f.get("offs") == "0":
                out.append((0, "the import depends on where the caller's buffer starts (offsets 0..8 inside a larger buffer): wipe, result or neighbouring bytes differ"))
            if len(x) == 32 and f["export"] != t[2]:
                out.append((0, "export differs from the imported bytes"))
            if not f.get("rec", "").endswith(":1"):
                out.append((0, "record signed with the imported key does not verify"))
            r = ctx.oracle.q("pub %s %s" % ("l" if t[1] == "secp" else "ed", f["export"])).split()
            if r[0] != "ok" or r[1] != f["pub"]:
                out.append((0, "public key differs from an independent derivation"))
        elif first(h) == "err" and f.get("buf") != t[2]:
            out.append((0, "failed import modified the caller's buffer"))
        return out

    r17 = _late_rng(ctx, "comb", 17)
    for _ in range(ctx.scale(3, 30)):
        sec = gens.rbytes(r17, 32)
        for which in ("secp", "ed"):
            for lab, b in (("len_32_mod_256", sec + gens.rbytes(r17, 256)), ("len_32_mod_256", sec + gens.rbytes(r17, 512)), ("rlp_framed", b"\xa0" + sec),
                           ("rlp_framed_long", b"\xb8\x20" + sec), ("hex_text", sec.hex().encode()), ("hex_text_0x", b"0x" + sec.hex().encode()),
                           ("hex_text_newline", sec.hex().encode() + b"\n"), ("quoted", b'"' + sec + b'"'), ("len_31", sec[:31]), ("len_33_trailing_zero", sec + b"\x00"),
                           ("len_33_leading_zero", b"\x00" + sec)):
                cases.append(["ckimport %s %s" % (which, b.hex())]); labs.append(which + "_" + lab)
    compare_cases(ctx, "comb", cases, labs, lambda c, h: None, "c17", mon, nontrivial=lambda case, il: True)


def check_C03(ctx):
    """no panic / abort / non-termination: outcome classes of every kind of command"""
    def mon(kt, case, il):
        out = []
        for i, l in enumerate(il):
            h, f = parse_line(l)
            if "panic" in h or first(h) == "hang-or-abort":
                out.append((i, "the call panicked or did not return: " + l[:200]))
        return out

    rng = ctx.rng
    for kt in ["k256", "libsecp", "ed", "comb", "toy", "k256_plain", "comb_plain", "k256_default"]:
        gkt = base_kt(kt)
        cases = []
        for b in gens.unstructured(rng, ctx.scale(120, 5000)):
            c = rng.random()
            if c < 0.5:
                cases.append(["decode " + hx(b)])
            elif c < 0.6:
                cases.append(["decvec " + hx(b)])
            elif c < 0.8:
                s = gens.b64(b) if rng.random() < 0.6 else bytes(x for x in b if x < 0x80)
                cases.append(["parse " + hx(rng.choice([b"enr:", b"", b"enr"]) + s)])
            else:
                s = gens.b64(b)
                cases.append(["json " + hx(rng.choice([b'"enr:' + s + b'"', b'"' + s, b"[1,2]", b'{"a":1}', b'"\\u0065nr:' + s + b'"', s]))])
        recs = gens.valid_records(rng, ctx.oracle, gkt, ctx.scale(3, 30))
        for u in gens.utf8_strings(rng, recs[0]["bytes"]):
            cases.append(["parse " + hx(u)])
            if rng.random() < 0.5:
                cases.append(["json " + hx(b'"' + u + b'"')])
        for r in recs:
            for lab, b in gens.tampers(rng, ctx.oracle, r, recs, ctx.scale(40, 400)):
                cases.append(["decode " + hx(b)])
            for lab, b in gens.structural_mutants(rng, ctx.oracle, r):
                cases.append(["decode " + hx(b)])
        cases += hist_cases(ctx, gkt, ctx.scale(12, 300), (5, 30))
        # states that only failing calls reach: histories from 2^64-1 / near the size limit / with signing faults, reused builders
        extra = hist_cases(ctx, gkt, ctx.scale(8, 150), 8, start_fn=lambda rng: "build a 0 %d" % rng.choice([2**64 - 1, 2**64 - 1, 2**64 - 2, 127]))
        extra += size_neutral_cases(ctx, gkt)[:ctx.scale(12, 200)] + size_sweep_cases(ctx, gkt)[:ctx.scale(12, 200)] + builder_reuse_cases(ctx, gkt)[:ctx.scale(8, 100)]
        for case in list(extra[:ctx.scale(10, 100)]):
            ops = [i for i, c in enumerate(case) if c.startswith("op ")]
            for i in ops[:4]:
                t = case[i].split()
                t[3] = rng.choice(["1", "2", "3"])
                extra.append(case[:i] + [" ".join(t)] + case[i + 1:])
        cases += extra
        # every mutator x record state x signer with every accessor afterwards (own generator: the cases above stay as they were)
        import random as _random
        cases += op_state_matrix(ctx, gkt, None, _random.Random(ctx.seed * 7919 + len(kt) * 31 + sum(kt.encode())))
        cases += late_history_cases(ctx, gkt)
        if kt == "k256":
            for _ in range(ctx.scale(60, 2000)):
                s = gens.rbytes(rng, rng.randrange(0, 70)) if rng.random() < 0.5 else bytes(rng.choice(b"0123456789abcdefxX") for _ in range(rng.randrange(0, 70)))
                try:
                    s.decode("utf-8")
                except UnicodeDecodeError:
                    s = s.decode("utf-8", "replace").encode()
                cases.append(["nodeid deser " + hx(s)])
                cases.append(["nodeid parse " + hx(gens.rbytes(rng, rng.randrange(0, 70)))])
        if kt == "comb":
            for _ in range(ctx.scale(30, 1000)):
                cases.append(["ckimport %s %s" % (rng.choice(["secp", "ed"]), hx(gens.rbytes(rng, rng.choice([0, 1, 16, 24, 31, 32, 32, 32, 33, 64]))))])
        if kt.endswith("_plain"):
            # the unwrapped key types as users instantiate them: implementation only (no signing log for the model)
            flat = []
            for c in cases:
                flat += ["reset"] + c
            il = run_impl_only(kt, flat, "c03plain")
            pos = 0
            for c in cases:
                sub = il[pos + 1:pos + 1 + len(c)]
                pos += 1 + len(c)
                ctx.evals += len(c)
                for idx, text in mon(kt, c, sub):
                    ctx.finding("monitor", kt, c, idx, text, sub[idx], None)
                ctx.note_case(kt, c, len(c) > 1 or first(parse_line(sub[0])[0]) in ("ok", "err"))
            continue
        compare_cases(ctx, kt, cases, None, lambda c, h: [], "c03", mon, nontrivial=lambda case, il: len(case) > 1 or first(parse_line(il[0])[0]) in ("ok", "err"))


CHECKS = {
    "C01": check_C01, "C02": check_C02, "C03": check_C03, "C04": check_C04, "C05": check_history_property, "C06": check_history_property,
    "C07": check_history_property, "C08": check_C08, "C09": check_history_property, "C10": check_history_property, "C11": check_C11,
    "C12": check_C12, "C13": check_C13, "C14": check_history_property, "C15": check_C15, "C16": check_C16, "C17": check_C17,
}

# properties in which a projected disagreement with the (proved) model value is itself a failing input of the property:
# the theorem pins the observable, so the implementation's deviating value on this concrete input violates it.
SPEC_IS_MODEL = {"C02": "decode_iff_wellformed", "C08": "step_refines", "C14": "accessors_iff", "C16": "nodeid", "C17": "import", "C07": "seq", "C12": "from_str_strict", "C13": "decode_prefix_local"}

RULE = {
    "C01": "valid records signed by the oracle directly, all/sampled single-bit flips, byte edits, insertions, deletions, truncations, field-level tampers and unstructured bytes, as bytes and as text; non-trivial = every case (all exercise the accept/reject decision); distinct by sha256 of key type + commands",
    "C02": "valid records and re-signed structural mutants (one rule violated each), unstructured bytes; verdict compared with the model's (= WellFormed); non-trivial = every case; distinct by sha256",
    "C03": "unstructured bytes/strings through decode/parse/json/decvec, tampers and mutants, random histories with every accessor after every step, NodeId and CombinedKey inputs; non-trivial = multi-step case or a case that reached an ok/err verdict; distinct by sha256",
    "default": "random and directed operation histories / inputs (see input_distribution); non-trivial = at least one command of the case returned ok; distinct by sha256 of key type + commands",
}


def corpus_cases(pid):
    """witnesses of fixed findings and minimised earlier failures that concern this property: run first"""
    kf = json.load(open(os.path.join(VERIF, "known_findings.json")))
    out = []
    for e in kf["fixed"] + kf["open"]:
        if pid in e["properties"]:
            p = os.path.join(VERIF, e["witness"])
            kt = os.path.basename(p).split(".")[1]
            out.append((e["id"], kt, [l for l in open(p).read().splitlines() if l.strip()]))
    for p in sorted(glob.glob(os.path.join(VERIF, "corpus", pid, "*.txt"))):
        kt = os.path.basename(p).split(".")[1]
        out.append((os.path.basename(p), kt, [l for l in open(p).read().splitlines() if l.strip()]))
    return out


def run_corpus(ctx):
    mon = HIST_MON.get(ctx.pid)
    mon = mon(ctx) if mon else None
    for name, kt, lines in corpus_cases(ctx.pid):
        proj = HIST_PROJ.get(ctx.pid)
        compare_cases(ctx, kt, [lines], ["corpus:" + name], lambda c, h: proj, "corpus", mon, nontrivial=lambda case, il: True)
        # generic monitors that apply to every property's corpus: no panic, atomicity, validity
        for extra in (mon_C06(ctx), mon_C05(ctx), mon_C09(ctx)):
            if ctx.pid in ("C03", "C04", "C05", "C06", "C09", "C10", "C14"):
                il = run_impl_only(kt, lines, "corpusmon")
                for idx, text in extra(kt, lines, il):
                    ctx.finding("monitor", kt, lines, idx, "corpus witness %s: %s" % (name, text), il[idx], None)
                if ctx.pid == "C03":
                    for idx, l in enumerate(il):
                        if "panic" in l.split():
                            ctx.finding("monitor", kt, lines, idx, "corpus witness %s panics" % name, l, None)


def shrink(ctx, f):
    """greedy: drop commands of the case while the same kind of finding persists (bounded number of re-runs)"""
    case, kt = list(f["case"]), f["kt"]
    if len(case) <= 2:
        return case
    budget = 40
    target = f["detail"] if isinstance(f["detail"], str) else f["detail"][0][0]

    def still(c):
        try:
            (il, ml), = run_cases(kt, [c], "shrink", shards=1)
        except Exception:
            return False
        if f["kind"] == "disagreement":
            for cmd, a, b in zip(c, il, ml):
                d = diff_lines(a, b, None)
                if any(x[0] == target for x in d):
                    return True
            return False
        mon = HIST_MON.get(ctx.pid)
        if not mon:
            return False
        return any(t == target for _, t in mon(ctx)(kt, c, il))

    i = len(case) - 1
    while i >= 0 and budget > 0:
        if case[i].startswith(("key", "build", "load")) and sum(1 for x in case if x.startswith(("build", "load"))) <= 1 and case[i].startswith(("build", "load")):
            i -= 1
            continue
        cand = case[:i] + case[i + 1:]
        budget -= 1
        if cand and still(cand):
            case = cand
        i -= 1
    return case


def report(ctx, audit, t0):
    os.makedirs(os.path.join(VERIF, "evidence", "replays"), exist_ok=True)
    lines = []
    nviol = 0
    # broken proof / audit problems
    if audit["problems"] or audit["discharged"] < audit["obligations"] or audit["obligations"] == 0:
        nviol += 1
        path = os.path.join("evidence", "replays", "%s-proof.json" % ctx.pid)
        json.dump({"property": ctx.pid, "kind": "proof", "what_no_longer_checks": audit["problems"] or ["theorem file"], "theorems": audit["theorems"]},
                  open(os.path.join(VERIF, path), "w"), indent=1)
        lines.append("VIOLATION property=%s replay=%s no-failing-input-found" % (ctx.pid, path))
    mons = [f for f in ctx.findings if f["kind"] == "monitor"]
    dis = [f for f in ctx.findings if f["kind"] == "disagreement"]
    seen = set()
    n = 0
    for f in mons[:200]:
        key = f["detail"]
        if key in seen:
            continue
        seen.add(key)
        n += 1
        if n > 5:
            break
        small = shrink(ctx, f) if len(f["case"]) > 3 else f["case"]
        path = os.path.join("evidence", "replays", "%s-%d.json" % (ctx.pid, n))
        json.dump({"property": ctx.pid, "kind": "failing-input", "key_type": f["kt"], "commands": small, "original_commands": f["case"],
                   "failing_command_index": f["line"], "monitor_clause": f["detail"], "implementation_observation": f["impl"], "model_observation": f["model"],
                   "replay_cmd": "tools/check %s --replay %s" % (ctx.pid, path)}, open(os.path.join(VERIF, path), "w"), indent=1)
        lines.append("VIOLATION property=%s replay=%s" % (ctx.pid, path))
        nviol += 1
    if dis:
        seen = set()
        for f in dis[:500]:
            key = tuple(x[0] for x in f["detail"])
            if key in seen:
                continue
            seen.add(key)
            n += 1
            if n > 8:
                break
            small = shrink(ctx, f) if len(f["case"]) > 3 else f["case"]
            found = ctx.pid in SPEC_IS_MODEL and not mons and not all(x[0] == "kind~" for x in f["detail"])
            if ctx.pid == "C09" and not mons and (any(x[0] == "size" for x in f["detail"]) or
                                                     (any(x[0] in ("outcome", "kind") for x in f["detail"]) and
                                                      "kind=ExceedsMaxSize" in (f.get("impl") or "") + (f.get("model") or ""))):
                # step_refused_iff / set_seq_refused_iff / build_refusal pin when a call is refused for size and what size() is
                found = True
            # a disagreement for which a monitor already produced a failing input is reported under that one
            path = os.path.join("evidence", "replays", "%s-%d.json" % (ctx.pid, n))
            json.dump({"property": ctx.pid, "kind": "correspondence", "key_type": f["kt"], "commands": small, "original_commands": f["case"],
                       "failing_command_index": f["line"], "differs": f["detail"],
                       "correspondence_that_no_longer_checks": "extracted model vs enr on observables %s (theorems of props/%s.v speak about the model)" % ([x[0] for x in f["detail"]], ctx.pid),
                       "theorem": SPEC_IS_MODEL.get(ctx.pid),
                       "implementation_observation": f["impl"], "model_observation": f["model"],
                       "replay_cmd": "tools/check %s --replay %s" % (ctx.pid, path)}, open(os.path.join(VERIF, path), "w"), indent=1)
            if found:
                lines.append("VIOLATION property=%s replay=%s" % (ctx.pid, path))
            elif not mons:
                lines.append("VIOLATION property=%s replay=%s no-failing-input-found" % (ctx.pid, path))
            else:
                continue
            nviol += 1
    cov = {
        "evaluations": ctx.evals,
        "distinct_nontrivial": len(ctx.nontrivial),
        "distinct_cases": len(ctx.hashes),
        "rule": RULE.get(ctx.pid, RULE["default"]),
        "samples": ctx.samples[:6] or [{"note": "no sample recorded"}],
        "traces_validated_against_impl": ctx.validated,
        "input_distribution": dict(ctx.dist.most_common(60)),
        "disagreements": len(dis),
        "monitor_failures": len(mons),
        "hypotheses_checked_at_run_time": dict(ctx.hyp_checked),
        "extraction_cross_check": dict(ctx.cross, what="the same toy-key cases evaluated by vm_compute inside Coq (kernel-checked equality) and by the extracted OCaml driver"),
    }
    try:
        surf = source_surface()
        for d in surf["source_constants_differ_from_model"]:
            print("NOTE: constant in /repo/src differs from the model's: %s (the correspondence run decides whether a property is affected)" % d)
        if surf["pub_fns_not_called_by_harness"]:
            print("NOTE: public functions in /repo/src that the harness never calls (not covered by any check): %s" % ", ".join(surf["pub_fns_not_called_by_harness"]))
        surf.pop("exempt", None)
        cov["source_surface"] = surf
    except Exception as e:
        cov["source_surface"] = {"error": repr(e)}
    if ctx.pid == "C06":
        try:
            sk = statement_skeleton()
            for d in sk["differ"]:
                print("NOTE: statement order of an update body in /repo/src/lib.rs differs from theories/Stmt.v: %s (the correspondence run decides whether C06 is affected)" % d)
            cov["statement_skeleton"] = sk
        except Exception as e:
            cov["statement_skeleton"] = {"error": repr(e)}
    assumptions = ["the correspondence check is differential testing: agreement is established on the inputs run",
                   "crypto cores (ECDSA equation, ed25519, SEC1 decoding) are oracles at run time and universally quantified in the theorems",
                   "unforgeability and collision resistance are not claimed"]
    write_evidence(ctx.pid, ctx.tier, ctx.seed, audit, cov, time.time() - t0, nviol, assumptions)
    for l in lines:
        print(l)
    print("%s: %d evaluations, %d distinct non-trivial cases, %d/%d theorems, %d disagreements, %d monitor failures, %.1fs"
          % (ctx.pid, ctx.evals, len(ctx.nontrivial), audit["discharged"], audit["obligations"], len(dis), len(mons), time.time() - t0))
    return 1 if nviol else 0


def replay(pid, path):
    r = json.load(open(os.path.join(VERIF, path) if not os.path.isabs(path) else path))
    if "commands" not in r:
        print(json.dumps(r, indent=1))
        return 0
    build_all()
    (il, ml), = run_cases(r["key_type"], [r["commands"]], "replay", shards=1)
    for c, a, b in zip(r["commands"], il, ml):
        print("CMD  ", c[:300])
        print("IMPL ", a[:600])
        print("MODEL", b[:600])
        # `e` (the decoder's error value) and `alt` are reported by the implementation only
        d = diff_lines(a, b, None, skip={"e", "alt"})
        if d:
            print("DIFF ", [(x[0], str(x[1])[:80], str(x[2])[:80]) for x in d])
    if r.get("monitor_clause"):
        print("MONITOR clause of the original report:", r["monitor_clause"])
    return 0


def main():
    ap = argparse.ArgumentParser()
    ap.add_argument("pid")
    ap.add_argument("--tier", default=os.environ.get("VERIF_TIER", "quick"))
    ap.add_argument("--replay")
    ap.add_argument("--noaudit", action="store_true", help="development only: skip the Coq audit")
    a = ap.parse_args()
    if a.replay:
        sys.exit(replay(a.pid, a.replay))
    seed = int(os.environ.get("VERIF_SEED", "1"))
    t0 = time.time()
    try:
        coq_ok, bt = build_all()
        audit = coq_audit(a.pid, thorough=(a.tier == "thorough")) if not a.noaudit else {"file": "", "theorems": ["dev"], "obligations": 1, "discharged": 1, "problems": [], "axioms": []}
        if not coq_ok:
            audit["problems"].append("the Coq development does not build (see build/coq_build.log)")
        ctx = Ctx(a.pid, a.tier, seed)
        run_corpus(ctx)
        CHECKS[a.pid](ctx)
        rc = report(ctx, audit, t0)
        ctx.oracle.close()
    except InfraError as e:
        print("INFRASTRUCTURE ERROR (no verdict): %s" % e)
        sys.exit(2)
    except Exception:
        import traceback
        traceback.print_exc()
        print("INFRASTRUCTURE ERROR (no verdict): the check driver itself failed")
        sys.exit(2)
    sys.exit(rc)


if __name__ == "__main__":
    main()
