#!/usr/bin/env python3
# seed.py — bookkeeping for seeded changes (mutants written by independent sub-agents).
#   seed.py confirm <PID> <i>      in the scratch worktree /tmp/wt_<PID>: apply mutant<i>.diff, run the crate's own
#                                  suite (must pass), run the demo (must fail), revert, run the demo (must pass);
#                                  on success store /verif/seeded/<PID>-<i>/{patch.diff,demo.rs,meta.json}
#   seed.py run <PID>-<i> [Cxx..]  apply the stored patch to /repo, run the quick checks, undo, record detect.json
#   seed.py table                  print which checks catch which seeded change
import json, os, subprocess, sys, shutil, time

VERIF = os.path.dirname(os.path.dirname(os.path.abspath(__file__)))
SEEDED = os.path.join(VERIF, "seeded")
FEATS = '--features "serde k256 ed25519 rust-secp256k1"'
RELATED = {"C01": ["C01", "C02", "C11"], "C02": ["C02", "C04", "C01"], "C03": ["C03", "C05"], "C04": ["C04", "C02", "C12"],
           "C05": ["C05", "C04", "C10"], "C06": ["C06", "C05"], "C07": ["C07", "C08"], "C08": ["C08", "C14"], "C09": ["C09", "C05"],
           "C10": ["C10", "C05"], "C11": ["C11", "C01"], "C12": ["C12", "C04"], "C13": ["C13", "C02"], "C14": ["C14", "C08"],
           "C15": ["C15", "C05"], "C16": ["C16"], "C17": ["C17"]}


def sh(cmd, cwd=None, timeout=3000):
    e = dict(os.environ, CARGO_NET_OFFLINE="true")
    p = subprocess.run(cmd, shell=True, cwd=cwd, env=e, stdout=subprocess.PIPE, stderr=subprocess.STDOUT, timeout=timeout)
    return p.returncode, p.stdout.decode(errors="replace")


def confirm(pid, i, wtprefix="/tmp/wt_", offset=0):
    wt = wtprefix + pid
    diff, demo, meta = [os.path.join(wt, "%s%s.%s" % (n, i, ext)) for n, ext in (("mutant", "diff"), ("demo", "rs"), ("meta", "txt"))]
    assert os.path.exists(diff) and os.path.exists(demo), "deliverables missing"
    log = {}
    sh("git checkout -- src Cargo.toml; rm -f tests/demo_seed.rs", wt)
    rc, out = sh("git apply --check %s && git apply %s" % (diff, diff), wt)
    assert rc == 0, "patch does not apply: " + out
    rc, out = sh("cargo test --workspace --no-fail-fast --offline 2>&1 | grep -E '^test result|error' ", wt)
    log["suite_with_change"] = out.strip().splitlines()
    suite_ok = all("FAILED" not in l and "error" not in l for l in log["suite_with_change"]) and any("38 passed" in l for l in log["suite_with_change"])
    shutil.copy(demo, os.path.join(wt, "tests", "demo_seed.rs"))
    demo_cmd = "cargo test --offline %s --test demo_seed" % FEATS
    rc1, out1 = sh(demo_cmd + " 2>&1 | tail -15", wt)
    if "could not compile" in out1 or "error[" in out1:
        demo_cmd = "cargo test --offline --test demo_seed"
        rc1, out1 = sh(demo_cmd + " 2>&1 | tail -15", wt)
    log["demo_cmd"] = demo_cmd
    log["demo_with_change"] = [l for l in out1.splitlines() if l.startswith("test result") or "panicked" in l][:6]
    fails_with = any("FAILED" in l for l in out1.splitlines() if l.startswith("test result"))
    sh("git checkout -- src Cargo.toml", wt)
    rc2, out2 = sh(demo_cmd + " 2>&1 | tail -8", wt)
    log["demo_without_change"] = [l for l in out2.splitlines() if l.startswith("test result")]
    passes_without = any("ok." in l for l in log["demo_without_change"]) and not any("FAILED" in l for l in log["demo_without_change"])
    os.remove(os.path.join(wt, "tests", "demo_seed.rs"))
    ok = suite_ok and fails_with and passes_without
    print("%s-%s: suite_ok=%s demo_fails_with=%s demo_passes_without=%s" % (pid, i, suite_ok, fails_with, passes_without))
    if not ok:
        print(json.dumps(log, indent=1))
        return 1
    sid = "%s-%d" % (pid, int(i) + int(offset))
    d = os.path.join(SEEDED, sid)
    os.makedirs(d, exist_ok=True)
    shutil.copy(diff, os.path.join(d, "patch.diff"))
    shutil.copy(demo, os.path.join(d, "demo.rs"))
    m = {"id": sid, "breaks_property": pid,
         "written_by": "independent sub-agent given only the property text and a scratch worktree of /repo",
         "what_it_does_and_needs": open(meta).read().strip() if os.path.exists(meta) else "",
         "confirmed": log,
         "confirmed_how": "in scratch worktree %s: git apply patch.diff; cargo test --workspace --no-fail-fast --offline (38 pass); demo copied to tests/ and run (fails); git checkout -- src; demo run again (passes)" % wt}
    json.dump(m, open(os.path.join(d, "meta.json"), "w"), indent=1)
    return 0


def run(sid, props):
    d = os.path.join(SEEDED, sid)
    patch = os.path.join(d, "patch.diff")
    pid = sid.split("-")[0]
    props = props or RELATED[pid]
    rc, out = sh("git -C /repo status --porcelain --untracked-files=no")
    assert out.strip() == "", "/repo is not clean: " + out
    rc, out = sh("git -C /repo apply %s" % patch)
    assert rc == 0, out
    res = {}
    try:
        for p in props:
            t0 = time.time()
            rc, out = sh("tools/check %s --tier quick" % p, VERIF)
            lines = [l for l in out.splitlines() if l.startswith(("VIOLATION", "KNOWN-FINDING", "INFRA"))]
            summary = [l for l in out.splitlines() if l.startswith(p + ":")]
            replays = []
            for l in lines:
                if "replay=" in l:
                    rp = l.split("replay=")[1].split()[0]
                    try:
                        r = json.load(open(os.path.join(VERIF, rp)))
                        replays.append({"line": l, "kind": r.get("kind"), "what": r.get("monitor_clause") or r.get("differs") or r.get("what_no_longer_checks"),
                                        "commands": r.get("commands", [])[:6]})
                    except Exception as e:
                        replays.append({"line": l})
            res[p] = {"exit": rc, "violation_lines": lines, "summary": summary, "replays": replays[:3], "wall_s": round(time.time() - t0, 1)}
            print(sid, p, "exit", rc, lines[:2])
    finally:
        sh("git -C /repo checkout -- .")
    old = {}
    f = os.path.join(d, "detect.json")
    if os.path.exists(f):
        old = json.load(open(f))
    old.update(res)
    json.dump(old, open(f, "w"), indent=1)
    # restore evidence files of the unchanged tree later (the caller re-runs the checks on the clean tree)
    return 0


def table():
    rows = []
    for sid in sorted(os.listdir(SEEDED)):
        f = os.path.join(SEEDED, sid, "detect.json")
        if not os.path.exists(f):
            rows.append((sid, "not run"))
            continue
        det = json.load(open(f))
        caught = [p for p, r in det.items() if r["exit"] == 1]
        missed = [p for p, r in det.items() if r["exit"] == 0]
        rows.append((sid, "caught by " + ",".join(caught) if caught else "MISSED", "silent: " + ",".join(missed)))
    for r in rows:
        print("  ".join(r))


if __name__ == "__main__":
    if sys.argv[1] == "confirm":
        sys.exit(confirm(*sys.argv[2:]))
    if sys.argv[1] == "run":
        sys.exit(run(sys.argv[2], sys.argv[3:]))
    if sys.argv[1] == "table":
        table()
