# coqcross.py — cross-check of the extraction: the same definitions evaluated INSIDE Coq (vm_compute, checked by the
# kernel) and by the extracted OCaml driver must give the same observations. Uses the toy key type, which needs no
# crypto oracle, so the whole decoder / text parser / update machinery (RLP, sorted map, keccak256, base64, size and
# sequence checks) is exercised on both sides. A mismatch means the extracted program that the correspondence check
# runs is not the model the theorems are about: an infrastructure failure, never a property verdict.
import os, subprocess, tempfile, time
from enrlib import *


def coq_bytes(b):
    return "[" + ";".join(str(x) for x in b) + "]"


def coq_opt(x, f):
    return "None" if x is None else "(Some %s)" % f(x)


def model_lines(cmds, tag):
    os.makedirs(WORK, exist_ok=True)
    base = os.path.join(WORK, "cross.%s.%d" % (tag, os.getpid()))
    open(base + ".cmds", "w").write("\n".join(cmds) + "\n")
    open(base + ".impl", "w").write("\n" * len(cmds))
    p = subprocess.run("%s toy %s.cmds %s.impl %s > %s.model 2>/dev/null" % (MODEL, base, base, IMPL, base), shell=True)
    out = open(base + ".model").read().splitlines()
    for ext in (".cmds", ".impl", ".model"):
        os.remove(base + ext)
    if p.returncode != 0 or len(out) != len(cmds):
        raise InfraError("extraction cross-check: the model driver failed")
    return out


def expected_term(line):
    """the OCaml driver's observation of a decode/parse, as a Gallina term of type option (N * bytes * bytes * smap * N)"""
    h, f = parse_line(line)
    if not h or h[0] != "ok":
        return "None"
    pairs = []
    if f["pairs"] != "-":
        for kv in f["pairs"].split(","):
            k, v = kv.split(":")
            pairs.append("(%s, %s)" % (coq_bytes(unhx(k)), coq_bytes(unhx(v))))
    return "(Some (%s, %s, %s, [%s], %s))" % (f["seq"], coq_bytes(unhx(f["nid"])), coq_bytes(unhx(f["sig"])), "; ".join(pairs), f.get("rest", "0"))


def cross_check(decode_inputs, text_inputs, tag="x", timeout=900):
    """decode_inputs: byte strings given to decode; text_inputs: byte strings (UTF-8 of the text) given to from_str.
    Returns (n_cases, seconds). Raises InfraError on a mismatch or when coqc fails."""
    cmds = ["decode " + hx(b) for b in decode_inputs] + ["parse " + hx(s) for s in text_inputs]
    if not cmds:
        return 0, 0.0
    lines = model_lines(["reset"] + cmds, tag)[1:]
    exp_d = [expected_term(l) for l in lines[:len(decode_inputs)]]
    exp_t = [expected_term(l) for l in lines[len(decode_inputs):]]
    v = ["Require Import Enr.Bytes Enr.Consts Enr.Rlp Enr.SortedMap Enr.Keccak Enr.Record Enr.Text Enr.Toy.",
         "Open Scope N_scope.",
         "Definition obs_d (b : bytes) := match decode toy_crypto Toy b with Ok (r, rest) => Some (seq r, nid r, sig r, content r, lenN rest) | _ => None end.",
         "Definition obs_t (s : bytes) := match from_str toy_crypto Toy s with Ok r => Some (seq r, nid r, sig r, content r, 0) | _ => None end.",
         "Goal map obs_d [%s] = [%s]." % ("; ".join(coq_bytes(b) for b in decode_inputs), "; ".join(exp_d)),
         "Proof. vm_compute. reflexivity. Qed.",
         "Goal map obs_t [%s] = [%s]." % ("; ".join(coq_bytes(s) for s in text_inputs), "; ".join(exp_t)),
         "Proof. vm_compute. reflexivity. Qed."]
    d = tempfile.mkdtemp(prefix="cross_", dir=WORK)
    path = os.path.join(d, "cases.v")
    open(path, "w").write("\n".join(v) + "\n")
    t0 = time.time()
    rc, out = sh("timeout %d coqc -noglob -Q %s Enr %s 2>&1" % (timeout, os.path.join(COQ, "theories"), path), check=False, timeout=timeout + 30)
    dt = time.time() - t0
    if rc != 0:
        keep = os.path.join(VERIF, "evidence", "replays", "extraction-cross-check-%s.v" % tag)
        os.makedirs(os.path.dirname(keep), exist_ok=True)
        os.replace(path, keep)
        subprocess.run("rm -rf %s" % d, shell=True)
        raise InfraError("extraction cross-check failed: vm_compute inside Coq and the extracted OCaml driver disagree (or coqc failed); cases kept in %s\n%s" % (keep, out[-600:]))
    subprocess.run("rm -rf %s" % d, shell=True)
    return len(cmds), dt


# ---------------------------------------------------------------- update histories (toy key type)

ERR_CODE = {"ExceedsMaxSize": 1, "SequenceNumberTooHigh": 2, "SigningError": 3, "UnsupportedIdentityScheme": 4, "InvalidRlpData": 5}

HIST_PRELUDE = """Require Import Enr.Bytes Enr.Consts Enr.Rlp Enr.SortedMap Enr.Keccak Enr.Record Enr.Update Enr.Toy.
Open Scope N_scope.
Inductive cmd :=
  | CBuild (sq : N) (calls : list bcall) (k : bytes) (ans : option bytes)
  | CLoad (b : bytes)
  | COp (o : op) (k : bytes) (ans : option bytes).
Definition code (e : err) : N :=
  match e with EExceedsMaxSize => 1 | ESequenceNumberTooHigh => 2 | ESigningError => 3 | EUnsupportedIdentityScheme => 4 | EFuel => 77 | _ => 5 end.
Definition ob (r : record) := (seq r, nid r, sig r, content r).
Fixpoint runc (cur : option record) (l : list cmd) : list (N * option (N * bytes * bytes * smap)) :=
  match l with
  | [] => []
  | CBuild sq calls k ans :: t =>
      match build toy_crypto Toy sq calls (toy_key k) (fun _ => ans) with
      | Ok r => (0, Some (ob r)) :: runc (Some r) t
      | Err e => (code e, option_map ob cur) :: runc cur t
      | Panic => (99, None) :: runc cur t
      end
  | CLoad b :: t =>
      match decode toy_crypto Toy b with
      | Ok (r, _) => (0, Some (ob r)) :: runc (Some r) t
      | Err e => (5, option_map ob cur) :: runc cur t
      | Panic => (99, None) :: runc cur t
      end
  | COp o k ans :: t =>
      match cur with
      | None => (98, None) :: runc cur t
      | Some r =>
          let '(res, r') := step toy_crypto Toy r o (toy_key k) (fun _ => ans) in
          (match res with Ok _ => 0 | Err e => code e | Panic => 99 end, Some (ob r')) :: runc (Some r') t
      end
  end.
"""


def coq_tval(s):
    t, a = s.split(":", 1)
    if t in ("b", "s", "ip4", "ip6"):
        return "(%s %s)" % ({"b": "TBytes", "s": "TStr", "ip4": "TIp4", "ip6": "TIp6"}[t], coq_bytes(unhx(a)))
    if t == "u16":
        return "(TU16 %s)" % a
    if t == "u64":
        return "(TU64 %s)" % a
    if t == "l":
        return "(TList [%s])" % ("" if a == "-" else "; ".join(coq_bytes(unhx(x)) for x in a.split(",")))
    raise ValueError(s)


def coq_strs(n, v, b):
    l = [coq_bytes(unhx(n)), coq_bytes(unhx(v))] + ([] if b == "none" else [coq_bytes(unhx(b))])
    return "[%s]" % "; ".join(l)


def coq_op(name, a, keys):
    simple = {"remove_udp4": "ORemoveUdp4", "remove_udp6": "ORemoveUdp6", "remove_tcp": "ORemoveTcp", "remove_tcp6": "ORemoveTcp6",
              "remove_udp_socket": "ORemoveUdpSocket", "remove_udp6_socket": "ORemoveUdp6Socket", "remove_tcp_socket": "ORemoveTcpSocket",
              "remove_tcp6_socket": "ORemoveTcp6Socket"}
    if name in simple:
        return simple[name]
    if name == "set_seq":
        return "(OSetSeq %s)" % a[0]
    if name == "insert":
        return "(OInsert %s %s)" % (coq_bytes(unhx(a[0])), coq_tval(a[1]))
    if name == "insert_raw":
        return "(OInsertRaw %s %s)" % (coq_bytes(unhx(a[0])), coq_bytes(unhx(a[1])))
    if name == "set_ip":
        return "(OSetIp %s)" % coq_bytes(unhx(a[0]))
    if name in ("set_udp4", "set_udp6", "set_tcp4", "set_tcp6"):
        return "(O%s %s)" % ({"set_udp4": "SetUdp4", "set_udp6": "SetUdp6", "set_tcp4": "SetTcp4", "set_tcp6": "SetTcp6"}[name], a[0])
    if name == "set_client_info":
        return "(OSetClientInfo %s)" % coq_strs(a[0], a[1], a[2])
    if name in ("set_udp_socket", "set_tcp_socket"):
        return "(%s %s %s)" % ("OSetUdpSocket" if name == "set_udp_socket" else "OSetTcpSocket", coq_bytes(unhx(a[0].split("%")[0])), a[1])
    if name == "remove_key":
        return "(ORemoveKey %s)" % coq_bytes(unhx(a[0]))
    if name == "remove_insert":
        rk = [] if a[0] == "none" else [coq_bytes(unhx(x)) for x in a[0].split(",")]
        ik = [] if a[1] == "none" else ["(%s, %s)" % tuple(coq_bytes(unhx(y)) for y in x.split(":")) for x in a[1].split(",")]
        return "(ORemoveInsert [%s] [%s])" % ("; ".join(rk), "; ".join(ik))
    if name == "set_public_key":
        return "(OSetPublicKey (toy_pub %s))" % coq_bytes(keys[a[0]])
    raise ValueError(name)


def coq_bcall(m):
    p = m.split("/")
    if p[0] in ("ip4", "ip6", "ip"):
        b = unhx(p[1])
        return "(%s %s)" % ("BIp4" if len(b) == 4 else "BIp6", coq_bytes(b))
    if p[0] in ("tcp4", "tcp6", "udp4", "udp6"):
        return "(B%s %s)" % (p[0].capitalize(), p[1])
    if p[0] == "client":
        return "(BClient %s)" % coq_strs(p[1], p[2], p[3])
    if p[0] == "val":
        return "(BVal %s %s)" % (coq_bytes(unhx(p[1])), coq_tval(p[2]))
    if p[0] == "raw":
        return "(BRaw %s %s)" % (coq_bytes(unhx(p[1])), coq_bytes(unhx(p[2])))
    raise ValueError(m)


def answer_of(model_line):
    """what the model's signer answered at this call (taken from the driver's own sgn= log): Some sig / None"""
    h, f = parse_line(model_line)
    s = f.get("sgn", "-")
    if s == "-":
        return "None"
    sg = s.split(";")[0].split(":")[1]
    return "None" if sg in ("fail", "nosig") else "(Some %s)" % coq_bytes(unhx(sg))


def obs_term(f):
    pairs = []
    if f["pairs"] != "-":
        for kv in f["pairs"].split(","):
            k, v = kv.split(":")
            pairs.append("(%s, %s)" % (coq_bytes(unhx(k)), coq_bytes(unhx(v))))
    return "(Some (%s, %s, %s, [%s]))" % (f["seq"], coq_bytes(unhx(f["nid"])), coq_bytes(unhx(f["sig"])), "; ".join(pairs))


def cross_check_histories(cases_with_lines, tag="h", timeout=1200):
    """cases_with_lines: list of (commands, model_lines) of toy-key histories already run through the driver.
    Re-runs each history inside Coq with the signer answers the driver saw and requires identical results."""
    goals, n = [], 0
    for cmds, mls in cases_with_lines:
        if any("736563703235366b31" in c for c in cmds):
            # a value under "secp256k1" is validated by the crypto oracle (secp_chk) whatever the key type:
            # toy_crypto inside Coq and the driver's library-backed oracle legitimately differ there
            continue
        keys, terms, exps, cur, ok = {}, [], [], "None", True
        for cmd, ml in zip(cmds, mls):
            t = cmd.split()
            h, f = parse_line(ml)
            try:
                if t[0] == "key":
                    keys[t[1]] = unhx(t[2].split(":")[0])
                    continue
                if t[0] == "build":
                    sq = "1" if t[3] == "-" else t[3]
                    terms.append("CBuild %s [%s] %s %s" % (sq, "; ".join(coq_bcall(m) for m in t[4:]), coq_bytes(keys[t[1]]), answer_of(ml)))
                elif t[0] == "load":
                    terms.append("CLoad %s" % coq_bytes(unhx(t[1])))
                elif t[0] == "op":
                    terms.append("COp %s %s %s" % (coq_op(t[1], t[4:], keys), coq_bytes(keys[t[2]]), answer_of(ml)))
                else:
                    ok = False
                    break
            except (ValueError, KeyError, IndexError):
                ok = False
                break
            if h and h[0] == "ok" and "seq" in f:
                cur = obs_term(f)
                exps.append("(0, %s)" % cur)
            elif h and h[0] == "err":
                if "seq" in f:
                    cur = obs_term(f)
                kind = f.get("kind")
                exps.append("(%d, %s)" % (ERR_CODE.get(kind, 5), cur))
            elif h and h[0] == "norec":
                exps.append("(98, None)")
            else:
                ok = False
                break
        if ok and terms:
            goals.append("Goal runc None [%s] = [%s].\nProof. vm_compute. reflexivity. Qed." % ("; ".join(terms), "; ".join(exps)))
            n += len(terms)
    if not goals:
        return 0, 0.0
    d = tempfile.mkdtemp(prefix="crossh_", dir=WORK)
    path = os.path.join(d, "hist.v")
    open(path, "w").write(HIST_PRELUDE + "\n".join(goals) + "\n")
    t0 = time.time()
    rc, out = sh("timeout %d coqc -noglob -Q %s Enr %s 2>&1" % (timeout, os.path.join(COQ, "theories"), path), check=False, timeout=timeout + 30)
    dt = time.time() - t0
    if rc != 0:
        keep = os.path.join(VERIF, "evidence", "replays", "extraction-cross-check-%s.v" % tag)
        os.makedirs(os.path.dirname(keep), exist_ok=True)
        os.replace(path, keep)
        subprocess.run("rm -rf %s" % d, shell=True)
        raise InfraError("extraction cross-check (histories) failed: vm_compute inside Coq and the extracted OCaml driver disagree (or coqc failed); cases kept in %s\n%s" % (keep, out[-800:]))
    subprocess.run("rm -rf %s" % d, shell=True)
    return n, dt
