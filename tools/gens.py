# gens.py — input generators. Structured, mostly valid, plus separate malformed streams.
# Every random choice comes from the rng passed in (seeded from VERIF_SEED).
import base64
from enrlib import *

SEQ_POOL = [0, 1, 2, 55, 56, 127, 128, 255, 256, 65535, 65536, 2**24 - 1, 2**24, 2**32 - 1, 2**32, 2**40 - 1, 2**40, 2**48 - 1, 2**48,
            2**56 - 1, 2**56, 2**63 - 1, 2**63, 2**64 - 2, 2**64 - 1]
PORT_POOL = [0, 1, 127, 128, 255, 256, 30303, 65535]
RESERVED = [b"id", b"ip", b"ip6", b"tcp", b"tcp6", b"udp", b"udp6", b"secp256k1", b"ed25519", b"client"]
CUSTOM_KEYS = [b"", b"a", b"\x80", b"foo", b"zz", b"ip5", b"tcp7", b"udp", b"eth", b"eth2", b"attnets", b"\x00", b"\x7f",
               b"k" * 55, b"k" * 56, b"ie", b"ic", b"secp256k0", b"toy", b"t",
               # names that merely begin with / extend a reserved name, or differ from one in case
               b"udp4-name", b"tcp-alt", b"udp0", b"tcpx", b"ip4", b"ip66", b"idx", b"id2", b"i", b"secp256k1x", b"ed25519x", b"clientx",
               b"ID", b"Ip", b"TCP", b"Udp", b"Client",
               # popular, not reserved
               b"quic", b"quic6", b"syncnets", b"snap", b"opstack"]


def rbytes(rng, n):
    return bytes(rng.getrandbits(8) for _ in range(n))


# addresses with special structure: IPv4-mapped / IPv4-compatible / loopback / unspecified / multicast / documentation
ADDR4_POOL = [bytes([127, 0, 0, 1]), bytes(4), b"\xff" * 4, bytes([10, 0, 0, 1]), bytes([192, 168, 1, 1]), bytes([224, 0, 0, 1]), bytes([203, 0, 113, 66])]
ADDR6_POOL = [b"\x00" * 10 + b"\xff\xff" + bytes([192, 0, 2, 33]), b"\x00" * 10 + b"\xff\xff" + bytes([127, 0, 0, 1]), b"\x00" * 12 + bytes([10, 0, 0, 7]),
              b"\x00" * 15 + b"\x01", b"\x00" * 16, b"\xff" * 16, bytes.fromhex("20010db8000000000000000000000001"), bytes.fromhex("fe800000000000000000000000000001"),
              bytes.fromhex("0064ff9b0000000000000000c0000221")]


def raddr(rng, n=None):
    """an IPv4 (4 bytes) or IPv6 (16 bytes) address: structured ones half of the time"""
    if n is None:
        n = rng.choice([4, 16])
    if rng.random() < 0.5:
        return rng.choice(ADDR4_POOL if n == 4 else ADDR6_POOL)
    if n == 16 and rng.random() < 0.2:
        return b"\x00" * 10 + b"\xff\xff" + rbytes(rng, 4)
    return rbytes(rng, n)


def rand_value(rng, maxlen=40, depth=0):
    """a canonical single RLP item"""
    c = rng.random()
    if c < 0.45:
        n = rng.choice([0, 1, 1, 2, 4, 8, 16, 20, 32, 33, 55, 56, 60]) if rng.random() < 0.5 else rng.randrange(0, maxlen + 1)
        n = min(n, maxlen)
        b = rbytes(rng, n)
        if n == 1 and rng.random() < 0.5:
            b = bytes([rng.choice([0, 1, 0x7F, 0x80, 0xFF])])
        return rlp_str(b)
    if c < 0.6:
        return rlp_uint(rng.choice(PORT_POOL + SEQ_POOL))
    if c < 0.7:
        return b"\xc0"
    items = b""
    for _ in range(rng.randrange(1, 4)):
        if depth < 2 and rng.random() < 0.3:
            items += rand_value(rng, 8, depth + 1)
        else:
            items += rlp_str(rbytes(rng, rng.randrange(0, 9)))
    items = items[:max(0, maxlen)]  # may cut an inner item: inner bytes of a list are unconstrained
    if rng.random() < 0.15:
        items = rbytes(rng, rng.randrange(1, 6))   # a correctly framed list around bytes that are not items at all
    return rlp_list(items)


def neg_secret(s):
    """the secp256k1 secret n - d: its public key has the same x coordinate and the other parity"""
    d = int.from_bytes(s, "big")
    return (SECP_N - d).to_bytes(32, "big") if 0 < d < SECP_N else None


def secrets(rng, oracle, kt, n):
    out = []
    base = [bytes.fromhex("b71c71a67e1177ad4e901695e1b4b9ee17ae16c6668d313eac2f96dbcda3f291"), b"\x01" * 32, (1).to_bytes(32, "big"),
            (2).to_bytes(32, "big")]
    rng.shuffle(base)
    base += [rbytes(rng, 32) for _ in range(n)]
    # every secp256k1 secret may be followed by its negation: keys d and n-d share x and differ in the parity byte only
    fixed = []
    for j, sdat in enumerate(base):
        variant = None
        if kt == "comb":
            variant = "secp" if j % 2 == 0 else "ed"
        fixed.append((sdat, variant))
        ns = neg_secret(sdat)
        if ns and variant != "ed" and kt not in ("ed", "toy") and rng.random() < 0.6:
            fixed.append((ns, variant))
    i = 0
    while len(out) < n:
        s, variant = fixed[i] if i < len(fixed) else (rbytes(rng, 32), ("secp" if rng.random() < 0.5 else "ed") if kt == "comb" else None)
        i += 1
        k = Key(oracle, kt, s, variant, sched=rng.choice(["0", "0,3,1", "40,0", "5"]))
        if k.pub is not None:
            out.append(k)
    return out


def base_pairs(rng, key, want_size=None):
    """pairs (key, raw value) of a valid record signed by `key`"""
    pairs = {b"id": rlp_str(b"v4"), key.entry: rlp_str(key.pub)}
    if rng.random() < 0.6:
        pairs[b"ip"] = rlp_str(rbytes(rng, 4))
    if rng.random() < 0.3:
        pairs[b"ip6"] = rlp_str(rbytes(rng, 16))
    for pk in (b"tcp", b"udp", b"tcp6", b"udp6"):
        if rng.random() < 0.35:
            pairs[pk] = rlp_uint(rng.choice(PORT_POOL) if rng.random() < 0.6 else rng.randrange(65536))
    if rng.random() < 0.15:
        strs = [b"Nethermind", b"1.9.53"] + ([b"7fcb567"] if rng.random() < 0.5 else [])
        pairs[b"client"] = rlp_list(b"".join(rlp_str(s) for s in strs))
    for _ in range(rng.choice([0, 0, 1, 1, 2, 3])):
        k = rng.choice(CUSTOM_KEYS) if rng.random() < 0.8 else rbytes(rng, rng.randrange(1, 6))
        if k in RESERVED or k == key.entry or k == b"toy":
            continue
        pairs[k] = rand_value(rng, 30)
    return pairs


def enc_len(seq, pairs, siglen=64):
    body = rlp_uint(seq) + b"".join(rlp_str(k) + v for k, v in pairs.items())
    return len(rlp_list(rlp_str(b"\x00" * siglen) + body))


def pad_to(rng, seq, pairs, target, siglen=64):
    """adds/adjusts a filler pair so that the encoded size hits `target` exactly if possible"""
    pairs = dict(pairs)
    pairs.pop(b"zfill", None)
    for n in range(0, 260):
        pairs[b"zfill"] = rlp_str(b"x" * n)
        if n == 1:
            pairs[b"zfill"] = rlp_str(b"\x81")
        if enc_len(seq, pairs, siglen) == target:
            return pairs
        if enc_len(seq, pairs, siglen) > target:
            break
    pairs.pop(b"zfill", None)
    return pairs if enc_len(seq, pairs, siglen) == target else None


def valid_records(rng, oracle, kt, n, keys=None):
    """list of dicts: bytes, key, seq, pairs(list sorted), content, sig"""
    keys = keys or secrets(rng, oracle, kt, 3)
    out = []
    for i in range(n):
        key = rng.choice(keys)
        seq = rng.choice(SEQ_POOL) if rng.random() < 0.6 else rng.randrange(2**64)
        pairs = base_pairs(rng, key)
        siglen = 16 if key.scheme == "toy" else 64
        if rng.random() < 0.25:
            p2 = pad_to(rng, seq, pairs, rng.choice([300, 300, 299, 298, 256 + 3, 255 + 3, 57, 58]), siglen)
            if p2:
                pairs = p2
        if enc_len(seq, pairs, siglen) > 300:
            pairs = {k: v for k, v in pairs.items() if k in (b"id", key.entry, b"ip", b"udp")}
        pl = sorted(pairs.items())
        b, content, sig = record_bytes(oracle, key, seq, pl)
        out.append({"bytes": b, "key": key, "seq": seq, "pairs": pl, "content": content, "sig": sig})
    return out


# ---------------------------------------------------------------- structural mutations, re-signed (C02)

def structural_mutants(rng, oracle, rec):
    """yields (label, bytes): each violates (or sits exactly on) one structural rule and is signed over the mutated content"""
    key, seq, pl = rec["key"], rec["seq"], list(rec["pairs"])
    mk = lambda pairs, **kw: record_bytes(oracle, key, kw.pop("seq", seq), pairs, sort=kw.pop("sort", False), **kw)[0]
    d = dict(pl)
    out = []
    if len(pl) >= 2:
        i = rng.randrange(len(pl) - 1)
        sw = list(pl)
        sw[i], sw[i + 1] = sw[i + 1], sw[i]
        out.append(("unsorted", mk(sw)))
        out.append(("duplicate_key", mk(pl[:i + 1] + [pl[i]] + pl[i + 1:])))
    # missing value after the last key
    body = rlp_uint(seq) + b"".join(rlp_str(k) + v for k, v in pl) + rlp_str(b"zz")
    content = rlp_list(body)
    sg = key.sign(oracle, content)
    out.append(("missing_value", rlp_list(rlp_str(sg) + body)))
    nd = dict(d); nd.pop(b"id"); out.append(("no_id", mk(sorted(nd.items()))))
    if getattr(key, "pub_unc", None):
        for lab, enc in (("pubkey_raw_xy", key.pub_unc[1:]), ("pubkey_uncompressed_signed", key.pub_unc), ("pubkey_hybrid", bytes([6 + (key.pub_unc[-1] & 1)]) + key.pub_unc[1:])):
            nd = dict(d); nd[key.entry] = rlp_str(enc); out.append((lab, mk(sorted(nd.items()))))
        # the uncompressed form with a y that is NOT on the curve but has the right parity (compressing first would hide it)
        y = bytearray(key.pub_unc[33:])
        y[rng.randrange(0, 31)] ^= 1 << rng.randrange(8)
        nd = dict(d); nd[key.entry] = rlp_str(key.pub_unc[:33] + bytes(y)); out.append(("pubkey_uncompressed_offcurve_same_parity", mk(sorted(nd.items()))))
    nd = dict(d); nd[b"id"] = rlp_str(rng.choice([b"v5", b"v", b"v4 ", b"", b"V4"])); out.append(("other_id", mk(sorted(nd.items()))))
    nd = dict(d); nd[b"id"] = rlp_list(rlp_str(b"v4")); out.append(("id_list", mk(sorted(nd.items()))))
    nd = dict(d); nd.pop(key.entry); out.append(("no_pubkey", mk(sorted(nd.items()))))
    pub = key.pub
    bad_pubs = [pub[:-1], pub + b"\x00", b"", bytes([pub[0] ^ 0x04]) + pub[1:], rbytes(rng, len(pub)), pub[:1] + b"\xff" * (len(pub) - 1),
                pub[:1] + b"\x00" * (len(pub) - 1)]
    for bp in rng.sample(bad_pubs, 3):
        nd = dict(d); nd[key.entry] = rlp_str(bp); out.append(("bad_pubkey", mk(sorted(nd.items()))))
    nd = dict(d); nd[key.entry] = rlp_list(rlp_str(pub)); out.append(("pubkey_list", mk(sorted(nd.items()))))
    # ill-typed reserved values
    for k, bad in [(b"ip", rlp_str(rbytes(rng, rng.choice([3, 5, 0, 16])))), (b"ip6", rlp_str(rbytes(rng, rng.choice([4, 15, 17])))),
                   (b"ip", rlp_list(rlp_str(b"\x7f\x00\x00\x01"))),
                   (rng.choice([b"tcp", b"udp", b"tcp6", b"udp6"]), rng.choice([rlp_uint(65536), rlp_uint(70000), b"\x82\x00\x50", b"\x00", b"\x81\x00", rlp_list(b"\x50"), rlp_str(b"\x01\x00\x00")]))]:
        nd = dict(d); nd[k] = bad; out.append(("illtyped_" + k.decode(), mk(sorted(nd.items()))))
    # well-typed boundary values (must be accepted)
    nd = dict(d); nd[b"tcp"] = rlp_uint(rng.choice([0, 127, 128, 65535])); out.append(("port_boundary", mk(sorted(nd.items()))))
    # non-canonical framing of a custom value / key
    for bad in [b"\x81\x05", b"\xb8\x03abc", b"\xb8\x00", b"\xf8\x01\x05", b"\xb9\x00\x38" + b"a" * 56, b"\x83ab", b"\xc3\x01\x02"]:
        nd = sorted(d.items()) + [(b"zzz", bad)]
        out.append(("noncanonical_value", mk(nd)))
    body = rlp_uint(seq) + b"".join(rlp_str(k) + v for k, v in pl) + b"\x81\x61" + rlp_str(b"v")
    content = rlp_list(body); sg = key.sign(oracle, content)
    out.append(("noncanonical_key", rlp_list(rlp_str(sg) + body)))
    body = rlp_uint(seq) + b"".join(rlp_str(k) + v for k, v in pl) + rlp_list(b"zzz") + rlp_str(b"v")
    content = rlp_list(body); sg = key.sign(oracle, content)
    out.append(("list_key", rlp_list(rlp_str(sg) + body)))
    # sequence number framing
    for sr in [b"\x82\x00\x01", b"\x00", b"\x81\x00", b"\x89\x01" + b"\x00" * 8, b"\x88" + b"\xff" * 8, b"\xc1\x01", b"\x81\x7f"]:
        out.append(("seq_framing", mk(pl, seq_raw=sr)))
    # signature framing
    out.append(("sig_list", record_bytes(oracle, key, seq, pl, sort=False, sig_raw=rlp_list(rec["sig"]))[0]))
    # outer framing
    good = rec["bytes"]
    inner = good[len(rlp_hdr(True, 0)) if good[0] < 0xF8 else 1 + (good[0] - 0xF7):]
    out.append(("outer_string", rlp_hdr(False, len(inner)) + inner))
    out.append(("outer_short", rlp_hdr(True, len(inner) - 1) + inner))
    out.append(("outer_long", rlp_hdr(True, len(inner) + 1) + inner))
    out.append(("outer_noncanon", (b"\xf8" + bytes([len(inner)]) + inner) if len(inner) < 56 else (b"\xf9\x00" + bytes([len(inner) % 256]) + inner)))
    out.append(("empty_list", b"\xc0"))
    out.append(("tiny_list", rlp_list(rlp_str(rec["sig"]))))
    out.append(("tiny_list2", rlp_list(rlp_str(rec["sig"]) + rlp_uint(seq))))
    # item overrunning the list
    body = rlp_uint(seq) + b"".join(rlp_str(k) + v for k, v in pl) + rlp_str(b"zzz") + b"\x85ab"
    content = rlp_list(body); sg = key.sign(oracle, content)
    out.append(("overrun", rlp_list(rlp_str(sg) + body)))
    # size sweep around the limit
    siglen = len(rec["sig"])
    for target in (298, 299, 300, 301, 302, 303, 310):
        p2 = pad_to(rng, seq, d, target, siglen)
        if p2:
            out.append(("size_%d" % target, mk(sorted(p2.items()))))
    return out


# ---------------------------------------------------------------- tampering without re-signing (C01)

def tampers(rng, oracle, rec, others, n_flips=None):
    b = rec["bytes"]
    out = []
    bits = list(range(len(b) * 8))
    if n_flips is not None and n_flips < len(bits):
        bits = rng.sample(bits, n_flips)
    for i in bits:
        m = bytearray(b); m[i // 8] ^= 1 << (i % 8)
        out.append(("bitflip", bytes(m)))
    for _ in range(12):
        i = rng.randrange(len(b))
        m = bytearray(b); m[i] = rng.getrandbits(8); out.append(("byte_edit", bytes(m)))
        out.append(("insertion", b[:i] + bytes([rng.getrandbits(8)]) + b[i:]))
        out.append(("deletion", b[:i] + b[i + 1:]))
        out.append(("truncation", b[:i]))
    key, seq, pl = rec["key"], rec["seq"], rec["pairs"]
    for o in others[:3]:
        if o["key"].scheme == key.scheme and o["key"].secret != key.secret:
            # signed by a different key, public key entry kept
            sg = o["key"].sign(oracle, rec["content"])
            out.append(("wrong_key", record_bytes(oracle, key, seq, pl, sort=False, sig=sg)[0]))
        out.append(("sig_of_other_record", record_bytes(oracle, key, seq, pl, sort=False, sig=o["sig"])[0]))
    # signed over different content
    other_seq = (seq + 1) % 2**64
    out.append(("other_content", record_bytes(oracle, key, other_seq, pl, sort=False, sig=rec["sig"])[0]))
    sg = rec["sig"]
    if key.scheme == "k" and len(sg) == 64:
        s = int.from_bytes(sg[32:], "big")
        twin = sg[:32] + (SECP_N - s).to_bytes(32, "big")
        out.append(("high_s_twin", record_bytes(oracle, key, seq, pl, sort=False, sig=twin)[0]))
        out.append(("zero_r", record_bytes(oracle, key, seq, pl, sort=False, sig=b"\x00" * 32 + sg[32:])[0]))
        out.append(("r_plus_n", record_bytes(oracle, key, seq, pl, sort=False, sig=((int.from_bytes(sg[:32], "big") + SECP_N) % 2**256).to_bytes(32, "big") + sg[32:])[0]))
    for bad in (sg[:-1], sg + b"\x00", b"", sg[:32], sg + sg):
        out.append(("wrong_length_sig", record_bytes(oracle, key, seq, pl, sort=False, sig=bad)[0]))
    # one byte after / before the signature: recovery ids (0, 1, 27, 28, 31..34), sighash-like and other marker bytes
    for x in (0, 1, 2, 3, 27, 28, 29, 30, 31, 32, 35, 36, 0x80, 0x81, 0xff):
        out.append(("sig_plus_trailing_byte", record_bytes(oracle, key, seq, pl, sort=False, sig=sg + bytes([x]))[0]))
    for x in (0, 27, 28, 0x30, 0x04):
        out.append(("sig_plus_leading_byte", record_bytes(oracle, key, seq, pl, sort=False, sig=bytes([x]) + sg)[0]))
    if key.scheme == "k" and len(sg) == 64:
        # the same (r, s) in ASN.1 DER, as other tooling serialises signatures
        out.append(("der_sig", record_bytes(oracle, key, seq, pl, sort=False, sig=der_sig(sg))[0]))
        # a signature whose r has a leading zero byte, with that byte stripped (63 bytes)
        for dseq in range(0, 600):
            s2 = (seq + dseq) % 2**64
            content2 = record_bytes(oracle, key, s2, pl, sort=False)[1]
            sg2 = key.sign(oracle, content2)
            if sg2[0] == 0:
                out.append(("sig_leading_zero_stripped", record_bytes(oracle, key, s2, pl, sort=False, sig=sg2[1:])[0]))
                break
        # the public-key value swapped for another encoding of the same point, signature untouched
        if getattr(key, "pub_unc", None):
            pl2 = [(k, rlp_str(key.pub_unc) if k == key.entry else v) for k, v in pl]
            out.append(("pubkey_reencoded_unsigned", record_bytes(oracle, key, seq, pl2, sort=False, sig=sg)[0]))
    return out


def wire_malformed_signed_canonical(rng, oracle, rec):
    """malformed WIRE forms of a record carrying the signature of the corresponding canonical record: a decoder that
    parses leniently and verifies over its own normalised re-encoding accepts exactly these (and must not)"""
    key, seq, pl, sig = rec["key"], rec["seq"], list(rec["pairs"]), rec["sig"]
    d = dict(pl)
    out = []

    def wire(pairs, seq_raw=None):
        body = (seq_raw if seq_raw is not None else rlp_uint(seq)) + b"".join(rlp_str(k) + v for k, v in pairs)
        return rlp_list(rlp_str(sig) + body)

    if len(pl) >= 2:
        i = rng.randrange(len(pl) - 1)
        for j in (range(len(pl) - 1) if len(pl) <= 6 else [i]):
            sw = list(pl); sw[j], sw[j + 1] = sw[j + 1], sw[j]
            out.append(("wire_unsorted_sig_canonical", wire(sw)))
        out.append(("wire_duplicate_sig_canonical", wire(pl[:i + 1] + [pl[i]] + pl[i + 1:])))
        out.append(("wire_duplicate_first_sig_canonical", wire([pl[0]] + pl)))
    # non-canonical integers / lengths on the wire, honest signature
    if seq > 0:
        out.append(("wire_seq_leading_zero_sig_canonical", wire(pl, seq_raw=rlp_str(b"\x00" + be(seq)))))
    # an over-wide sequence number whose low 64 bits are the signed one (a decoder that folds the bytes into a
    # u64 without bounding the width accepts it as the signed record)
    for width in (9, 12, 16, 33, 64):
        hi = bytes([rng.randrange(1, 256)]) + bytes(width - 9) if width > 9 else bytes([rng.randrange(1, 256)])
        out.append(("wire_seq_overwide%d_low64_signed" % width, wire(pl, seq_raw=rlp_str(hi + seq.to_bytes(8, "big")))))
    for k in (b"tcp", b"udp", b"tcp6", b"udp6"):
        if k in d:
            port = int.from_bytes(d[k][1:] if d[k][0] >= 0x80 else d[k], "big") if d[k] != b"\x80" else 0
            for lab, v in (("leading_zero", rlp_str(b"\x00" + be(port))), ("wide", rlp_str(be(port + 65536))), ("wide8", rlp_str(be(port + 2**56)))):
                p2 = [(kk, v if kk == k else vv) for kk, vv in pl]
                out.append(("wire_port_%s_sig_canonical" % lab, wire(p2)))
            break
    # a short string in long form
    for idx, (k, v) in enumerate(pl):
        if 0x81 <= v[0] <= 0xB7:
            n = v[0] - 0x80
            p2 = list(pl); p2[idx] = (k, b"\xb8" + bytes([n]) + v[1:])
            out.append(("wire_long_form_short_string_sig_canonical", wire(p2)))
            break
    return out


def _split_item(item):
    """(is_list, payload) of a canonically framed item"""
    b0 = item[0]
    if b0 < 0x80:
        return False, item
    if b0 < 0xB8:
        return False, item[1:]
    if b0 < 0xC0:
        return False, item[1 + b0 - 0xB7:]
    if b0 < 0xF8:
        return True, item[1:]
    return True, item[1 + b0 - 0xF7:]


def item_deformations(item):
    """(label, bytes): every non-canonical or mis-typed framing of one canonically framed RLP item that carries the same
    payload, plus off-by-one lengths and integer re-writings"""
    is_list, p = _split_item(item)
    base = 0xC0 if is_list else 0x80
    n = len(p)
    out = []
    nb = n.to_bytes(max(1, (n.bit_length() + 7) // 8), "big")
    if n < 56:
        out.append(("long_form_for_short", bytes([base + 0x37 + len(nb)]) + nb + p))
    out.append(("length_with_leading_zero", bytes([base + 0x37 + len(nb) + 1]) + b"\x00" + nb + p))
    if not is_list and n == 1 and p[0] < 0x80 and item == p:
        out.append(("single_byte_wrapped", b"\x81" + p))
    if not is_list:
        out.append(("payload_leading_zero", rlp_str(b"\x00" + p)))
        out.append(("payload_widened_9", rlp_str(b"\x01" + bytes(max(0, 8 - n)) + p)))
        out.append(("payload_widened_3", rlp_str(b"\x01" + bytes(max(0, 2 - n)) + p)))
        if n == 0:
            out.append(("zero_as_00", b"\x00"))
        out.append(("string_as_list", rlp_list(p)))
        out.append(("string_as_list_of_string", rlp_list(item)))
    else:
        out.append(("list_as_string", rlp_str(p)))
    if n + 1 < 56 or n >= 56:
        h1 = rlp_hdr(is_list, n + 1)
        out.append(("length_plus_one", h1 + p))
    if n >= 1 and not (not is_list and n == 1 and p[0] < 0x80 and item == p):
        h2 = rlp_hdr(is_list, n - 1)
        out.append(("length_minus_one", h2 + p))
    return out


def rlp_deformation_matrix(rng, oracle, rec, limit=None):
    """(label, bytes): each item of the record (signature, sequence number, every key, every value) and the outer list, in
    every deformed framing of item_deformations, the rest of the record untouched; signed (a) over the canonical
    content of the ORIGINAL record and (b) over the content exactly as on the wire. The model decides what each is."""
    key, seq, pl, sig = rec["key"], rec["seq"], list(rec["pairs"]), rec["sig"]
    items = [("seq", rlp_uint(seq))]
    for k, v in pl:
        items.append(("key_" + k.hex()[:8], rlp_str(k)))
        items.append(("val_" + k.hex()[:8], v))
    out = []
    for idx, (name, it) in enumerate(items):
        for lab, bad in item_deformations(it):
            body = b"".join(bad if j == idx else x for j, (_, x) in enumerate(items))
            wire_content = rlp_list(body)
            out.append(("deform_%s_%s_sig_canonical" % (name.split("_")[0], lab), rlp_list(rlp_str(sig) + body)))
            sg2 = key.sign(oracle, wire_content)
            out.append(("deform_%s_%s_sig_wire" % (name.split("_")[0], lab), rlp_list(rlp_str(sg2) + body)))
    canon_body = b"".join(x for _, x in items)
    for lab, bad in item_deformations(rlp_str(sig)):
        out.append(("deform_sig_%s" % lab, rlp_list(bad + canon_body)))
    for lab, bad in item_deformations(rlp_list(rlp_str(sig) + canon_body)):
        out.append(("deform_outer_%s" % lab, bad))
    if limit and len(out) > limit:
        out = rng.sample(out, limit)
    return out


def honest_with_duplicates(rng, oracle, key, seq, base):
    """the legal empty key (and an ordinary key) repeated at the front / in the middle: both signed over the wire bytes
    and signed over the de-duplicated record (first value / last value)"""
    out = []
    for dk in (b"", b"a", b"zz"):
        v1, v2 = rlp_str(rbytes(rng, 2)), rlp_str(rbytes(rng, 3))
        rest = [(k, v) for k, v in sorted(base.items()) if k != dk]
        wire_pairs = sorted(rest + [(dk, v1)]) 
        i = [k for k, _ in wire_pairs].index(dk)
        dup = wire_pairs[:i] + [(dk, v1), (dk, v2)] + wire_pairs[i + 1:]
        for lab, signed in (("wire", dup), ("last", wire_pairs[:i] + [(dk, v2)] + wire_pairs[i + 1:]), ("first", wire_pairs)):
            content = rlp_list(rlp_uint(seq) + b"".join(rlp_str(k) + v for k, v in signed))
            sg = key.sign(oracle, content)
            body = rlp_uint(seq) + b"".join(rlp_str(k) + v for k, v in dup)
            out.append(("duplicate_key_%s_signed_over_%s" % (dk.hex() or "empty", lab), rlp_list(rlp_str(sg) + body)))
    return out


# entry names seen in records in the wild (none of them reserved by EIP-778: any single RLP item is a legal value)
WELLKNOWN_KEYS = [b"quic", b"quic6", b"eth", b"eth2", b"attnets", b"syncnets", b"snap", b"les", b"opstack", b"nfd", b"csc", b"cgc",
                  b"client", b"v", b"c", b"mp", b"ws", b"wss", b"p2p", b"rpc", b"dns", b"dns4", b"dns6", b"port", b"tcp4", b"udp4", b"ip4"]
ANY_ITEM_VALUES = [b"\x80", b"\x83\x01\x00\x00", b"\x82\x00\x50", b"\xc0", b"\xc2\x01\x02", b"\x91" + b"\x07" * 17, b"\x85hello", b"\x05",
                   b"\x84\x01\x02\x03\x04", b"\x90" + b"\x09" * 16, b"\xc5\x84\x01\x02\x03\x04", b"\x81\xff", b"\x88" + b"\xff" * 8]


def wellknown_keys_any_value(rng, oracle, key, seq, base, per_key=3):
    """valid records: an entry name that is popular but NOT reserved, holding values that would be ill-typed for a
    port / an address (a library that starts validating such a name rejects well-formed records)"""
    out = []
    for wk in WELLKNOWN_KEYS:
        for v in rng.sample(ANY_ITEM_VALUES, per_key):
            pairs = dict(base)
            pairs[wk] = v
            out.append(("wellknown_%s_any_item" % wk.decode(), record_bytes(oracle, key, seq, sorted(pairs.items()))[0]))
    return out


# ed25519 secrets whose 32-byte public key begins with 02/03 and is, with one more byte, a valid compressed secp256k1
# point (found by grinding ~230 keys once): a comparison of two public-key encodings that stops at the shorter one
# takes the 33-byte point for the 32-byte key
ED_PREFIX_OF_SECP = [("0def64a4cff06ad79fd016c35054858903e44795d0cb19f7c949a2bb3a432ddf", "039c4b9432174068260e8d689faed7bfa327062c91e067cc99b78f832ee25313", 0),
                     ("758993eaef69555d670bd43084018b2be7f300c270e3cd1885f857401be6aec0", "02b3bbf71b67e512a22273de6bd49bcfd4186b62c0795981395d42ed50b14f65", 1)]


# small secrets whose public key has a special first byte (of x for secp256k1, of the key for ed25519): SEC1 tags
# 00/02/03/04/06/07, '0', 0x80, 0xff, 0x01 — a conversion that strips or interprets a leading tag byte goes wrong on
# exactly these (found by grinding secrets 1..6000 once)
SECP_X_FIRST_BYTE = {255: 6, 128: 39, 4: 45, 1: 60, 7: 66, 48: 102, 3: 133, 0: 153, 6: 230, 2: 441}
ED_PUB_FIRST_BYTE = {2: 20, 0: 36, 1: 54, 255: 94, 6: 120, 3: 213, 48: 222, 4: 242, 128: 641, 7: 1708}


def special_first_byte_keys(oracle, kt):
    import enrlib
    out = []
    if kt in ("k256", "libsecp", "comb"):
        out += [enrlib.Key(oracle, kt, i.to_bytes(32, "big"), "secp" if kt == "comb" else None) for i in SECP_X_FIRST_BYTE.values()]
    if kt in ("ed", "comb"):
        out += [enrlib.Key(oracle, kt, i.to_bytes(32, "big"), "ed" if kt == "comb" else None) for i in ED_PUB_FIRST_BYTE.values()]
    return [k for k in out if k.pub is not None]


def boundary_records(rng, oracle, kt, keys=None):
    """valid records whose keys / values sit on RLP framing boundaries: key lengths 0, 1 (< 0x80 and >= 0x80), 55, 56,
    57; string values of 0, 1, 55, 56 bytes; lists of 55 / 56 payload bytes; the same record for every shape"""
    key = (keys or secrets(rng, oracle, kt, 1))[0]
    siglen = 16 if key.scheme == "toy" else 64
    out = []
    shapes = [(b"", rlp_str(b"x")), (b"\x05", rlp_str(b"")), (b"\x80", rlp_str(b"\x7f")), (b"\xff", rlp_str(b"\x80")),
              (b"k" * 55, rlp_str(b"v")), (b"k" * 56, rlp_str(b"v")), (b"k" * 57, rlp_str(b"v")), (b"m" * 100, rlp_str(b"")),
              (b"v55", rlp_str(b"v" * 55)), (b"v56", rlp_str(b"v" * 56)), (b"l55", rlp_list(rlp_str(b"w" * 53))), (b"l56", rlp_list(rlp_str(b"w" * 54))),
              (b"p" * 17 + b"1x", rlp_str(b"a")), (b"p" * 17 + b"2", rlp_str(b"b"))]
    for i, (k, v) in enumerate(shapes):
        pairs = {b"id": rlp_str(b"v4"), key.entry: rlp_str(key.pub), k: v}
        if i % 3 == 0:
            pairs[b"ip"] = rlp_str(rbytes(rng, 4))
        seq = rng.choice(SEQ_POOL)
        if enc_len(seq, pairs, siglen) > 300:
            continue
        pl = sorted(pairs.items())
        b, content, sig = record_bytes(oracle, key, seq, pl)
        out.append({"bytes": b, "key": key, "seq": seq, "pairs": pl, "content": content, "sig": sig})
    # two long keys sharing a 16-byte prefix, in both orders of length
    pairs = {b"id": rlp_str(b"v4"), key.entry: rlp_str(key.pub), b"q" * 16 + b"9": rlp_str(b"a"), b"q" * 16 + b"10": rlp_str(b"b")}
    pl = sorted(pairs.items())
    b, content, sig = record_bytes(oracle, key, 7, pl)
    out.append({"bytes": b, "key": key, "seq": 7, "pairs": pl, "content": content, "sig": sig})
    return out


def many_pairs_records(rng, oracle, key):
    """(label, bytes): records made of as many 2-byte pairs as fit (one-byte keys, one-byte values), around every count
    from 60 to the maximum — valid; the same with an UNSIGNED pair, or bytes that are no RLP item, appended inside the
    list after the last signed pair (the outer header re-framed) — must be rejected"""
    out = []
    siglen = 16 if key.scheme == "toy" else 64
    small = [(b"", b"\x01")] + [(bytes([i]), bytes([rng.randrange(1, 0x80)])) for i in range(0x00, 0x68)]   # all sort before "id"
    for n in (8, 40, 60, 70, 73, 74, 75, 76, 77, 80, 85, 90, 95, 100):
        pairs = dict(small[:max(0, n - 2)])
        pairs[b"id"] = rlp_str(b"v4")
        pairs[key.entry] = rlp_str(key.pub)
        if enc_len(3, pairs, siglen) > 300:
            continue
        pl = sorted(pairs.items())
        good, content, sig = record_bytes(oracle, key, 3, pl)
        out.append(("valid_%d_pairs" % len(pl), good))
        body = rlp_uint(3) + b"".join(rlp_str(k) + v for k, v in pl)
        for lab, extra in (("unsigned_pair_appended", rlp_str(b"t") + b"\x2a"), ("garbage_appended_inside_list", b"\xbf\xff\xff"),
                           ("unsigned_key_without_value_appended", rlp_str(b"zz"))):
            payload = rlp_str(sig) + body + extra
            if len(rlp_list(payload)) <= 300:
                out.append(("%d_pairs_%s" % (len(pl), lab), rlp_list(payload)))
    return out


def mislabelled_key_entries(rng, oracle):
    """records whose only key entry sits under the OTHER scheme's name (signed by that key over exactly that content),
    and a secp256k1 entry carrying its string header twice: no key type accepts any of them"""
    import enrlib
    out = []
    edk = enrlib.Key(oracle, "ed", rbytes(rng, 32))
    sk = enrlib.Key(oracle, "k256", rbytes(rng, 32))
    while sk.pub is None:
        sk = enrlib.Key(oracle, "k256", rbytes(rng, 32))
    for seq in (1, 300):
        out.append(("ed25519_key_under_secp256k1_name", record_bytes(oracle, edk, seq, [(b"id", rlp_str(b"v4")), (b"secp256k1", rlp_str(edk.pub))])[0]))
        out.append(("secp256k1_key_under_ed25519_name", record_bytes(oracle, sk, seq, [(b"id", rlp_str(b"v4")), (b"ed25519", rlp_str(sk.pub))])[0]))
        out.append(("secp256k1_entry_double_framed", record_bytes(oracle, sk, seq, [(b"id", rlp_str(b"v4")), (b"secp256k1", rlp_str(rlp_str(sk.pub)))])[0]))
        out.append(("ed25519_entry_double_framed", record_bytes(oracle, edk, seq, [(b"id", rlp_str(b"v4")), (b"ed25519", rlp_str(rlp_str(edk.pub)))])[0]))
    return out


NEIGHBOURS = {b"udp6": [b"udp4", b"udp-", b"udp\x00", b"udp5"], b"udp": [b"uc", b"udo", b"ud"], b"tcp6": [b"tcp5", b"tcp\x00", b"tcp-x"], b"tcp": [b"tco", b"tc", b"t"],
              b"ip6": [b"ip5", b"ip\x00", b"ip-"], b"ip": [b"io", b"i", b"id2", b"idx"], b"id": [b"ic", b"i", b"hz"]}


def ill_typed_after_neighbour(rng, oracle, key, seq, base):
    """an ill-typed reserved value directly preceded (in key order) by a custom key that sorts just before it"""
    out = []
    bad = {b"udp6": [b"\x83\x01\x00\x00", b"\x82\x00\x50", b"\xc1\x01"], b"udp": [b"\x83\x01\x00\x00", b"\x82\x00\x50"], b"tcp6": [b"\x83\x01\x00\x00", b"\xc0"],
           b"tcp": [b"\x83\x01\x00\x00"], b"ip6": [b"\x84\x01\x02\x03\x04", b"\x91" + b"\x01" * 17], b"ip": [b"\x85\x01\x02\x03\x04\x05", b"\x83\x01\x02\x03"], b"id": [b"\x82v5", b"\xc2v4"]}
    for rk, nbs in NEIGHBOURS.items():
        nb = rng.choice(nbs)
        for b in bad[rk][:2]:
            pairs = dict(base)
            pairs[nb] = rlp_str(rbytes(rng, 2))
            pairs[rk] = b
            out.append(("ill_typed_%s_after_%s" % (rk.decode(), nb.hex()), record_bytes(oracle, key, seq, sorted(pairs.items()))[0]))
        ok = dict(base); ok[nb] = rlp_str(rbytes(rng, 2))
        out.append(("valid_with_neighbour_key", record_bytes(oracle, key, seq, sorted(ok.items()))[0]))
    return out


def huge_records(rng, oracle, key, sizes=(65536 + 250, 65536 + 300, 65536, 65536 + 301, 2 * 65536 + 100, 70000)):
    """correctly signed records far above the limit whose length is small modulo 2^16"""
    out = []
    for total in sizes:
        pairs = {b"id": rlp_str(b"v4"), key.entry: rlp_str(key.pub)}
        lo, hi = 0, total
        # find the filler length that gives exactly `total` bytes
        for n in range(max(0, total - 200), total):
            pairs[b"zfill"] = rlp_str(b"x" * n)
            if enc_len(7, pairs, 16 if key.scheme == "toy" else 64) == total:
                break
        out.append(("huge_%d" % total, record_bytes(oracle, key, 7, sorted(pairs.items()))[0]))
    return out


def der_int(b):
    b = b.lstrip(b"\x00") or b"\x00"
    if b[0] & 0x80:
        b = b"\x00" + b
    return b"\x02" + bytes([len(b)]) + b


def der_sig(sg):
    body = der_int(sg[:32]) + der_int(sg[32:])
    return b"\x30" + bytes([len(body)]) + body


# ed25519 keys that are encodings of the neutral element (canonical and non-canonical): with the signature
# (R = neutral, S = 0) the verification equation holds for every message under non-strict verification
WEAK_ED_KEYS = [b"\x01" + b"\x00" * 31, b"\x01" + b"\x00" * 30 + b"\x80", b"\xee" + b"\xff" * 30 + b"\x7f",
                b"\xec" + b"\xff" * 30 + b"\x7f", b"\x00" * 32, b"\x00" * 31 + b"\x80"]
WEAK_ED_SIG = b"\x01" + b"\x00" * 31 + b"\x00" * 32


def weak_ed_records(rng):
    """records keyed by small-order / non-canonically encoded ed25519 points; whether they are valid is the
    library's (lenient) verification's call: every key type must give the same answer as the library asked directly"""
    out = []
    for pk in WEAK_ED_KEYS:
        pairs = {b"id": rlp_str(b"v4"), b"ed25519": rlp_str(pk)}
        if rng.random() < 0.5:
            pairs[b"ip"] = rlp_str(rbytes(rng, 4))
        body = rlp_uint(rng.choice([1, 7, 300])) + b"".join(rlp_str(k) + v for k, v in sorted(pairs.items()))
        out.append(rlp_list(rlp_str(WEAK_ED_SIG) + body))
    return out


def content_twin(rng, oracle, rec):
    """the record with one value changed (or one pair added) but the SAME seq, public key and signature:
    rejected when decoded on its own; a decoder that remembers "I verified this signature just now" accepts it
    right after the genuine record"""
    key, seq, pl = rec["key"], rec["seq"], list(rec["pairs"])
    d = dict(pl)
    c = rng.random()
    cand = [k for k in d if k not in (b"id", key.entry)]
    if cand and c < 0.6:
        k = rng.choice(cand)
        v = bytearray(d[k])
        if len(v) >= 1:
            v[-1] ^= 1
        d[k] = bytes(v)
        if d[k][:1] == b"\x81" and len(d[k]) == 2 and d[k][1] < 0x80:   # keep it canonical
            d[k] = bytes([d[k][1]])
    else:
        d[b"zz9"] = rlp_str(rbytes(rng, 3))
    return record_bytes(oracle, key, seq, sorted(d.items()), sort=False, sig=rec["sig"])[0]


def unstructured(rng, n):
    out = []
    for _ in range(n):
        c = rng.random()
        if c < 0.3:
            out.append(rbytes(rng, rng.randrange(0, 40)))
        elif c < 0.5:
            out.append(rbytes(rng, rng.randrange(40, 400)))
        elif c < 0.8:
            # RLP-shaped garbage
            items = b"".join(rand_value(rng, 20) for _ in range(rng.randrange(0, 8)))
            out.append(rlp_list(items))
        else:
            hdr = bytes([rng.choice([0xB8, 0xB9, 0xBF, 0xF8, 0xF9, 0xFF, 0xC0, 0xF7, 0x80, 0xB7])])
            out.append(hdr + rbytes(rng, rng.randrange(0, 20)))
    return out


# ---------------------------------------------------------------- text (C12)

def b64(b):
    return base64.urlsafe_b64encode(b).rstrip(b"=")


def text_edits(rng, recbytes):
    t = b"enr:" + b64(recbytes)
    body = t[4:]
    out = [("canonical", t), ("no_prefix", body)]
    out.append(("padding", t + b"="))
    out.append(("padding2", t + b"=="))
    std = base64.b64encode(recbytes).rstrip(b"=")
    out.append(("std_alphabet", b"enr:" + std))
    i = rng.randrange(len(body))
    out.append(("whitespace", b"enr:" + body[:i] + rng.choice([b" ", b"\n", b"\t"]) + body[i:]))
    out.append(("trailing_space", t + b" "))
    out.append(("leading_space", b" " + t))
    out.append(("append_char", t + bytes([rng.choice(b"ABCxyz019-_")])))
    out.append(("insert_char", b"enr:" + body[:i] + b"A" + body[i:]))
    out.append(("prefix_case", b"ENR:" + body))
    out.append(("prefix_other", rng.choice([b"enr", b"enr::", b"Enr:", b"rne:", b"enr-"]) + body))
    out.append(("double_prefix", b"enr:" + t))
    out.append(("non_alphabet", b"enr:" + body[:i] + rng.choice([b"+", b"/", b"=", b".", b"!", b"\xc3\xa9"]) + body[i + 1:]))
    # non-zero trailing bits: change the last character within the same leading bits
    alph = b"ABCDEFGHIJKLMNOPQRSTUVWXYZabcdefghijklmnopqrstuvwxyz0123456789-_"
    if len(recbytes) % 3 != 0:
        last = alph.index(body[-1])
        out.append(("trailing_bits", b"enr:" + body[:-1] + bytes([alph[last | 1]])))
        out.append(("trailing_bits2", b"enr:" + body[:-1] + bytes([alph[last | 2]])))
    for n in (1, 2, 3, rng.randrange(4, 40), 211, 212, 400, 700):
        out.append(("bytes_after_record", b"enr:" + b64(recbytes + rbytes(rng, n))))
    out.append(("bytes_after_record_zero", b"enr:" + b64(recbytes + b"\x00" * rng.choice([1, 2, 3, 300]))))
    for n in (1, 2, 3, 4, 5):
        out.append(("drop_last_chars", t[:-n]))
        out.append(("drop_last_chars_noprefix", body[:-n]))
    out.append(("short", rng.choice([b"", b"e", b"en", b"enr", b"enr:", b"AAA"])))
    out.append(("utf8", "enr:é".encode() + body))
    return out


def utf8_strings(rng, recbytes=None):
    """valid UTF-8 strings with multi-byte characters at every small byte offset (a parser that slices by byte
    offset meets a character boundary problem exactly there), with and without an enr: prefix / base64 body"""
    body = b64(recbytes) if recbytes else b"AAAA"
    chars = ["\u00e9", "\u20ac", "\U0001f600", "\u0131"]
    out = []
    for ch in chars:
        c = ch.encode()
        for pre in (b"", b"a", b"ab", b"abc", b"abcd", b"e", b"en", b"enr", b"enr:", b"enr:A", b"ENR"):
            out.append(pre + c)
            out.append(pre + c + body)
            out.append(pre + c + b":" + body)
    out.append("\u00e9\u00e9".encode())
    out.append("\u00e9\u00e9\u00e9".encode() + body)
    out.append(b"enr:" + body[:5] + "\u20ac".encode() + body[5:])
    return out


# ---------------------------------------------------------------- histories (C05..C10, C14, C15)

def tv(kind, arg):
    return "%s:%s" % (kind, arg)


def rand_tval(rng):
    c = rng.random()
    if c < 0.3:
        return tv("b", hx(rbytes(rng, rng.choice([0, 1, 1, 4, 5, 16, 17, 33, 8, 60]))))
    if c < 0.45:
        return tv("u16", rng.choice(PORT_POOL))
    if c < 0.6:
        return tv("u64", rng.choice(PORT_POOL + [65536, 70000, 2**32, 2**64 - 1]))
    if c < 0.7:
        return tv("s", hx(rng.choice([b"v4", b"v5", b"V4", b"v4 ", b"v", b"", b"hello", "é".encode(), b"a"])))
    if c < 0.85:
        return tv("l", ",".join(hx(rbytes(rng, rng.randrange(0, 6))) for _ in range(rng.randrange(1, 4))) if rng.random() < 0.9 else "-")
    if c < 0.93:
        return tv("ip4", rbytes(rng, 4).hex())
    return tv("ip6", rbytes(rng, 16).hex())


CLIENT_LIST = rlp_list(rlp_str(b"Nimbus") + rlp_str(b"v1.2.3"))
RAW_POOL = [b"\xc2\x81\x05", b"\xc1\x82", b"\xc3\xb8\x01\x00", b"\xc1\xc1", b"\xc2\xc1\x81", b"\xc4\x83\x00\x00\x01", b"\xc1\xb8", b"\xc2\x00\x81",
            b"\x82V4", b"\x83v4\x00", rlp_str(CLIENT_LIST), CLIENT_LIST, b"\x82ab", b"\xc2ab", b"", b"\x80", b"\x05", b"\x00", b"\x81\x05", b"\x81\x80", b"\x84\x01\x02\x03\x04", b"\x84\x01\x02\x03\x04\xff", b"\x01\x02",
            b"\xc0", b"\xc1\x80", b"\xc2\x01", b"\xc3\x01\x02", b"\x85ab", b"\xb8\x03abc", b"\x82\x00\x50", b"\x82\x76\x34", b"\x82\x76\x35",
            b"\x83\x01\x00\x00", b"\x90" + b"\x11" * 16, b"\x82\x01\x00\x82\x01\x00", b"\xf8\x38" + b"\x01" * 56, b"\xb8\x38" + b"a" * 56]


def near_valid_tval(rng, key, pubs):
    """typed values that are valid, or one step away from valid, for a reserved key"""
    if key == b"id":
        return rng.choice([tv("s", hx(b"v4")), tv("s", hx(b"V4")), tv("s", hx(b"v5")), tv("s", hx(b"v4 ")), tv("b", hx(b"v4")), tv("b", hx(b"V4")), tv("s", "-")])
    if key in (b"tcp", b"udp", b"tcp6", b"udp6"):
        return rng.choice([tv("u16", rng.choice(PORT_POOL)), tv("u64", rng.choice([80, 65535, 65536, 2**32])), tv("b", hx(b"\x00\x50")), tv("b", hx(b"\x76\x5f")), tv("b", "-"), tv("s", hx(b"80"))])
    if key == b"ip":
        return rng.choice([tv("ip4", raddr(rng, 4).hex()), tv("b", raddr(rng, 4).hex()), tv("b", rbytes(rng, 5).hex()), tv("b", rbytes(rng, 3).hex()), tv("ip6", raddr(rng, 16).hex())])
    if key == b"ip6":
        return rng.choice([tv("ip6", raddr(rng, 16).hex()), tv("b", raddr(rng, 16).hex()), tv("b", rbytes(rng, 15).hex()), tv("ip4", raddr(rng, 4).hex())])
    if key in (b"secp256k1", b"ed25519", b"toy"):
        return tv("b", hx(rng.choice(pubs + [b"xx", rbytes(rng, 33), rbytes(rng, 32)])))
    if key == b"client":
        return rng.choice([tv("l", "%s,%s" % (hx(b"Nimbus"), hx(b"v1"))), tv("l", "%s,%s,%s" % (hx(b"a"), hx(b"b"), hx(b"c"))), tv("l", hx(b"solo")),
                           tv("l", "%s,%s,%s,%s" % (hx(b"a"), hx(b"b"), hx(b"c"), hx(b"d"))), tv("b", hx(CLIENT_LIST)), tv("s", hx(b"Nimbus"))])
    return rand_tval(rng)


def rand_op(rng, keyslots, own_entry, pubs):
    """one op command line (without the leading 'op') — name slot fail args..."""
    slot = rng.choice(keyslots) if rng.random() < 0.25 else keyslots[0]
    fail = rng.choice(["1", "1", "3"]) if rng.random() < 0.07 else "0"
    def k_any():
        c0 = rng.random()
        if c0 < 0.12:
            return own_entry
        if c0 < 0.4:
            return rng.choice(RESERVED)
        return rng.choice(RESERVED + [own_entry] + CUSTOM_KEYS) if c0 < 0.9 else rbytes(rng, rng.randrange(0, 5))
    c = rng.random()
    if c < 0.06:
        return "set_seq %s %s %d" % (slot, fail, rng.choice(SEQ_POOL) if rng.random() < 0.7 else rng.randrange(2**64))
    if c < 0.22:
        k = k_any()
        return "insert %s %s %s %s" % (slot, fail, hx(k), near_valid_tval(rng, k, pubs) if rng.random() < 0.7 else rand_tval(rng))
    if c < 0.36:
        v = rng.choice(RAW_POOL) if rng.random() < 0.7 else rand_value(rng, 30)
        return "insert_raw %s %s %s %s" % (slot, fail, hx(k_any()), hx(v))
    if c < 0.42:
        return "set_ip %s %s %s" % (slot, fail, raddr(rng).hex())
    if c < 0.54:
        return "%s %s %s %d" % (rng.choice(["set_udp4", "set_udp6", "set_tcp4", "set_tcp6"]), slot, fail, rng.choice(PORT_POOL) if rng.random() < 0.7 else rng.randrange(65536))
    if c < 0.60:
        return "%s %s %s" % (rng.choice(["remove_udp4", "remove_udp6", "remove_tcp", "remove_tcp6"]), slot, fail)
    if c < 0.64:
        b = rng.choice(["none", hx(b"7fcb567"), hx(b"")])
        return "set_client_info %s %s %s %s %s" % (slot, fail, hx(rng.choice([b"Nethermind", b"", b"x" * 30, b"n" * 55, b"n" * 56, b"n" * 57, b"\x7f", "\u00e9".encode()])), hx(rng.choice([b"1.9.53", b"v", b"w" * 56, b"\x00"])), b)
    if c < 0.72:
        a = raddr(rng)
        ext = ""
        if len(a) == 16 and rng.random() < 0.35:
            ext = rng.choice(["%3", "%0^7", "%4294967295", "%1^1048575"])   # scope id / flow info: not part of what a record stores
        return "%s %s %s %s%s %d" % (rng.choice(["set_udp_socket", "set_tcp_socket"]), slot, fail, a.hex(), ext, rng.choice(PORT_POOL))
    if c < 0.78:
        return "%s %s %s" % (rng.choice(["remove_udp_socket", "remove_udp6_socket", "remove_tcp_socket", "remove_tcp6_socket"]), slot, fail)
    if c < 0.86:
        return "remove_key %s %s %s" % (slot, fail, hx(k_any()))
    if c < 0.96:
        rk = [hx(k_any()) for _ in range(rng.randrange(0, 3))]
        ik = []
        for _ in range(rng.randrange(0, 3)):
            k = k_any()
            if k == b"id":
                v = rng.choice([b"v4", b"v4", b"v5", b"V4"])
            elif k == b"client":
                v = rng.choice([CLIENT_LIST, b"Nimbus"])
            elif k in (b"tcp", b"udp", b"tcp6", b"udp6"):
                v = rng.choice([b"\x50", b"\x00\x50", b"", b"\x01\x00\x00", b"\x76\x5f"])
            elif k == b"ip":
                v = rbytes(rng, rng.choice([4, 4, 5]))
            elif k == b"ip6":
                v = rbytes(rng, rng.choice([16, 16, 4]))
            elif k in (b"secp256k1", b"ed25519", b"toy"):
                v = rng.choice(pubs + [b"xx", rbytes(rng, 33)])
            else:
                v = rbytes(rng, rng.randrange(0, 12))
            ik.append("%s:%s" % (hx(k), hx(v)))
        # the same key twice in one call (a later occurrence sees what the earlier one wrote), a key both removed and
        # inserted, a key removed twice
        if ik and rng.random() < 0.3:
            k0 = ik[rng.randrange(len(ik))].split(":")[0]
            ik.insert(rng.randrange(len(ik) + 1), "%s:%s" % (k0, hx(rbytes(rng, rng.randrange(0, 5)))))
        if ik and rng.random() < 0.2:
            rk.append(ik[0].split(":")[0])
        if rk and rng.random() < 0.2:
            rk.append(rk[0])
        return "remove_insert %s %s %s %s" % (slot, fail, ",".join(rk) or "none", ",".join(ik) or "none")
    return "set_public_key %s %s %s" % (slot, fail, rng.choice(keyslots))


def rand_bcalls(rng, pubs):
    out = []
    for _ in range(rng.choice([0, 1, 2, 3, 5])):
        c = rng.random()
        if c < 0.15:
            out.append("ip4/" + raddr(rng, 4).hex())
        elif c < 0.25:
            out.append("ip6/" + raddr(rng, 16).hex())
        elif c < 0.3:
            out.append("ip/" + raddr(rng).hex())
        elif c < 0.5:
            out.append("%s/%d" % (rng.choice(["tcp4", "tcp6", "udp4", "udp6"]), rng.choice(PORT_POOL)))
        elif c < 0.55:
            out.append("client/%s/%s/%s" % (hx(b"Nethermind"), hx(b"1.9.53"), rng.choice(["none", hx(b"7fcb567")])))
        elif c < 0.8:
            k = rng.choice(RESERVED + CUSTOM_KEYS)
            out.append("val/%s/%s" % (hx(k), near_valid_tval(rng, k, pubs) if rng.random() < 0.6 else rand_tval(rng)))
        else:
            k = rng.choice(RESERVED + CUSTOM_KEYS)
            v = rng.choice(RAW_POOL) if rng.random() < 0.6 else rand_value(rng, 30)
            if k in (b"secp256k1", b"ed25519") and rng.random() < 0.5:
                v = rlp_str(rng.choice(pubs))
            out.append("raw/%s/%s" % (hx(k), hx(v)))
    return out


def history(rng, oracle, kt, steps, start=None):
    """a self-contained case: key lines, an initial record (built or loaded), then `steps` ops with show/save lines"""
    ks = secrets(rng, oracle, kt, 4)
    rng.shuffle(ks)
    a = ks[0]
    same = [k for k in ks[1:] if k.scheme == a.scheme]
    other = [k for k in ks[1:] if k.scheme != a.scheme]
    slots = [("a", a)]
    if same:
        slots.append(("b", same[0]))
    if other and rng.random() < 0.3:
        slots.append(("c", other[0]))
    lines = ["key %s %s" % (s, k.spec) for s, k in slots]
    pubs = [k.pub for _, k in slots] + [bytes.fromhex("03ca634cae0d49acb401d8a4c6b6fe8c55b70d115bf400769cc1400f3258cd3138")]
    pubs += [k.pub_unc for _, k in slots if getattr(k, "pub_unc", None)]
    c = rng.random()
    if start is not None:
        lines.append(start)
    elif c < 0.5:
        seq = rng.choice(["-", str(rng.choice(SEQ_POOL))])
        lines.append("build a %s %s %s" % ("1" if rng.random() < 0.03 else "0", seq, " ".join(rand_bcalls(rng, pubs))))
    else:
        rec = valid_records(rng, oracle, kt, 1, keys=[a])[0]
        lines.append("load " + rec["bytes"].hex())
    names = [s for s, _ in slots]
    for _ in range(steps):
        if lines[-1].startswith("op ") and rng.random() < 0.15:
            # the same call again: an update that changes nothing but must still count as one (seq + 1, re-signed)
            t = lines[-1].split()
            t[3] = "0"
            lines.append(" ".join(t))
        else:
            lines.append("op " + rand_op(rng, names, a.entry, pubs))
    return [l.rstrip() for l in lines]
