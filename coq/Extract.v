(* Extract.v — extraction of the executable model to OCaml. ExtrOcamlBasic only: bool, option, unit,
   prod, list, sumbool map to OCaml's; N, positive, nat, Z stay the Coq datatypes. No Extract Constant. *)
Require Import Enr.Bytes Enr.Consts Enr.Rlp Enr.SortedMap Enr.Keccak Enr.Record Enr.Update Enr.Text Enr.NodeId Enr.CombinedKey.
Require Import Enr.Spec EnrProofs.RefineLemmas EnrProofs.Thm_Refine EnrProofs.Thm_Cause.
Require Import ExtrOcamlBasic.
Extraction Language OCaml.
Extraction "extracted/model.ml"
  bytes_eqb bytes_ltb be_val be_trim be_pad lenN
  hdr_decode hdr_encode dec_string dec_list dec_uint enc_string enc_uint enc_list enc_strings dec_vec_bytes dec_item
  sm_get sm_insert sm_remove
  keccak256
  k_id k_ip k_ip6 k_tcp k_tcp6 k_udp k_udp6 k_secp k_ed k_toy k_client v4
  Build_crypto enr_to_public verify_v4 node_id_of scheme_key
  encode size signed_payload get_raw get get_bytes get_uint get_strings
  id ip4 ip6 tcp4 tcp6 udp4 udp6 udp4_socket udp6_socket tcp4_socket tcp6_socket
  is_udp_reachable is_tcp_reachable client_info public_key verify decode decode_vec
  rec_eqb hash_input compare_content
  enc_tval apply_op step build check_reserved presign_causes
  to_text from_str to_json from_json b64_encode b64_decode
  nodeid_parse hex_encode hex_decode nodeid_ser nodeid_deser nodeid_debug nodeid_display
  import_secp import_ed.
