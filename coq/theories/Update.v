(* Update.v — the builder and the 22 public mutators. Mirrors src/lib.rs (setters) and src/builder.rs.
   Every mutator works on a copy and commits on success (as the Rust does): it returns
   [res (ret * record)], and [step] pairs the result with the record the caller holds afterwards.
   Definitions only. *)
Require Import Enr.Bytes Enr.Consts Enr.Rlp Enr.SortedMap Enr.Keccak Enr.Record.
Open Scope N_scope.

(* a signing key as the library sees it: its public key; signing is an arbitrary function
   (randomised, deterministic, failing, of any output length) *)
Record skey := { sk_pub : pubkey }.
Definition signer := bytes -> option bytes.

Definition U64_MAX : N := 18446744073709551615.

(* typed values accepted by insert / add_value in the harness, with their Encodable encodings *)
Inductive tval :=
  | TBytes (b : bytes) | TU16 (n : N) | TU64 (n : N) | TStr (s : bytes)
  | TList (l : list bytes) | TIp4 (a : bytes) | TIp6 (a : bytes).
Definition enc_tval (t : tval) : bytes :=
  match t with
  | TBytes b => enc_string b
  | TU16 n | TU64 n => enc_uint n
  | TStr s => enc_string s
  | TList l => enc_strings l
  | TIp4 a | TIp6 a => enc_string a
  end.

Section WithCrypto.
Variable c : crypto.
Variable kt : keytype.

Definition pub_key_name (k : skey) : bytes := scheme_key (pk_scheme (sk_pub k)).
Definition pub_entry (k : skey) : bytes := enc_string (pk_enc (sk_pub k)).

(* check_spec_reserved_keys *)
Definition check_reserved (key value : bytes) : res unit :=
  do rest <-
    (if is_port_key key then do (_, rest) <- dec_uint 2 value; Ok rest
     else if bytes_eqb key k_id then
       do (s, rest) <- dec_string value;
       if bytes_eqb s v4 then Ok rest else Err EUnsupportedIdentityScheme
     else if bytes_eqb key k_ip then do (_, rest) <- dec_fixed 4 value; Ok rest
     else if bytes_eqb key k_ip6 then do (_, rest) <- dec_fixed 16 value; Ok rest
     else if bytes_eqb key k_secp then
       do (s, rest) <- dec_string value;
       if secp_chk c s then Ok rest else Err ECustom
     else if bytes_eqb key k_ed then do (_, rest) <- dec_string value; Ok rest
     else do (_, _, rest) <- dec_item value; Ok rest);
  if is_empty rest then Ok tt else Err EUnexpectedLength.

(* check_keyed_by *)
Definition check_keyed_by (m : smap) (k : skey) : res unit :=
  match enr_to_public c kt m with
  | Ok p => if bytes_eqb (pk_enc p) (pk_enc (sk_pub k)) then Ok tt else Err ECustom
  | Err e => Err e
  | Panic => Panic
  end.

(* compute_signature *)
Definition compute_signature (r : record) (sg : signer) : res bytes :=
  if id_is_v4 r then
    match sg (signed_payload r) with Some s => Ok s | None => Err ESigningError end
  else Err EUnsupportedIdentityScheme.

Definition with_key (m : smap) (k : skey) : smap := sm_insert (pub_key_name k) (pub_entry k) m.

Definition checked_succ (n : N) : res N :=
  if n =? U64_MAX then Err ESequenceNumberTooHigh else Ok (n + 1).

(* the tail shared by insert_raw_rlp, set_socket, remove_key, remove_insert:
   [pre_size_check] is the first size check (insert_raw_rlp and set_socket have it) *)
Definition finish (pre_size_check : bool) (r : record) (m : smap) (k : skey) (sg : signer) : res record :=
  check_keyed_by m k;;
  (if pre_size_check && (MAX_ENR_SIZE <? size {| seq := seq r; nid := nid r; content := m; sig := sig r |})
   then Err EExceedsMaxSize else Ok tt);;
  do sq <- checked_succ (seq r);
  let r1 := {| seq := sq; nid := nid r; content := m; sig := sig r |} in
  do s <- compute_signature r1 sg;
  let r2 := {| seq := sq; nid := node_id_of (sk_pub k); content := m; sig := s |} in
  if MAX_ENR_SIZE <? size r2 then Err EExceedsMaxSize else Ok r2.

(* set_seq: key inserted, signed, size checked, node id updated *)
Definition set_seq (r : record) (n : N) (k : skey) (sg : signer) : res record :=
  let m := with_key (content r) k in
  check_keyed_by m k;;
  let r1 := {| seq := n; nid := nid r; content := m; sig := sig r |} in
  do s <- compute_signature r1 sg;
  let r2 := {| seq := n; nid := node_id_of (sk_pub k); content := m; sig := s |} in
  if MAX_ENR_SIZE <? size r2 then Err EExceedsMaxSize else Ok r2.

(* insert_raw_rlp: returns the previous raw value *)
Definition insert_raw (r : record) (key value : bytes) (k : skey) (sg : signer)
  : res (option bytes * record) :=
  check_reserved key value;;
  let prev := sm_get key (content r) in
  let m := with_key (sm_insert key value (content r)) k in
  do r' <- finish true r m k sg;
  Ok (prev, r').

Definition ok_opt {A} (x : res A) : option A := match x with Ok a => Some a | _ => None end.

(* set_ip: previous address, decoded *)
Definition set_ip (r : record) (addr : bytes) (k : skey) (sg : signer) : res (option bytes * record) :=
  let v6 := negb (lenN addr =? 4) in
  do (prev, r') <- insert_raw r (if v6 then k_ip6 else k_ip) (enc_string addr) k sg;
  let prev_addr :=
    match prev with
    | Some v => match dec_fixed (if v6 then 16 else 4) v with Ok (a, _) => Some a | _ => None end
    | None => None
    end in
  Ok (prev_addr, r').

(* set_udp4 / set_udp6 / set_tcp4 / set_tcp6 *)
Definition set_port (r : record) (key : bytes) (p : N) (k : skey) (sg : signer) : res (option N * record) :=
  do (prev, r') <- insert_raw r key (enc_uint p) k sg;
  let prev_port :=
    match prev with
    | Some v => match dec_uint 2 v with Ok (q, _) => Some q | _ => None end
    | None => None
    end in
  Ok (prev_port, r').

Definition set_client_info (r : record) (strs : list bytes) (k : skey) (sg : signer) : res record :=
  do (_, r') <- insert_raw r k_client (enc_strings strs) k sg; Ok r'.

(* set_socket (udp or tcp, v4 or v6 by address length) *)
Definition set_socket (r : record) (addr : bytes) (p : N) (is_tcp : bool) (k : skey) (sg : signer) : res record :=
  let v6 := negb (lenN addr =? 4) in
  let ipk := if v6 then k_ip6 else k_ip in
  let pk := if is_tcp then (if v6 then k_tcp6 else k_tcp) else (if v6 then k_udp6 else k_udp) in
  let m := with_key (sm_insert pk (enc_uint p) (sm_insert ipk (enc_string addr) (content r))) k in
  finish true r m k sg.

Definition remove_key (r : record) (key : bytes) (k : skey) (sg : signer) : res record :=
  let m := with_key (sm_remove key (content r)) k in
  finish false r m k sg.

(* remove_insert: removed values, overwritten values *)
Fixpoint remove_all (keys : list bytes) (m : smap) : list (option bytes) * smap :=
  match keys with
  | [] => ([], m)
  | key :: t =>
      let '(l, m') := remove_all t (sm_remove key m) in (sm_get key m :: l, m')
  end.

Fixpoint insert_all (kvs : list (bytes * bytes)) (m : smap) : res (list (option bytes) * smap) :=
  match kvs with
  | [] => Ok ([], m)
  | (key, raw) :: t =>
      let v := enc_string raw in
      check_reserved key v;;
      do (l, m') <- insert_all t (sm_insert key v m);
      Ok (sm_get key m :: l, m')
  end.

Definition remove_insert (r : record) (rm : list bytes) (ins : list (bytes * bytes)) (k : skey) (sg : signer)
  : res (list (option bytes) * list (option bytes) * record) :=
  let '(removed, m1) := remove_all rm (content r) in
  do (inserted, m2) <- insert_all ins m1;
  do r' <- finish false r (with_key m2 k) k sg;
  Ok (removed, inserted, r').

(* set_public_key(pk, key) = insert(pk.enr_key(), pk.encode()) *)
Definition set_public_key (r : record) (p : pubkey) (k : skey) (sg : signer) : res record :=
  do (_, r') <- insert_raw r (scheme_key (pk_scheme p)) (enc_string (pk_enc p)) k sg; Ok r'.

(* ---- the operation alphabet ---- *)
Inductive op :=
  | OSetSeq (n : N)
  | OInsert (key : bytes) (v : tval)
  | OInsertRaw (key value : bytes)
  | OSetIp (addr : bytes)
  | OSetUdp4 (p : N) | OSetUdp6 (p : N) | OSetTcp4 (p : N) | OSetTcp6 (p : N)
  | ORemoveUdp4 | ORemoveUdp6 | ORemoveTcp | ORemoveTcp6
  | OSetClientInfo (strs : list bytes)
  | OSetUdpSocket (addr : bytes) (p : N) | OSetTcpSocket (addr : bytes) (p : N)
  | ORemoveUdpSocket | ORemoveUdp6Socket | ORemoveTcpSocket | ORemoveTcp6Socket
  | ORemoveKey (key : bytes)
  | ORemoveInsert (rm : list bytes) (ins : list (bytes * bytes))
  | OSetPublicKey (p : pubkey).

Inductive ret :=
  | RUnit
  | RRaw (prev : option bytes)
  | RIp (prev : option bytes)
  | RPort (prev : option N)
  | RLists (removed inserted : list (option bytes)).

Definition unit_ret (x : res record) : res (ret * record) := do r' <- x; Ok (RUnit, r').

Definition apply_op (r : record) (o : op) (k : skey) (sg : signer) : res (ret * record) :=
  match o with
  | OSetSeq n => unit_ret (set_seq r n k sg)
  | OInsert key v => do (p, r') <- insert_raw r key (enc_tval v) k sg; Ok (RRaw p, r')
  | OInsertRaw key v => do (p, r') <- insert_raw r key v k sg; Ok (RRaw p, r')
  | OSetIp a => do (p, r') <- set_ip r a k sg; Ok (RIp p, r')
  | OSetUdp4 p => do (q, r') <- set_port r k_udp p k sg; Ok (RPort q, r')
  | OSetUdp6 p => do (q, r') <- set_port r k_udp6 p k sg; Ok (RPort q, r')
  | OSetTcp4 p => do (q, r') <- set_port r k_tcp p k sg; Ok (RPort q, r')
  | OSetTcp6 p => do (q, r') <- set_port r k_tcp6 p k sg; Ok (RPort q, r')
  | ORemoveUdp4 => unit_ret (remove_key r k_udp k sg)
  | ORemoveUdp6 => unit_ret (remove_key r k_udp6 k sg)
  | ORemoveTcp => unit_ret (remove_key r k_tcp k sg)
  | ORemoveTcp6 => unit_ret (remove_key r k_tcp6 k sg)
  | OSetClientInfo strs => unit_ret (set_client_info r strs k sg)
  | OSetUdpSocket a p => unit_ret (set_socket r a p false k sg)
  | OSetTcpSocket a p => unit_ret (set_socket r a p true k sg)
  | ORemoveUdpSocket => do (_, r') <- remove_insert r [k_ip; k_udp] [] k sg; Ok (RUnit, r')
  | ORemoveUdp6Socket => do (_, r') <- remove_insert r [k_ip6; k_udp6] [] k sg; Ok (RUnit, r')
  | ORemoveTcpSocket => do (_, r') <- remove_insert r [k_ip; k_tcp] [] k sg; Ok (RUnit, r')
  | ORemoveTcp6Socket => do (_, r') <- remove_insert r [k_ip6; k_tcp6] [] k sg; Ok (RUnit, r')
  | ORemoveKey key => unit_ret (remove_key r key k sg)
  | ORemoveInsert rm ins =>
      do (rem, inserted, r') <- remove_insert r rm ins k sg; Ok (RLists rem inserted, r')
  | OSetPublicKey p => unit_ret (set_public_key r p k sg)
  end.

(* what the caller observes: the result, and the record it holds afterwards *)
Definition step (r : record) (o : op) (k : skey) (sg : signer) : res ret * record :=
  match apply_op r o k sg with
  | Ok (x, r') => (Ok x, r')
  | Err e => (Err e, r)
  | Panic => (Panic, r)
  end.

(* ---- the builder ---- *)
Inductive bcall :=
  | BIp4 (a : bytes) | BIp6 (a : bytes)
  | BTcp4 (p : N) | BTcp6 (p : N) | BUdp4 (p : N) | BUdp6 (p : N)
  | BClient (strs : list bytes)
  | BVal (key : bytes) (v : tval)
  | BRaw (key value : bytes).

Definition apply_bcall (m : smap) (b : bcall) : smap :=
  match b with
  | BIp4 a => sm_insert k_ip (enc_string a) m
  | BIp6 a => sm_insert k_ip6 (enc_string a) m
  | BTcp4 p => sm_insert k_tcp (enc_uint p) m
  | BTcp6 p => sm_insert k_tcp6 (enc_uint p) m
  | BUdp4 p => sm_insert k_udp (enc_uint p) m
  | BUdp6 p => sm_insert k_udp6 (enc_uint p) m
  | BClient strs => sm_insert k_client (enc_strings strs) m
  | BVal key v => sm_insert key (enc_tval v) m
  | BRaw key v => sm_insert key v m
  end.

Fixpoint check_all (m : smap) : res unit :=
  match m with
  | [] => Ok tt
  | (key, v) :: t => check_reserved key v;; check_all t
  end.

Definition build (sq : N) (calls : list bcall) (k : skey) (sg : signer) : res record :=
  let m0 := fold_left apply_bcall calls [] in
  check_all m0;;
  let m := with_key (sm_insert k_id (enc_string v4) m0) k in
  check_keyed_by m k;;
  let content_rlp := signed_payload_of sq m in
  do s <- (match sg content_rlp with Some s => Ok s | None => Err ESigningError end);
  if MAX_ENR_SIZE <? lenN content_rlp + lenN s + 8 then Err EExceedsMaxSize
  else Ok {| seq := sq; nid := node_id_of (sk_pub k); content := m; sig := s |}.

End WithCrypto.
