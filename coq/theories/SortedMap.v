(* SortedMap.v — BTreeMap<Vec<u8>, Bytes> as a strictly sorted association list
   (iteration order = list order). Definitions only. *)
Require Import Enr.Bytes.
Open Scope N_scope.

Definition smap := list (bytes * bytes).

Fixpoint sm_get (k : bytes) (m : smap) : option bytes :=
  match m with
  | [] => None
  | (k', v) :: t => if bytes_eqb k k' then Some v else sm_get k t
  end.

(* BTreeMap::insert (the previous value is [sm_get k m]) *)
Fixpoint sm_insert (k v : bytes) (m : smap) : smap :=
  match m with
  | [] => [(k, v)]
  | (k', v') :: t =>
      if bytes_ltb k k' then (k, v) :: m
      else if bytes_eqb k k' then (k, v) :: t
      else (k', v') :: sm_insert k v t
  end.

(* BTreeMap::remove (the removed value is [sm_get k m]) *)
Fixpoint sm_remove (k : bytes) (m : smap) : smap :=
  match m with
  | [] => []
  | (k', v') :: t => if bytes_eqb k k' then t else (k', v') :: sm_remove k t
  end.

Fixpoint strict_sortedb (ks : list bytes) : bool :=
  match ks with
  | [] => true
  | k :: t => match t with [] => true | k' :: _ => bytes_ltb k k' && strict_sortedb t end
  end.

Definition sm_of_list (l : list (bytes * bytes)) : smap :=
  fold_left (fun m kv => sm_insert (fst kv) (snd kv) m) l [].
