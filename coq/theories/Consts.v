(* Consts.v — the constant keys and values of the crate, as byte strings. *)
Require Import Enr.Bytes.
From Coq Require Import String.
Open Scope string_scope.

Definition k_id : bytes := str "id".
Definition k_ip : bytes := str "ip".
Definition k_ip6 : bytes := str "ip6".
Definition k_tcp : bytes := str "tcp".
Definition k_tcp6 : bytes := str "tcp6".
Definition k_udp : bytes := str "udp".
Definition k_udp6 : bytes := str "udp6".
Definition k_secp : bytes := str "secp256k1".
Definition k_ed : bytes := str "ed25519".
Definition k_toy : bytes := str "toy".
Definition k_client : bytes := str "client".
Definition v4 : bytes := str "v4".

