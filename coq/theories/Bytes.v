(* Bytes.v — byte strings as lists of N, big-endian numbers, the lexicographic order of [u8].
   Definitions only (proofs live in proofs/). *)
From Coq Require Export List NArith Bool.
From Coq Require Import Ascii String.
Export ListNotations.
Open Scope N_scope.

Arguments N.add : simpl never.
Arguments N.sub : simpl never.
Arguments N.mul : simpl never.
Arguments N.div : simpl never.
Arguments N.modulo : simpl never.
Arguments N.eqb : simpl never.
Arguments N.ltb : simpl never.
Arguments N.leb : simpl never.
Arguments N.pow : simpl never.

Definition bytes := list N.
Definition bytes_ok (b : bytes) : Prop := Forall (fun x => x < 256) b.
Definition bytes_okb (b : bytes) : bool := forallb (fun x => x <? 256) b.

Definition lenN {A} (l : list A) : N := N.of_nat (List.length l).
Definition takeN {A} (n : N) (b : list A) : list A := firstn (N.to_nat n) b.
Definition dropN {A} (n : N) (b : list A) : list A := skipn (N.to_nat n) b.

(* ASCII string literal -> bytes, for the constant keys *)
Definition str (s : string) : bytes := map N_of_ascii (list_ascii_of_string s).

(* big-endian value of a byte string *)
Fixpoint be_val_acc (acc : N) (b : bytes) : N :=
  match b with [] => acc | x :: t => be_val_acc (acc * 256 + x) t end.
Definition be_val : bytes -> N := be_val_acc 0.

(* minimal big-endian bytes of n (empty for 0): to_be_bytes_trimmed *)
Fixpoint be_trim_fuel (fuel : nat) (n : N) (acc : bytes) : bytes :=
  match fuel with
  | O => acc
  | S f => if n =? 0 then acc else be_trim_fuel f (n / 256) ((n mod 256) :: acc)
  end.
Definition be_trim (n : N) : bytes := be_trim_fuel (N.to_nat (N.size n)) n [].

(* fixed-width big-endian (left padded with zeros): [u8; k]::from / to_bytes *)
Definition be_pad (k : nat) (n : N) : bytes :=
  let t := be_trim n in repeat 0 (k - List.length t) ++ t.

Fixpoint bytes_eqb (a b : bytes) : bool :=
  match a, b with
  | [], [] => true
  | x :: a', y :: b' => (x =? y) && bytes_eqb a' b'
  | _, _ => false
  end.

(* Ord for [u8]: lexicographic, a proper prefix is smaller *)
Fixpoint bytes_ltb (a b : bytes) : bool :=
  match a, b with
  | _, [] => false
  | [], _ :: _ => true
  | x :: a', y :: b' => if x <? y then true else if y <? x then false else bytes_ltb a' b'
  end.

Definition is_empty {A} (l : list A) : bool := match l with [] => true | _ => false end.

(* results: Ok, an error value, or a panic (expect/unwrap/index failure in the Rust) *)
Inductive err :=
  (* alloy_rlp::Error *)
  | EInputTooShort | ENonCanonicalSingleByte | ENonCanonicalSize | ELeadingZero | EOverflow
  | EUnexpectedList | EUnexpectedString | EUnexpectedLength | ECustom
  (* enr::Error *)
  | EExceedsMaxSize | ESequenceNumberTooHigh | ESigningError | EUnsupportedIdentityScheme
  (* model-only: recursion fuel exhausted (proved unreachable) *)
  | EFuel.

Inductive res (A : Type) : Type := Ok (a : A) | Err (e : err) | Panic.
Arguments Ok {A} a. Arguments Err {A} e. Arguments Panic {A}.

Definition bind {A B} (x : res A) (f : A -> res B) : res B :=
  match x with Ok a => f a | Err e => Err e | Panic => Panic end.
Notation "'do' x <- a ; b" := (bind a (fun x => b)) (at level 200, x pattern, a at level 100, b at level 200).
Notation "a ;; b" := (bind a (fun _ => b)) (at level 199, right associativity).

Definition is_ok {A} (x : res A) : bool := match x with Ok _ => true | _ => false end.
Definition res_ok {A} (x : res A) : option A := match x with Ok a => Some a | _ => None end.
