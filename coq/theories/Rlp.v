(* Rlp.v — alloy-rlp 0.3.16 as the crate uses it: Header::{decode,decode_bytes,encode},
   integer / byte-string / list codecs. Definitions only. *)
Require Import Enr.Bytes.
Open Scope N_scope.

(* Header::encode *)
Definition hdr_encode (list : bool) (n : N) : bytes :=
  if n <? 56 then [ (if list then 0xC0 else 0x80) + n ]
  else let lb := be_trim n in ((if list then 0xF7 else 0xB7) + lenN lb) :: lb.

(* long form: [ll] length bytes follow the first byte *)
Definition hdr_long (list : bool) (ll : N) (t : bytes) : res (bool * N * bytes) :=
  if lenN t <? ll then Err EInputTooShort else
  let lb := takeN ll t in
  let t' := dropN ll t in
  (* static_left_pad::<8> *)
  if 8 <? lenN lb then Err EOverflow else
  match lb with
  | [] => Err ENonCanonicalSize            (* value 0 < 56; unreachable: ll >= 1 *)
  | z :: _ =>
      if z =? 0 then Err ELeadingZero else
      let n := be_val lb in
      if n <? 56 then Err ENonCanonicalSize else
      if lenN t' <? n then Err EInputTooShort else Ok (list, n, t')
  end.

(* Header::decode: (is_list, payload_length, buffer positioned at the payload).
   A single byte below 0x80 is its own payload: the buffer is NOT advanced. *)
Definition hdr_decode (buf : bytes) : res (bool * N * bytes) :=
  match buf with
  | [] => Err EInputTooShort
  | b :: t =>
      if b <? 0x80 then Ok (false, 1, buf)
      else if b <? 0xB8 then
        let n := b - 0x80 in
        do _ <- (if n =? 1 then
                   match t with
                   | [] => Err EInputTooShort
                   | c :: _ => if c <? 0x80 then Err ENonCanonicalSingleByte else Ok tt
                   end
                 else Ok tt);
        if lenN t <? n then Err EInputTooShort else Ok (false, n, t)
      else if b <? 0xC0 then hdr_long false (b - 0xB7) t
      else if b <? 0xF8 then
        let n := b - 0xC0 in
        if lenN t <? n then Err EInputTooShort else Ok (true, n, t)
      else hdr_long true (b - 0xF7) t
  end.

(* Header::decode_bytes(buf, is_list): (payload, rest) *)
Definition dec_payload (want_list : bool) (buf : bytes) : res (bytes * bytes) :=
  do (l, n, p) <- hdr_decode buf;
  if Bool.eqb l want_list then Ok (takeN n p, dropN n p)
  else Err (if want_list then EUnexpectedString else EUnexpectedList).

Definition dec_string : bytes -> res (bytes * bytes) := dec_payload false.
Definition dec_list : bytes -> res (bytes * bytes) := dec_payload true.

(* static_left_pad::<k> followed by from_be_bytes *)
Definition left_pad_val (k : N) (data : bytes) : res N :=
  if k <? lenN data then Err EOverflow else
  match data with
  | [] => Ok 0
  | z :: _ => if z =? 0 then Err ELeadingZero else Ok (be_val data)
  end.

(* uN::decode for N = 8k bits *)
Definition dec_uint (k : N) (buf : bytes) : res (N * bytes) :=
  do (s, rest) <- dec_string buf;
  do v <- left_pad_val k s;
  Ok (v, rest).

(* <[u8] as Encodable>::encode *)
Definition enc_string (s : bytes) : bytes :=
  match s with
  | [x] => if x <? 0x80 then [x] else hdr_encode false 1 ++ s
  | _ => hdr_encode false (lenN s) ++ s
  end.

(* uint_impl!: 0 -> 0x80, x < 0x80 -> x, else header + trimmed big-endian bytes *)
Definition enc_uint (n : N) : bytes := enc_string (be_trim n).

Definition enc_list (payload : bytes) : bytes := hdr_encode true (lenN payload) ++ payload.

(* [u8; k]::decode / Ipv4Addr::decode / Ipv6Addr::decode *)
Definition dec_fixed (k : N) (buf : bytes) : res (bytes * bytes) :=
  do (s, rest) <- dec_string buf;
  if lenN s =? k then Ok (s, rest) else Err EUnexpectedLength.

(* Vec<Bytes>::decode: list header, then byte strings until the payload is used up *)
Fixpoint dec_strings (fuel : nat) (payload : bytes) : res (list bytes) :=
  match payload with
  | [] => Ok []
  | _ =>
      match fuel with
      | O => Err EFuel
      | S f =>
          do (s, rest) <- dec_string payload;
          do l <- dec_strings f rest;
          Ok (s :: l)
      end
  end.
Definition dec_vec_bytes (buf : bytes) : res (list bytes * bytes) :=
  do (payload, rest) <- dec_list buf;
  do l <- dec_strings (length payload) payload;
  Ok (l, rest).

(* Vec<String>::encode / Vec<Bytes>::encode *)
Definition enc_strings (l : list bytes) : bytes := enc_list (flat_map enc_string l).

(* one raw item (any header), returned as (is_list, payload, rest) *)
Definition dec_item (buf : bytes) : res (bool * bytes * bytes) :=
  do (l, n, p) <- hdr_decode buf;
  Ok (l, takeN n p, dropN n p).

(* re-framing of an item as the record decoder stores it *)
Definition reframe (l : bool) (payload : bytes) : bytes :=
  if l then hdr_encode true (lenN payload) ++ payload else enc_string payload.
