(* Text.v — the text form: "enr:" + unpadded URL-safe base64; strict parser (base64 0.22
   URL_SAFE_NO_PAD: no padding, no characters outside the alphabet, canonical trailing bits);
   the JSON string form. Definitions only. *)
Require Import Enr.Bytes Enr.Consts Enr.Rlp Enr.SortedMap Enr.Keccak Enr.Record.
Open Scope N_scope.

(* sextet -> character code: A-Z a-z 0-9 - _ *)
Definition b64_char (v : N) : N :=
  if v <? 26 then 65 + v
  else if v <? 52 then 97 + (v - 26)
  else if v <? 62 then 48 + (v - 52)
  else if v =? 62 then 45 else 95.

Definition b64_val (ch : N) : option N :=
  if (65 <=? ch) && (ch <=? 90) then Some (ch - 65)
  else if (97 <=? ch) && (ch <=? 122) then Some (ch - 97 + 26)
  else if (48 <=? ch) && (ch <=? 57) then Some (ch - 48 + 52)
  else if ch =? 45 then Some 62
  else if ch =? 95 then Some 63
  else None.

Fixpoint b64_encode (b : bytes) : bytes :=
  match b with
  | x :: y :: z :: t =>
      b64_char (x / 4) :: b64_char ((x mod 4) * 16 + y / 16)
      :: b64_char ((y mod 16) * 4 + z / 64) :: b64_char (z mod 64) :: b64_encode t
  | [x; y] => [b64_char (x / 4); b64_char ((x mod 4) * 16 + y / 16); b64_char ((y mod 16) * 4)]
  | [x] => [b64_char (x / 4); b64_char ((x mod 4) * 16)]
  | [] => []
  end.

Fixpoint b64_decode (s : bytes) : option bytes :=
  match s with
  | c1 :: c2 :: c3 :: c4 :: t =>
      match b64_val c1, b64_val c2, b64_val c3, b64_val c4, b64_decode t with
      | Some w, Some x, Some y, Some z, Some r =>
          Some ((w * 4 + x / 16) :: ((x mod 16) * 16 + y / 4) :: ((y mod 4) * 64 + z) :: r)
      | _, _, _, _, _ => None
      end
  | [c1; c2; c3] =>
      match b64_val c1, b64_val c2, b64_val c3 with
      | Some w, Some x, Some y =>
          if y mod 4 =? 0 then Some [w * 4 + x / 16; (x mod 16) * 16 + y / 4] else None
      | _, _, _ => None
      end
  | [c1; c2] =>
      match b64_val c1, b64_val c2 with
      | Some w, Some x => if x mod 16 =? 0 then Some [w * 4 + x / 16] else None
      | _, _ => None
      end
  | [_] => None
  | [] => Some []
  end.

Definition enr_prefix : bytes := [101; 110; 114; 58]. (* "enr:" *)

Definition starts_with (p s : bytes) : bool := bytes_eqb (firstn (length p) s) p.

(* the part of the text that is base64: an optional "enr:" prefix is dropped *)
Definition text_body (s : bytes) : bytes := if starts_with enr_prefix s then skipn 4 s else s.

Section WithCrypto.
Variable c : crypto.

(* to_base64 / Display *)
Definition to_text (r : record) : bytes := enr_prefix ++ b64_encode (encode r).

(* FromStr: input is the UTF-8 bytes of the &str *)
Definition from_str (kt : keytype) (s : bytes) : res record :=
  if lenN s <? 4 then Err ECustom else
  match b64_decode (text_body s) with
  | None => Err ECustom
  | Some b =>
      do (r, rest) <- decode c kt b;
      if is_empty rest then Ok r else Err ECustom
  end.

(* serde: the record is the JSON string of its text form *)
Definition to_json (r : record) : bytes := [34] ++ to_text r ++ [34].

(* Deserialisation is modelled on JSON string literals without escapes or control characters,
   and without surrounding whitespace; anything else is outside the model (None). *)
Definition plain_json_char (ch : N) : bool := (32 <=? ch) && negb (ch =? 34) && negb (ch =? 92).
Definition from_json (kt : keytype) (s : bytes) : option (res record) :=
  match s with
  | q :: t =>
      if q =? 34 then
        match rev t with
        | q2 :: rbody =>
            if q2 =? 34 then
              let body := rev rbody in
              if forallb plain_json_char body then Some (from_str kt body) else None
            else None
        | [] => None
        end
      else None
  | [] => None
  end.

End WithCrypto.
