(* Spec.v — the specifications the theorems are stated against. Declarative (no parsing, no
   decoding functions of the model): the grammar of well-formed EIP-778 records, the validity
   invariant of records handed out, hypotheses on keys and signers, and the sorted-map
   specification of the update API. Definitions only. *)
Require Import Enr.Bytes Enr.Consts Enr.Rlp Enr.SortedMap Enr.Keccak Enr.Record Enr.Update.
Open Scope N_scope.

Definition strict_sorted (ks : list bytes) : Prop := strict_sortedb ks = true.

(* what a value stored under a key must be, by key *)
Definition value_ok (kv : bytes * bytes) : Prop :=
  let k := fst kv in
  let v := snd kv in
  if bytes_eqb k k_id then v = enc_string v4
  else if is_port_key k then exists p, p < 65536 /\ v = enc_uint p
  else if bytes_eqb k k_ip then exists a, lenN a = 4 /\ v = enc_string a
  else if bytes_eqb k k_ip6 then exists a, lenN a = 16 /\ v = enc_string a
  else if bytes_eqb k k_secp || bytes_eqb k k_ed then exists s, lenN s < 2 ^ 64 /\ v = enc_string s
  else (* any other key: exactly one canonically framed item; the inner bytes of a list are unconstrained *)
    exists l p, lenN p < 2 ^ 64 /\ v = reframe l p.

Definition pair_ok (kv : bytes * bytes) : Prop := lenN (fst kv) < 2 ^ 64 /\ value_ok kv.

Section WithCrypto.
Variable c : crypto.

(* the public key a scheme's entry denotes *)
Definition entry_pubkey (s : scheme) (ps : smap) (p : pubkey) : Prop :=
  match s with
  | SSecp => exists b cp un, sm_get k_secp ps = Some (enc_string b) /\ lenN b < 2 ^ 64 /\ secp_pk c b = Some (cp, un) /\
                             p = {| pk_scheme := SSecp; pk_enc := cp; pk_unc := un |}
  | SEd => exists b, sm_get k_ed ps = Some (enc_string b) /\ lenN b = 32 /\ ed_pk_ok c b = true /\
                     p = {| pk_scheme := SEd; pk_enc := b; pk_unc := b |}
  | SToy => exists b, sm_get k_toy ps = Some (enc_string b) /\ lenN b = 8 /\
                      p = {| pk_scheme := SToy; pk_enc := b; pk_unc := b |}
  end.

(* the key a record is verified against, by key type: CombinedKey takes the secp256k1 entry
   whenever it is a valid key, else the ed25519 entry *)
Definition effective_pubkey (kt : keytype) (ps : smap) (p : pubkey) : Prop :=
  match kt with
  | K256 | LibSecp => entry_pubkey SSecp ps p
  | Ed => entry_pubkey SEd ps p
  | Toy => entry_pubkey SToy ps p
  | Comb => entry_pubkey SSecp ps p \/ ((forall q, ~ entry_pubkey SSecp ps q) /\ entry_pubkey SEd ps p)
  end.

(* the well-formed records, as byte strings: a declarative grammar *)
Definition WellFormedAs (kt : keytype) (item : bytes) (sg : bytes) (sq : N) (ps : smap) (pk : pubkey) : Prop :=
  item = enc_list (enc_string sg ++ enc_uint sq ++ flat_map enc_pair ps) /\
  lenN item <= 300 /\
  sq < 2 ^ 64 /\
  strict_sorted (map fst ps) /\
  Forall pair_ok ps /\
  sm_get k_id ps = Some (enc_string v4) /\
  effective_pubkey kt ps pk /\
  verify_v4 c pk (signed_payload_of sq ps) sg = true.

Definition WellFormed (kt : keytype) (item : bytes) : Prop :=
  exists sg sq ps pk, WellFormedAs kt item sg sq ps pk.

(* the invariant of every record the library hands out *)
Definition Valid (kt : keytype) (r : record) : Prop :=
  exists pk,
    WellFormedAs kt (encode r) (sig r) (seq r) (content r) pk /\
    nid r = node_id_of pk.

(* ---- hypotheses on signing keys and signers (never axioms: premises of theorems) ---- *)

(* the key object is what its own encoding denotes: decoding the signer's public-key entry gives
   back the signer's public key (checked at run time on every key the harness creates) *)
Definition KeyOk (kt : keytype) (k : skey) : Prop :=
  forall m p, enr_to_public c kt m = Ok p -> pk_enc p = pk_enc (sk_pub k) -> p = sk_pub k.

(* the signer returns only signatures that its own public key verifies *)
Definition GoodSigner (k : skey) (sg : signer) : Prop :=
  forall m s, sg m = Some s -> verify_v4 c (sk_pub k) m s = true.

End WithCrypto.

(* arguments of operations are byte strings and machine integers of the Rust types *)
Definition tval_ok (t : tval) : Prop :=
  match t with
  | TBytes b | TStr b | TIp4 b | TIp6 b => bytes_ok b /\ lenN b < 2 ^ 64
  | TU16 n => n < 65536
  | TU64 n => n < 2 ^ 64
  | TList l => Forall (fun b => bytes_ok b /\ lenN b < 2 ^ 64) l /\ lenN (flat_map enc_string l) < 2 ^ 64
  end.

Definition op_ok (o : op) : Prop :=
  match o with
  | OSetSeq n => n < 2 ^ 64
  | OInsert key v => bytes_ok key /\ lenN key < 2 ^ 64 /\ tval_ok v
  | OInsertRaw key v => bytes_ok key /\ lenN key < 2 ^ 64 /\ bytes_ok v
  | OSetIp a => bytes_ok a /\ (lenN a = 4 \/ lenN a = 16)
  | OSetUdp4 p | OSetUdp6 p | OSetTcp4 p | OSetTcp6 p => p < 65536
  | OSetClientInfo strs => tval_ok (TList strs)
  | OSetUdpSocket a p | OSetTcpSocket a p => bytes_ok a /\ (lenN a = 4 \/ lenN a = 16) /\ p < 65536
  | ORemoveKey key => True
  | ORemoveInsert rm ins => Forall (fun kv => bytes_ok (fst kv) /\ lenN (fst kv) < 2 ^ 64 /\ bytes_ok (snd kv) /\ lenN (snd kv) < 2 ^ 64) ins
  | OSetPublicKey p => bytes_ok (pk_enc p) /\ lenN (pk_enc p) < 2 ^ 64
  | _ => True
  end.

Definition key_bytes_ok (k : skey) : Prop := bytes_ok (pk_enc (sk_pub k)) /\ lenN (pk_enc (sk_pub k)) < 2 ^ 64.

(* ---- the sorted-map specification of the update API (C08) ----
   Every operation is: delete the named keys, then write the named (key, canonical value) pairs in
   order, then write the signer's public key under its scheme's key. Nothing else changes. *)
Definition ip_key (a : bytes) : bytes := if lenN a =? 4 then k_ip else k_ip6.
Definition udp_key (a : bytes) : bytes := if lenN a =? 4 then k_udp else k_udp6.
Definition tcp_key (a : bytes) : bytes := if lenN a =? 4 then k_tcp else k_tcp6.

Definition removes (o : op) : list bytes :=
  match o with
  | ORemoveUdp4 => [k_udp] | ORemoveUdp6 => [k_udp6] | ORemoveTcp => [k_tcp] | ORemoveTcp6 => [k_tcp6]
  | ORemoveUdpSocket => [k_ip; k_udp] | ORemoveUdp6Socket => [k_ip6; k_udp6]
  | ORemoveTcpSocket => [k_ip; k_tcp] | ORemoveTcp6Socket => [k_ip6; k_tcp6]
  | ORemoveKey key => [key]
  | ORemoveInsert rm _ => rm
  | _ => []
  end.

Definition inserts (o : op) : list (bytes * bytes) :=
  match o with
  | OInsert key v => [(key, enc_tval v)]
  | OInsertRaw key v => [(key, v)]
  | OSetIp a => [(ip_key a, enc_string a)]
  | OSetUdp4 p => [(k_udp, enc_uint p)] | OSetUdp6 p => [(k_udp6, enc_uint p)]
  | OSetTcp4 p => [(k_tcp, enc_uint p)] | OSetTcp6 p => [(k_tcp6, enc_uint p)]
  | OSetClientInfo strs => [(k_client, enc_strings strs)]
  | OSetUdpSocket a p => [(ip_key a, enc_string a); (udp_key a, enc_uint p)]
  | OSetTcpSocket a p => [(ip_key a, enc_string a); (tcp_key a, enc_uint p)]
  | ORemoveInsert _ ins => map (fun kv => (fst kv, enc_string (snd kv))) ins
  | OSetPublicKey p => [(scheme_key (pk_scheme p), enc_string (pk_enc p))]
  | _ => []
  end.

Definition remove_keys (keys : list bytes) (m : smap) : smap := fold_left (fun m key => sm_remove key m) keys m.
Definition insert_pairs (kvs : list (bytes * bytes)) (m : smap) : smap :=
  fold_left (fun m kv => sm_insert (fst kv) (snd kv) m) kvs m.

Definition spec_pairs (o : op) (k : skey) (m : smap) : smap :=
  with_key (insert_pairs (inserts o) (remove_keys (removes o) m)) k.

(* previous values, one per key, each looked up just before that key is removed / written *)
Fixpoint prev_removed (keys : list bytes) (m : smap) : list (option bytes) :=
  match keys with [] => [] | key :: t => sm_get key m :: prev_removed t (sm_remove key m) end.
Fixpoint prev_inserted (kvs : list (bytes * bytes)) (m : smap) : list (option bytes) :=
  match kvs with [] => [] | (key, v) :: t => sm_get key m :: prev_inserted t (sm_insert key v m) end.

(* what an update returns: the previous value(s) of what it touched, as the typed accessors
   reported them before the call *)
Definition spec_ret (o : op) (r : record) : ret :=
  match o with
  | OInsert key _ | OInsertRaw key _ => RRaw (get_raw r key)
  | OSetIp a => RIp (if lenN a =? 4 then ip4 r else ip6 r)
  | OSetUdp4 _ => RPort (udp4 r) | OSetUdp6 _ => RPort (udp6 r)
  | OSetTcp4 _ => RPort (tcp4 r) | OSetTcp6 _ => RPort (tcp6 r)
  | ORemoveInsert rm ins =>
      RLists (prev_removed rm (content r))
             (prev_inserted (inserts (ORemoveInsert rm ins)) (remove_keys rm (content r)))
  | _ => RUnit
  end.

(* running a history: the record the caller holds after each call (unchanged by a failed call) *)
Section Run.
Variable c : crypto.
Variable kt : keytype.
Fixpoint run (r : record) (h : list (op * skey * signer)) : record :=
  match h with
  | [] => r
  | (o, k, sg) :: t => run (snd (step c kt r o k sg)) t
  end.
End Run.

(* arguments of builder methods *)
Definition bcall_ok (b : bcall) : Prop :=
  match b with
  | BIp4 a => bytes_ok a /\ lenN a = 4
  | BIp6 a => bytes_ok a /\ lenN a = 16
  | BTcp4 p | BTcp6 p | BUdp4 p | BUdp6 p => p < 65536
  | BClient strs => tval_ok (TList strs)
  | BVal key v => lenN key < 2 ^ 64 /\ tval_ok v
  | BRaw key v => lenN key < 2 ^ 64 /\ bytes_ok v
  end.

(* the (key, canonical value) pair a builder method writes *)
Definition bcall_pair (b : bcall) : bytes * bytes :=
  match b with
  | BIp4 a => (k_ip, enc_string a) | BIp6 a => (k_ip6, enc_string a)
  | BTcp4 p => (k_tcp, enc_uint p) | BTcp6 p => (k_tcp6, enc_uint p)
  | BUdp4 p => (k_udp, enc_uint p) | BUdp6 p => (k_udp6, enc_uint p)
  | BClient strs => (k_client, enc_strings strs)
  | BVal key v => (key, enc_tval v)
  | BRaw key v => (key, v)
  end.

(* every byte of the record is a byte (the model's bytes are N): a model-level side condition, needed
   only where base64 text is involved *)
Definition pair_bytes_ok (kv : bytes * bytes) : Prop := bytes_ok (fst kv) /\ bytes_ok (snd kv).
Definition rec_bytes_ok (r : record) : Prop := bytes_ok (sig r) /\ Forall pair_bytes_ok (content r).
Definition SignerBytes (sg : signer) : Prop := forall m s, sg m = Some s -> bytes_ok s.
