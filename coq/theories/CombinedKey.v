(* CombinedKey.v — src/keys/combined.rs secret import/export: validity, export, wiping.
   The public key derived from a secret is a library fact (oracle at run time). Definitions only. *)
Require Import Enr.Bytes Enr.Record.
Open Scope N_scope.

(* result of an import: (exported secret bytes) on success; the caller's buffer afterwards *)
Record import_result := { imp_ok : option bytes; imp_buf : bytes }.

(* secp256k1_from_bytes: k256 SigningKey::from_slice — 32 bytes, 0 < scalar < n
   (inputs of 24..31 bytes are left-padded by k256; anything else is refused) *)
Definition import_secp (x : bytes) : import_result :=
  let len := lenN x in
  if ((24 <=? len) && (len <=? 32)) && (0 <? be_val x) && (be_val x <? secp_n)
  then {| imp_ok := Some (be_pad 32 (be_val x)); imp_buf := repeat 0 (length x) |}
  else {| imp_ok := None; imp_buf := x |}.

(* ed25519_from_bytes: any 32 bytes *)
Definition import_ed (x : bytes) : import_result :=
  if lenN x =? 32
  then {| imp_ok := Some x; imp_buf := repeat 0 (length x) |}
  else {| imp_ok := None; imp_buf := x |}.
