(* Stmt.v — the update functions once more, statement by statement, over the TWO records a Rust mutator works with:
   the caller's record behind `&mut self` and the working copy `let mut new_enr = self.clone()`. Every `?` / early
   `return Err(..)` stops the program and leaves both records as they are at that point; `*self = new_enr` is a
   statement (SCommit). Programs are written next to the Rust lines they mirror (lib.rs: set_seq, insert_raw_rlp,
   set_socket, remove_key, remove_insert); proofs/Thm_Stmt.v shows (a) a program whose only SCommit is its last
   statement leaves the caller's record untouched unless it ends with Ok, and (b) each program computes exactly the
   functional model of Update.v, so every theorem about [step] is a theorem about these programs.
   Definitions only. *)
Require Import Enr.Bytes Enr.Consts Enr.Rlp Enr.SortedMap Enr.Keccak Enr.Record Enr.Update.
Open Scope N_scope.

Section WithCrypto.
Variable c : crypto.
Variable kt : keytype.

Record mst := { self_r : record; work_r : record }.

Inductive stmt :=
  | SInsert (k v : bytes)              (* new_enr.content.insert(k, v); *)
  | SRemove (k : bytes)                (* new_enr.content.remove(k); *)
  | SSetSeq (n : N)                    (* new_enr.seq = n; *)
  | SIncSeq                            (* new_enr.seq = new_enr.seq.checked_add(1).ok_or(SequenceNumberTooHigh)?; *)
  | SCheckReserved (k v : bytes)       (* check_spec_reserved_keys(k, &v)?; *)
  | SCheckKeyed (key : skey)           (* check_keyed_by(&new_enr.content, key)?; *)
  | SCheckSize                         (* if new_enr.size() > MAX_ENR_SIZE { return Err(ExceedsMaxSize) } *)
  | SSign (key : skey) (sg : signer)   (* new_enr.sign(key)?; *)
  | SSetNid (key : skey)               (* new_enr.node_id = NodeId::from(key.public()); *)
  | SCommit.                           (* *self = new_enr; *)

Definition upd_work (m : mst) (w : record) : mst := {| self_r := self_r m; work_r := w |}.

Definition exec1 (s : stmt) (m : mst) : res mst :=
  let w := work_r m in
  match s with
  | SInsert k v => Ok (upd_work m {| seq := seq w; nid := nid w; content := sm_insert k v (content w); sig := sig w |})
  | SRemove k => Ok (upd_work m {| seq := seq w; nid := nid w; content := sm_remove k (content w); sig := sig w |})
  | SSetSeq n => Ok (upd_work m {| seq := n; nid := nid w; content := content w; sig := sig w |})
  | SIncSeq => do sq <- checked_succ (seq w); Ok (upd_work m {| seq := sq; nid := nid w; content := content w; sig := sig w |})
  | SCheckReserved k v => check_reserved c k v ;; Ok m
  | SCheckKeyed key => check_keyed_by c kt (content w) key ;; Ok m
  | SCheckSize => if MAX_ENR_SIZE <? size w then Err EExceedsMaxSize else Ok m
  | SSign key sg => do s <- compute_signature w sg; Ok (upd_work m {| seq := seq w; nid := nid w; content := content w; sig := s |})
  | SSetNid key => Ok (upd_work m {| seq := seq w; nid := node_id_of (sk_pub key); content := content w; sig := sig w |})
  | SCommit => Ok {| self_r := w; work_r := w |}
  end.

(* the state reached when the program stops, and how it stopped *)
Fixpoint exec (p : list stmt) (m : mst) : res unit * mst :=
  match p with
  | [] => (Ok tt, m)
  | s :: t => match exec1 s m with Ok m' => exec t m' | Err e => (Err e, m) | Panic => (Panic, m) end
  end.

(* a call: `let mut new_enr = self.clone();` then the body; the caller sees its own record afterwards *)
Definition call (p : list stmt) (r : record) : res unit * record :=
  let '(x, m) := exec p {| self_r := r; work_r := r |} in (x, self_r m).

(* ---- the five bodies (lib.rs) ---- *)
Definition key_entry (k : skey) : list stmt := [SInsert (pub_key_name k) (pub_entry k); SCheckKeyed k].
Definition commit_tail (k : skey) (sg : signer) : list stmt := [SIncSeq; SSign k sg; SSetNid k; SCheckSize; SCommit].

Definition prog_set_seq (n : N) (k : skey) (sg : signer) : list stmt :=
  [SSetSeq n] ++ key_entry k ++ [SSign k sg; SCheckSize; SSetNid k; SCommit].

Definition prog_insert_raw (key v : bytes) (k : skey) (sg : signer) : list stmt :=
  [SCheckReserved key v; SInsert key v] ++ key_entry k ++ [SCheckSize] ++ commit_tail k sg.

Definition prog_set_socket (addr : bytes) (p : N) (is_tcp : bool) (k : skey) (sg : signer) : list stmt :=
  let v6 := negb (lenN addr =? 4) in
  let ipk := if v6 then k_ip6 else k_ip in
  let pk := if is_tcp then (if v6 then k_tcp6 else k_tcp) else (if v6 then k_udp6 else k_udp) in
  [SInsert ipk (enc_string addr); SInsert pk (enc_uint p)] ++ key_entry k ++ [SCheckSize] ++ commit_tail k sg.

Definition prog_remove_key (key : bytes) (k : skey) (sg : signer) : list stmt :=
  [SRemove key] ++ key_entry k ++ commit_tail k sg.

Definition prog_remove_insert (rm : list bytes) (ins : list (bytes * bytes)) (k : skey) (sg : signer) : list stmt :=
  map SRemove rm ++
  flat_map (fun kv => [SCheckReserved (fst kv) (enc_string (snd kv)); SInsert (fst kv) (enc_string (snd kv))]) ins ++
  key_entry k ++ commit_tail k sg.

(* the body each operation of the alphabet runs (the typed setters, set_client_info and set_public_key go through
   insert / insert_raw_rlp; the remove_* helpers through remove_key / remove_insert) *)
Definition prog_of (o : op) (k : skey) (sg : signer) : list stmt :=
  match o with
  | OSetSeq n => prog_set_seq n k sg
  | OInsert key v => prog_insert_raw key (enc_tval v) k sg
  | OInsertRaw key v => prog_insert_raw key v k sg
  | OSetIp a => prog_insert_raw (if negb (lenN a =? 4) then k_ip6 else k_ip) (enc_string a) k sg
  | OSetUdp4 p => prog_insert_raw k_udp (enc_uint p) k sg
  | OSetUdp6 p => prog_insert_raw k_udp6 (enc_uint p) k sg
  | OSetTcp4 p => prog_insert_raw k_tcp (enc_uint p) k sg
  | OSetTcp6 p => prog_insert_raw k_tcp6 (enc_uint p) k sg
  | ORemoveUdp4 => prog_remove_key k_udp k sg
  | ORemoveUdp6 => prog_remove_key k_udp6 k sg
  | ORemoveTcp => prog_remove_key k_tcp k sg
  | ORemoveTcp6 => prog_remove_key k_tcp6 k sg
  | OSetClientInfo strs => prog_insert_raw k_client (enc_strings strs) k sg
  | OSetUdpSocket a p => prog_set_socket a p false k sg
  | OSetTcpSocket a p => prog_set_socket a p true k sg
  | ORemoveUdpSocket => prog_remove_insert [k_ip; k_udp] [] k sg
  | ORemoveUdp6Socket => prog_remove_insert [k_ip6; k_udp6] [] k sg
  | ORemoveTcpSocket => prog_remove_insert [k_ip; k_tcp] [] k sg
  | ORemoveTcp6Socket => prog_remove_insert [k_ip6; k_tcp6] [] k sg
  | ORemoveKey key => prog_remove_key key k sg
  | ORemoveInsert rm ins => prog_remove_insert rm ins k sg
  | OSetPublicKey p => prog_insert_raw (scheme_key (pk_scheme p)) (enc_string (pk_enc p)) k sg
  end.

End WithCrypto.
