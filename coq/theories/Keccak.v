(* Keccak.v — keccak256 (Keccak-f[1600], rate 136, pad10*1 with domain byte 0x01), concrete.
   Mirrors sha3::Keccak256 as used by lib.rs `digest` and the k256 back-end. *)
Require Import Enr.Bytes.
From Coq Require Import PeanoNat.
Open Scope N_scope.

Definition mask64 : N := 0xFFFFFFFFFFFFFFFF.
Definition rotl (x n : N) : N :=
  if n =? 0 then x else N.lor (N.land (N.shiftl x n) mask64) (N.shiftr x (64 - n)).

Definition lane (st : list N) (i : nat) : N := nth i st 0.
Definition idx5 : list nat := [0;1;2;3;4]%nat.
Definition idx25 : list nat := seq 0 25.

Definition rots : list N :=
  [ 0; 1;62;28;27;
   36;44; 6;55;20;
    3;10;43;25;39;
   41;45;15;21; 8;
   18; 2;61;56;14].

Definition rcs : list N :=
  [0x0000000000000001; 0x0000000000008082; 0x800000000000808A; 0x8000000080008000;
   0x000000000000808B; 0x0000000080000001; 0x8000000080008081; 0x8000000000008009;
   0x000000000000008A; 0x0000000000000088; 0x0000000080008009; 0x000000008000000A;
   0x000000008000808B; 0x800000000000008B; 0x8000000000008089; 0x8000000000008003;
   0x8000000000008002; 0x8000000000000080; 0x000000000000800A; 0x800000008000000A;
   0x8000000080008081; 0x8000000000008080; 0x0000000080000001; 0x8000000080008008].

Definition theta (st : list N) : list N :=
  let C := map (fun x : nat => N.lxor (lane st x) (N.lxor (lane st (x+5)%nat) (N.lxor (lane st (x+10)%nat)
                         (N.lxor (lane st (x+15)%nat) (lane st (x+20)%nat))))) idx5 in
  let D := map (fun x : nat => N.lxor (nth ((x+4) mod 5)%nat C 0) (rotl (nth ((x+1) mod 5)%nat C 0) 1)) idx5 in
  map (fun i : nat => N.lxor (lane st i) (nth (i mod 5)%nat D 0)) idx25.

Definition rhopi (st : list N) : list N :=
  map (fun j : nat => let X := (j mod 5)%nat in let Y := (j / 5)%nat in
                let x := ((X + 3*Y) mod 5)%nat in
                let i := (x + 5*X)%nat in
                rotl (lane st i) (nth i rots 0)) idx25.

Definition chi (st : list N) : list N :=
  map (fun j : nat => let X := (j mod 5)%nat in let Y5 := (5 * (j / 5))%nat in
                N.lxor (lane st j)
                       (N.ldiff (lane st ((X+2) mod 5 + Y5)%nat) (lane st ((X+1) mod 5 + Y5)%nat))) idx25.

Definition iota (rc : N) (st : list N) : list N :=
  match st with a :: t => N.lxor a rc :: t | [] => [] end.

Definition kround (st : list N) (rc : N) : list N := iota rc (chi (rhopi (theta st))).
Definition keccak_f (st : list N) : list N := fold_left kround rcs st.

(* little-endian lanes *)
Fixpoint le_val (b : bytes) : N := match b with [] => 0 | x :: t => x + 256 * le_val t end.
Fixpoint le_bytes (k : nat) (n : N) : bytes :=
  match k with O => [] | S k' => (n mod 256) :: le_bytes k' (n / 256) end.

Fixpoint lanes_of (k : nat) (b : bytes) : list N :=
  match k with O => [] | S k' => le_val (firstn 8 b) :: lanes_of k' (skipn 8 b) end.

Definition rate : nat := 136.

Definition kpad (msg : bytes) : bytes :=
  let padlen := (rate - (length msg mod rate))%nat in
  if Nat.eqb padlen 1 then msg ++ [0x81]
  else msg ++ [0x01] ++ repeat 0 (padlen - 2) ++ [0x80].

Fixpoint xor_lanes (st blk : list N) : list N :=
  match st, blk with
  | s :: st', b :: blk' => N.lxor s b :: xor_lanes st' blk'
  | _, [] => st
  | [], _ => []
  end.

Fixpoint absorb (fuel : nat) (st : list N) (b : bytes) : list N :=
  match fuel with
  | O => st
  | S f =>
      match b with
      | [] => st
      | _ => absorb f (keccak_f (xor_lanes st (lanes_of 17 (firstn rate b)))) (skipn rate b)
      end
  end.

Definition keccak256 (msg : bytes) : bytes :=
  let p := kpad msg in
  let st := absorb (S (length p / rate)) (repeat 0 25%nat) p in
  flat_map (le_bytes 8) (firstn 4 st).
