(* Toy.v — a closed instance of the crypto record and of the toy signature scheme (8-byte public
   key, signature = pk ++ first 8 bytes of keccak256(pk ++ msg) ++ arbitrary padding), used for
   non-vacuity Examples (every hypothesis of a property theorem is met by a concrete object) and
   implemented identically by the harness as a custom EnrKey with variable-length signatures.
   Definitions only. *)
Require Import Enr.Bytes Enr.Consts Enr.Rlp Enr.SortedMap Enr.Keccak Enr.Record Enr.Update.
Open Scope N_scope.

(* no secp256k1 / ed25519 key is valid, nothing verifies: only the toy scheme is live *)
Definition toy_crypto : crypto :=
  {| secp_pk := fun _ => None;
     ecdsa_core := fun _ _ _ => false;
     ed_pk_ok := fun _ => false;
     ed_core := fun _ _ _ => false;
     secp_chk := fun _ => false |}.

Definition toy_pub (b : bytes) : pubkey := {| pk_scheme := SToy; pk_enc := b; pk_unc := b |}.
Definition toy_key (b : bytes) : skey := {| sk_pub := toy_pub b |}.
(* the signer: tag, then [pad] arbitrary bytes *)
Definition toy_signer (b pad : bytes) : signer := fun msg => Some (b ++ toy_tag b msg ++ pad).

Definition toy_pk1 : bytes := [1; 2; 3; 4; 5; 6; 7; 8].
Definition toy_pk2 : bytes := [9; 9; 9; 9; 0; 0; 0; 1].

(* a built record, and one history on it *)
Definition toy_built : res record :=
  build toy_crypto Toy 1 [BIp4 [127; 0; 0; 1]; BUdp4 30303; BVal [102; 111; 111] (TBytes [98; 97; 114])]
        (toy_key toy_pk1) (toy_signer toy_pk1 []).

Definition toy_history : list (op * skey * signer) :=
  [ (OSetTcp4 8080, toy_key toy_pk1, toy_signer toy_pk1 [7; 7; 7]);
    (OSetIp [10; 0; 0; 1], toy_key toy_pk1, toy_signer toy_pk1 []);
    (ORemoveKey k_udp, toy_key toy_pk2, toy_signer toy_pk2 [1]);
    (OSetSeq 255, toy_key toy_pk2, toy_signer toy_pk2 []) ].
