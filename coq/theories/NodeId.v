(* NodeId.v — src/node_id.rs: parse, hex forms, serde, Display/Debug. Definitions only. *)
Require Import Enr.Bytes.
Open Scope N_scope.

Definition nodeid_parse (x : bytes) : option bytes :=
  if lenN x =? 32 then Some x else None.

Definition hex_digit (v : N) : N := if v <? 10 then 48 + v else 97 + (v - 10).
Fixpoint hex_encode (b : bytes) : bytes :=
  match b with [] => [] | x :: t => hex_digit (x / 16) :: hex_digit (x mod 16) :: hex_encode t end.

Definition hex_val (ch : N) : option N :=
  if (48 <=? ch) && (ch <=? 57) then Some (ch - 48)
  else if (97 <=? ch) && (ch <=? 102) then Some (ch - 97 + 10)
  else if (65 <=? ch) && (ch <=? 70) then Some (ch - 65 + 10)
  else None.
Fixpoint hex_decode (s : bytes) : option bytes :=
  match s with
  | [] => Some []
  | h :: l :: t =>
      match hex_val h, hex_val l, hex_decode t with
      | Some a, Some b, Some r => Some (a * 16 + b :: r)
      | _, _, _ => None
      end
  | [_] => None
  end.

Definition prefix_0x : bytes := [48; 120].

(* serde: "0x" + 64 lowercase hex digits *)
Definition nodeid_ser (x : bytes) : bytes := prefix_0x ++ hex_encode x.
(* strip one optional "0x", then exactly 64 hex digits of either case *)
Definition nodeid_deser (s : bytes) : option bytes :=
  let body := if bytes_eqb (firstn 2 s) prefix_0x then skipn 2 s else s in
  if lenN body =? 64 then hex_decode body else None.

Definition nodeid_debug (x : bytes) : bytes := prefix_0x ++ hex_encode x.
Definition nodeid_display (x : bytes) : bytes :=
  let h := hex_encode x in
  prefix_0x ++ firstn 4 h ++ [46; 46] ++ skipn (length h - 4) h.
