(* Record.v — the Enr struct, its encoding, the decoder, verification and every accessor.
   Mirrors src/lib.rs (Enr impl, Encodable, Decodable) and src/keys/*.rs (enr_to_public, verify_v4).
   Definitions only. *)
Require Import Enr.Bytes Enr.Consts Enr.Rlp Enr.SortedMap Enr.Keccak.
Open Scope N_scope.

Definition MAX_ENR_SIZE : N := 300.

(* ---- crypto cores: universally quantified in every theorem, real libraries at run time ---- *)
Record crypto := {
  (* SEC1 public key bytes -> (33-byte compressed, 64-byte uncompressed x||y) when a valid point *)
  secp_pk : bytes -> option (bytes * bytes);
  (* the ECDSA verification equation for a valid key, a 32-byte digest and a 64-byte r||s with
     0 < r < n and 0 < s <= (n-1)/2 (framing and range checks are concrete, below) *)
  ecdsa_core : bytes -> bytes -> bytes -> bool;
  (* ed25519: VerifyingKey::try_from on 32 bytes; verification of a 64-byte signature *)
  ed_pk_ok : bytes -> bool;
  ed_core : bytes -> bytes -> bytes -> bool;
  (* validity of SEC1 bytes according to the back-end compiled into check_spec_reserved_keys
     (libsecp256k1 when the rust-secp256k1 feature is on, else k256) *)
  secp_chk : bytes -> bool
}.

Inductive keytype := K256 | LibSecp | Ed | Comb | Toy.
Inductive scheme := SSecp | SEd | SToy.

(* a decoded public key: scheme, encode() bytes, encode_uncompressed() bytes *)
Record pubkey := { pk_scheme : scheme; pk_enc : bytes; pk_unc : bytes }.

Definition scheme_key (s : scheme) : bytes :=
  match s with SSecp => k_secp | SEd => k_ed | SToy => k_toy end.

(* secp256k1 group order and (n-1)/2 *)
Definition secp_n : N := 0xFFFFFFFFFFFFFFFFFFFFFFFFFFFFFFFEBAAEDCE6AF48A03BBFD25E8CD0364141.
Definition secp_half_n : N := 0x7FFFFFFFFFFFFFFFFFFFFFFFFFFFFFFF5D576E7357A4501DDFE92F46681B20A0.

Section WithCrypto.
Variable c : crypto.

(* EnrKey::enr_to_public for the single-scheme key types *)
Definition secp_to_public (m : smap) : res pubkey :=
  match sm_get k_secp m with
  | None => Err ECustom
  | Some v =>
      do (b, _) <- dec_string v;
      match secp_pk c b with
      | Some (cp, un) => Ok {| pk_scheme := SSecp; pk_enc := cp; pk_unc := un |}
      | None => Err ECustom
      end
  end.

Definition ed_to_public (m : smap) : res pubkey :=
  match sm_get k_ed m with
  | None => Err ECustom
  | Some v =>
      do (b, _) <- dec_string v;
      if (lenN b =? 32) && ed_pk_ok c b
      then Ok {| pk_scheme := SEd; pk_enc := b; pk_unc := b |}
      else Err ECustom
  end.

Definition toy_to_public (m : smap) : res pubkey :=
  match sm_get k_toy m with
  | None => Err ECustom
  | Some v =>
      do (b, _) <- dec_string v;
      if lenN b =? 8 then Ok {| pk_scheme := SToy; pk_enc := b; pk_unc := b |} else Err ECustom
  end.

Definition enr_to_public (kt : keytype) (m : smap) : res pubkey :=
  match kt with
  | K256 | LibSecp => secp_to_public m
  | Ed => ed_to_public m
  | Comb => match secp_to_public m with Ok p => Ok p | _ => ed_to_public m end
  | Toy => toy_to_public m
  end.

(* EnrPublicKey::verify_v4 *)
Definition verify_secp (pk msg sg : bytes) : bool :=
  (lenN sg =? 64) &&
  (let r := be_val (firstn 32 sg) in
   let s := be_val (skipn 32 sg) in
   (0 <? r) && (r <? secp_n) && (0 <? s) && (s <=? secp_half_n)) &&
  ecdsa_core c pk (keccak256 msg) sg.

Definition verify_ed (pk msg sg : bytes) : bool :=
  (lenN sg =? 64) && ed_core c pk msg sg.

Definition toy_tag (pk msg : bytes) : bytes := firstn 8 (keccak256 (pk ++ msg)).
Definition verify_toy (pk msg sg : bytes) : bool :=
  (16 <=? lenN sg) && bytes_eqb (firstn 16 sg) (pk ++ toy_tag pk msg).

Definition verify_v4 (p : pubkey) (msg sg : bytes) : bool :=
  match pk_scheme p with
  | SSecp => verify_secp (pk_enc p) msg sg
  | SEd => verify_ed (pk_enc p) msg sg
  | SToy => verify_toy (pk_enc p) msg sg
  end.

(* NodeId::from(public key) *)
Definition node_id_of (p : pubkey) : bytes := keccak256 (pk_unc p).

(* ---- the record ---- *)
Record record := { seq : N; nid : bytes; content : smap; sig : bytes }.

Definition enc_pair (kv : bytes * bytes) : bytes := enc_string (fst kv) ++ snd kv.
Definition payload_body (sq : N) (m : smap) : bytes := enc_uint sq ++ flat_map enc_pair m.
(* rlp_content(): what is signed *)
Definition signed_payload_of (sq : N) (m : smap) : bytes := enc_list (payload_body sq m).
Definition signed_payload (r : record) : bytes := signed_payload_of (seq r) (content r).
(* Encodable::encode *)
Definition encode (r : record) : bytes :=
  enc_list (enc_string (sig r) ++ payload_body (seq r) (content r)).
Definition size (r : record) : N := lenN (encode r).

(* ---- generic accessors ---- *)
Definition get_raw (r : record) (k : bytes) : option bytes := sm_get k (content r).

(* get(): header of the stored value, `expect("All data is sanitized")` *)
Definition get (r : record) (k : bytes) : option (res bytes) :=
  match get_raw r k with
  | None => None
  | Some v => Some (match hdr_decode v with Ok (_, n, p) => Ok (takeN n p) | _ => Panic end)
  end.

Definition get_bytes (r : record) (k : bytes) : option (res bytes) :=
  option_map (fun v => do (s, _) <- dec_string v; Ok s) (get_raw r k).
Definition get_uint (w : N) (r : record) (k : bytes) : option (res N) :=
  option_map (fun v => do (x, _) <- dec_uint w v; Ok x) (get_raw r k).
Definition get_strings (r : record) (k : bytes) : option (res (list bytes)) :=
  option_map (fun v => do (l, _) <- dec_vec_bytes v; Ok l) (get_raw r k).

Definition ok_some {A} (x : option (res A)) : option A :=
  match x with Some (Ok a) => Some a | _ => None end.

(* ---- typed accessors ---- *)
Definition id (r : record) : option bytes := ok_some (get_bytes r k_id).
Definition ip4 (r : record) : option bytes :=
  match ok_some (get_bytes r k_ip) with Some b => if lenN b =? 4 then Some b else None | None => None end.
Definition ip6 (r : record) : option bytes :=
  match ok_some (get_bytes r k_ip6) with Some b => if lenN b =? 16 then Some b else None | None => None end.
Definition port (r : record) (k : bytes) : option N := ok_some (get_uint 2 r k).
Definition tcp4 r := port r k_tcp.
Definition tcp6 r := port r k_tcp6.
Definition udp4 r := port r k_udp.
Definition udp6 r := port r k_udp6.
Definition sock (ip : option bytes) (p : option N) : option (bytes * N) :=
  match ip, p with Some a, Some q => Some (a, q) | _, _ => None end.
Definition udp4_socket r := sock (ip4 r) (udp4 r).
Definition udp6_socket r := sock (ip6 r) (udp6 r).
Definition tcp4_socket r := sock (ip4 r) (tcp4 r).
Definition tcp6_socket r := sock (ip6 r) (tcp6 r).
Definition is_some {A} (o : option A) : bool := match o with Some _ => true | None => false end.
Definition is_udp_reachable r := is_some (udp4_socket r) || is_some (udp6_socket r).
Definition is_tcp_reachable r := is_some (tcp4_socket r) || is_some (tcp6_socket r).
Definition client_info (r : record) : option (list bytes) :=
  match ok_some (get_strings r k_client) with
  | Some l => if Nat.eqb (length l) 2 || Nat.eqb (length l) 3 then Some l else None
  | None => None
  end.

(* ---- public key, verification ---- *)
(* public_key(): `expect("ENR's can only be created with supported keys")` *)
Definition public_key (kt : keytype) (r : record) : res pubkey :=
  match enr_to_public kt (content r) with Ok p => Ok p | _ => Panic end.

Definition id_is_v4 (r : record) : bool :=
  match id r with Some b => bytes_eqb b v4 | None => false end.

Definition verify (kt : keytype) (r : record) : res bool :=
  do p <- public_key kt r;
  Ok (id_is_v4 r && verify_v4 p (signed_payload r) (sig r)).

(* ---- the decoder ---- *)
Definition is_port_key (k : bytes) : bool :=
  bytes_eqb k k_tcp || bytes_eqb k k_tcp6 || bytes_eqb k k_udp || bytes_eqb k k_udp6.

(* one value, by key: returns (stored raw value, rest of payload) *)
Definition dec_value (key payload : bytes) : res (bytes * bytes) :=
  if bytes_eqb key k_id then
    do (s, rest) <- dec_string payload;
    if bytes_eqb s v4 then Ok (enc_string s, rest) else Err ECustom
  else if is_port_key key then
    do (p, rest) <- dec_uint 2 payload; Ok (enc_uint p, rest)
  else if bytes_eqb key k_ip then
    do (s, rest) <- dec_fixed 4 payload; Ok (enc_string s, rest)
  else if bytes_eqb key k_ip6 then
    do (s, rest) <- dec_fixed 16 payload; Ok (enc_string s, rest)
  else if bytes_eqb key k_secp || bytes_eqb key k_ed then
    do (s, rest) <- dec_string payload; Ok (enc_string s, rest)
  else
    do (l, v, rest) <- dec_item payload; Ok (reframe l v, rest).

Fixpoint dec_pairs (fuel : nat) (prev : option bytes) (payload : bytes) : res smap :=
  match payload with
  | [] => Ok []
  | _ =>
      match fuel with
      | O => Err EFuel
      | S f =>
          do (key, p1) <- dec_string payload;
          if (match prev with Some pk => negb (bytes_ltb pk key) | None => false end)
          then Err ECustom (* Unsorted keys *)
          else
            do (v, p2) <- dec_value key p1;
            do rest <- dec_pairs f (Some key) p2;
            Ok ((key, v) :: rest)
      end
  end.

Definition decode (kt : keytype) (buf : bytes) : res (record * bytes) :=
  (* size gate on the item: header length + payload length *)
  do (_, n, p) <- hdr_decode buf;
  if MAX_ENR_SIZE <? (lenN buf - lenN p) + n then Err ECustom else
  do (payload, rest) <- dec_list buf;
  if is_empty payload then Err ECustom else
  do (sg, p1) <- dec_string payload;
  if is_empty p1 then Err ECustom else
  do (sq, p2) <- dec_uint 8 p1;
  do m <- dec_pairs (length p2) None p2;
  do pk <- enr_to_public kt m;
  let r := {| seq := sq; nid := node_id_of pk; content := m; sig := sg |} in
  do ok <- verify kt r;
  if ok then Ok (r, rest) else Err ECustom.

(* Vec<Enr<K>>::decode *)
Fixpoint dec_records (kt : keytype) (fuel : nat) (payload : bytes) : res (list record) :=
  match payload with
  | [] => Ok []
  | _ =>
      match fuel with
      | O => Err EFuel
      | S f =>
          do (r, rest) <- decode kt payload;
          do l <- dec_records kt f rest;
          Ok (r :: l)
      end
  end.
Definition decode_vec (kt : keytype) (buf : bytes) : res (list record * bytes) :=
  do (payload, rest) <- dec_list buf;
  do l <- dec_records kt (length payload) payload;
  Ok (l, rest).

(* PartialEq / Hash input / compare_content *)
Definition rec_eqb (a b : record) : bool :=
  (seq a =? seq b) && bytes_eqb (nid a) (nid b) && bytes_eqb (sig a) (sig b).
Definition hash_input (r : record) : N * bytes * bytes := (seq r, nid r, sig r).
Definition compare_content (a b : record) : bool :=
  bytes_eqb (signed_payload a) (signed_payload b).

End WithCrypto.
