(* Thm_Size.v — C09: sizes. Encoded lengths are monotone in the sequence number and in the payload;
   with 64-byte signatures an update is refused for size exactly when its result exceeds 300 bytes;
   the builder refuses everything above 300 and nothing at or below 292. *)
Require Import EnrProofs.Tactics EnrProofs.BytesLemmas EnrProofs.RlpLemmas EnrProofs.UpdateLemmas
  EnrProofs.RefineLemmas EnrProofs.Thm_Refine EnrProofs.Thm_Valid EnrProofs.Thm_More.
Require Import Enr.Consts Enr.Rlp Enr.SortedMap Enr.Keccak Enr.Record Enr.Update Enr.Spec.
Require Import EnrProofs.WellFormedLemmas.
Open Scope N_scope.

(* ---- lengths of minimal big-endian numbers ---- *)
Lemma be_trim_lt_pow n : n < 256 ^ lenN (be_trim n).
Proof. pose proof (be_val_bound (be_trim n) (be_trim_ok n)) as H. rewrite be_val_trim in H. exact H. Qed.

Lemma be_trim_len_mono n n' : n <= n' -> lenN (be_trim n) <= lenN (be_trim n').
Proof. intros H. apply be_trim_len_le. pose proof (be_trim_lt_pow n'). lia. Qed.

Lemma be_trim_small n : 0 < n < 256 -> be_trim n = [n].
Proof.
  intros H. assert (E : be_val [n] = n) by (unfold be_val; cbn [be_val_acc]; lia).
  rewrite <- E at 1. apply be_trim_digits; [apply bytes_ok_cons; split; [lia | constructor] | lia].
Qed.

Lemma be_trim_single n x : be_trim n = [x] -> x = n.
Proof. intros H. pose proof (be_val_trim n) as E. rewrite H in E. unfold be_val in E. cbn [be_val_acc] in E. lia. Qed.

Lemma hdr_len_short l n : n < 56 -> lenN (hdr_encode l n) = 1.
Proof. intros H. unfold hdr_encode. replace (n <? 56) with true by lia. reflexivity. Qed.
Lemma hdr_len_long l n : 56 <= n -> lenN (hdr_encode l n) = 1 + lenN (be_trim n).
Proof. intros H. unfold hdr_encode. replace (n <? 56) with false by lia. rewrite lenN_cons. reflexivity. Qed.

Lemma hdr_len_mono l n n' : n <= n' -> lenN (hdr_encode l n) <= lenN (hdr_encode l n').
Proof.
  intros H. destruct (n' <? 56) eqn:E'.
  - rewrite !hdr_len_short by lia. lia.
  - rewrite (hdr_len_long l n') by lia. destruct (n <? 56) eqn:E.
    + rewrite hdr_len_short by lia. lia.
    + rewrite hdr_len_long by lia. pose proof (be_trim_len_mono n n' H). lia.
Qed.

Lemma hdr_len_ge1 l n : 1 <= lenN (hdr_encode l n).
Proof. unfold hdr_encode. destruct (n <? 56); [cbn; lia | rewrite lenN_cons; lia]. Qed.

(* closed form of the length of a canonical integer *)
Lemma enc_uint_len n : n < 2 ^ 64 -> lenN (enc_uint n) = if n <? 128 then 1 else 1 + lenN (be_trim n).
Proof.
  intros H64. unfold enc_uint, enc_string.
  pose proof (be_trim_len_le n 8) as H8. change (256 ^ 8) with (2 ^ 64) in H8. specialize (H8 H64).
  destruct (N.eq_dec n 0) as [->|Hn0]; [reflexivity|].
  destruct (n <? 128) eqn:E.
  - rewrite be_trim_small by lia. rewrite E. reflexivity.
  - destruct (be_trim n) as [|x [|y t]] eqn:Et.
    + destruct (be_trim_head n Hn0) as (x & t & Hx & _). congruence.
    + pose proof (be_trim_single n x Et). subst x. rewrite E. rewrite lenN_app, hdr_len_short by lia. reflexivity.
    + rewrite lenN_app, hdr_len_short by lia. reflexivity.
Qed.

Lemma enc_uint_len_mono n n' : n <= n' -> n' < 2 ^ 64 -> lenN (enc_uint n) <= lenN (enc_uint n').
Proof.
  intros H H64. rewrite !enc_uint_len by lia.
  destruct (n <? 128) eqn:E; destruct (n' <? 128) eqn:E'; try lia.
  pose proof (be_trim_len_mono n n' H). lia.
Qed.

(* signatures of equal length >= 2 frame to equal lengths *)
Lemma enc_string_len_eq s s' : lenN s = lenN s' -> 2 <= lenN s -> lenN (enc_string s) = lenN (enc_string s').
Proof.
  intros He H2. unfold enc_string.
  destruct s as [|x [|y t]]; [cbn in H2; lia | cbn in H2; lia|].
  destruct s' as [|x' [|y' t']]; [cbn in He; lia | cbn in He; lia|].
  rewrite !lenN_app, He. reflexivity.
Qed.

(* ---- record sizes ---- *)
Definition body_len (sq : N) (m : smap) (s : bytes) : N := lenN (enc_string s) + lenN (enc_uint sq) + lenN (flat_map enc_pair m).

Lemma size_cand sq nd m s : size (cand sq nd m s) = lenN (hdr_encode true (body_len sq m s)) + body_len sq m s.
Proof.
  assert (E : lenN (enc_string s ++ enc_uint sq ++ flat_map enc_pair m) = body_len sq m s)
    by (unfold body_len; rewrite !lenN_app; lia).
  unfold size, encode, cand, enc_list, payload_body. cbn [seq content sig]. rewrite lenN_app, E. reflexivity.
Qed.

Lemma size_mono sq sq' nd nd' m s s' :
  sq <= sq' -> sq' < 2 ^ 64 -> lenN (enc_string s) <= lenN (enc_string s') ->
  size (cand sq nd m s) <= size (cand sq' nd' m s').
Proof.
  intros Hq H64 Hs. rewrite !size_cand.
  assert (Hb : body_len sq m s <= body_len sq' m s').
  { unfold body_len. pose proof (enc_uint_len_mono sq sq' Hq H64). lia. }
  pose proof (hdr_len_mono true _ _ Hb). lia.
Qed.

Section WithCrypto.
Variable c : crypto.
Variable kt : keytype.

(* with equal-length signatures (the built-in 64-byte schemes) the first size check never refuses a
   result that fits: an update is refused for size exactly when its result would exceed 300 bytes *)
Theorem finish_refused_iff pre r m k sg s :
  seq r < 2 ^ 64 -> seq r <> U64_MAX ->
  check_keyed_by c kt m k = Ok tt ->
  id_is_v4 (cand (seq r + 1) (nid r) m (sig r)) = true ->
  sg (signed_payload_of (seq r + 1) m) = Some s ->
  lenN (sig r) = lenN s -> 2 <= lenN s ->
  (finish c kt pre r m k sg = Err EExceedsMaxSize <->
   MAX_ENR_SIZE < size (cand (seq r + 1) (node_id_of (sk_pub k)) m s)).
Proof.
  intros H64 Hmax Hk Hid Hsg Hl H2.
  assert (Hmono : size (cand (seq r) (nid r) m (sig r)) <= size (cand (seq r + 1) (node_id_of (sk_pub k)) m s)).
  { apply size_mono; [lia | unfold U64_MAX in Hmax; pow64; lia|].
    rewrite (enc_string_len_eq (sig r) s) by lia. lia. }
  split.
  - intros H. apply finish_err in H.
    destruct H as [H|[(_ & _ & H)|[(H & _)|[(H & _)|[(H & _)|(_ & s' & Hs' & H)]]]]]; try discriminate.
    + rewrite Hk in H. discriminate.
    + lia.
    + rewrite Hsg in Hs'. inv Hs'. exact H.
  - intros Hbig. destruct (finish c kt pre r m k sg) as [r'|e|] eqn:E.
    + apply finish_ok_iff in E. destruct E as (_ & _ & _ & _ & s' & Hs' & Hsz & _). rewrite Hsg in Hs'. inv Hs'. lia.
    + apply finish_err in E.
      destruct E as [H|[(-> & _)|[(_ & H)|[(_ & H)|[(_ & H)|(-> & _)]]]]]; try reflexivity.
      * rewrite Hk in H. discriminate.
      * contradiction.
      * unfold cand in *. congruence.
      * congruence.
    + exfalso. revert E. apply Thm_More.finish_no_panic.
Qed.

(* the exact relation between the builder's conservative estimate and the real size *)
Lemma size_vs_estimate sq nd m s :
  lenN (signed_payload_of sq m) + lenN s <= size (cand sq nd m s).
Proof.
  rewrite size_cand. unfold signed_payload_of, enc_list, payload_body, body_len. rewrite !lenN_app.
  pose proof (lenN_enc_string_ge s) as Hs.
  pose proof (hdr_len_mono true (lenN (enc_uint sq) + lenN (flat_map enc_pair m))
                (lenN (enc_string s) + lenN (enc_uint sq) + lenN (flat_map enc_pair m)) ltac:(lia)) as Hm.
  lia.
Qed.

Theorem build_refusal sq calls k sg s nd :
  let m := with_key (sm_insert k_id (enc_string v4) (fold_left apply_bcall calls [])) k in
  check_all c (fold_left apply_bcall calls []) = Ok tt ->
  check_keyed_by c kt m k = Ok tt ->
  sg (signed_payload_of sq m) = Some s ->
  (* the builder's rule *)
  (build c kt sq calls k sg = Err EExceedsMaxSize <-> MAX_ENR_SIZE < lenN (signed_payload_of sq m) + lenN s + 8) /\
  (* every result above 300 bytes is refused *)
  (MAX_ENR_SIZE < size (cand sq nd m s) -> build c kt sq calls k sg = Err EExceedsMaxSize) /\
  (* nothing at or below 292 bytes is refused for size *)
  (build c kt sq calls k sg = Err EExceedsMaxSize -> 292 < size (cand sq nd m s)) /\
  (* what is returned is the candidate, at most 300 bytes *)
  (forall r, build c kt sq calls k sg = Ok r -> r = cand sq (node_id_of (sk_pub k)) m s /\ size r <= MAX_ENR_SIZE).
Proof.
  intros m Hchk Hk Hsg. unfold build. rewrite Hchk. cbn [bind]. fold m. rewrite Hk. cbn [bind]. rewrite Hsg. cbn [bind].
  pose proof (size_vs_estimate sq nd m s) as Hlow.
  destruct (MAX_ENR_SIZE <? lenN (signed_payload_of sq m) + lenN s + 8) eqn:E.
  - split; [split; [intros _; lia | reflexivity]|]. split; [reflexivity|]. split; [intros _; unfold MAX_ENR_SIZE in *; lia | discriminate].
  - assert (Hfit : size (cand sq nd m s) <= MAX_ENR_SIZE).
    { unfold size, encode, cand. cbn [seq content sig]. apply build_size_bound. lia. }
    split; [split; [discriminate | intros H; lia]|]. split; [intros H; lia|]. split; [discriminate|].
    intros r H. inv H. split; [reflexivity|]. unfold size, encode. cbn [seq content sig]. apply build_size_bound. lia.
Qed.

(* every update on a record whose signature has the same length as the new one (the built-in 64-byte
   schemes) is refused for size exactly when the result exceeds 300 bytes *)
Theorem step_refused_iff r o k sg s :
  seq r < 2 ^ 64 -> seq r <> U64_MAX -> (forall n, o <> OSetSeq n) ->
  check_list c (checked_inserts o) = Ok tt ->
  check_keyed_by c kt (spec_pairs o k (content r)) k = Ok tt ->
  id_is_v4 (cand (seq r + 1) (nid r) (spec_pairs o k (content r)) (sig r)) = true ->
  sg (signed_payload_of (seq r + 1) (spec_pairs o k (content r))) = Some s ->
  lenN (sig r) = lenN s -> 2 <= lenN s ->
  (fst (step c kt r o k sg) = Err EExceedsMaxSize <->
   MAX_ENR_SIZE < size (cand (seq r + 1) (node_id_of (sk_pub k)) (spec_pairs o k (content r)) s)).
Proof.
  intros H64 Hmax Hno Hchk Hk Hid Hsg Hl H2.
  assert (Hc : commit c kt r o k sg = finish c kt (pre_check o) r (spec_pairs o k (content r)) k sg).
  { destruct o; try reflexivity. elim (Hno n eq_refl). }
  unfold step. rewrite apply_op_nf, Hchk. cbn [bind]. rewrite Hc.
  rewrite <- (finish_refused_iff (pre_check o) r (spec_pairs o k (content r)) k sg s H64 Hmax Hk Hid Hsg Hl H2).
  destruct (finish c kt (pre_check o) r (spec_pairs o k (content r)) k sg) as [r'|e|]; cbn [bind fst]; split; intros H; try discriminate; try (inv H; reflexivity).
Qed.

End WithCrypto.
