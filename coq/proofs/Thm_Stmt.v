(* Thm_Stmt.v — the statement-level programs of theories/Stmt.v: (a) commit-last programs are atomic: unless they end
   with Ok the caller's record is untouched, whatever the statements before the commit do to the working copy and
   wherever they stop; (b) every program computes exactly the functional model ([step]) of Update.v. *)
Require Import EnrProofs.Tactics EnrProofs.BytesLemmas EnrProofs.RefineLemmas.
Require Import Enr.Consts Enr.Rlp Enr.SortedMap Enr.Keccak Enr.Record Enr.Update Enr.Spec Enr.Stmt.
Open Scope N_scope.

Section WithCrypto.
Variable c : crypto.
Variable kt : keytype.

Notation exec := (exec c kt).
Notation exec1 := (exec1 c kt).
Notation call := (call c kt).

Definition not_commit (s : stmt) : Prop := s <> SCommit.

(* ---- (a) atomicity is a property of the program's shape ---- *)
Lemma exec1_self s m m' : not_commit s -> exec1 s m = Ok m' -> self_r m' = self_r m.
Proof.
  intros Hn H. destruct s; cbn [Stmt.exec1] in H; try (inv H; reflexivity).
  - apply bind_ok in H. destruct H as (sq & _ & H). inv H. reflexivity.
  - apply bind_ok in H. destruct H as (u & _ & H). inv H. reflexivity.
  - apply bind_ok in H. destruct H as (u & _ & H). inv H. reflexivity.
  - destruct (MAX_ENR_SIZE <? _); inv H. reflexivity.
  - apply bind_ok in H. destruct H as (s & _ & H). inv H. reflexivity.
  - elim Hn. reflexivity.
Qed.

Lemma exec_no_commit_self p : forall m x m',
  Forall not_commit p -> exec p m = (x, m') -> self_r m' = self_r m.
Proof.
  induction p as [|s t IH]; intros m x m' Hall H; cbn [Stmt.exec] in H; [inv H; reflexivity|].
  inversion Hall as [|? ? Hs Ht]; subst.
  destruct (exec1 s m) as [m1|e|] eqn:E1; [|inv H; reflexivity | inv H; reflexivity].
  rewrite (IH m1 x m' Ht H). exact (exec1_self s m m1 Hs E1).
Qed.

Theorem commit_last_atomic p : forall m x m',
  Forall not_commit p -> exec (p ++ [SCommit]) m = (x, m') -> x <> Ok tt -> self_r m' = self_r m.
Proof.
  induction p as [|s t IH]; intros m x m' Hall H Hx.
  - cbn in H. inv H. elim Hx. reflexivity.
  - inversion Hall as [|? ? Hs Ht]; subst. cbn [app Stmt.exec] in H.
    destruct (exec1 s m) as [m1|e|] eqn:E1; [|inv H; reflexivity | inv H; reflexivity].
    rewrite (IH m1 x m' Ht H Hx). exact (exec1_self s m m1 Hs E1).
Qed.

(* every body of the update API has that shape *)
Lemma nc_map_remove rm : Forall not_commit (map SRemove rm).
Proof. induction rm; cbn [map]; constructor; [discriminate | assumption]. Qed.

Lemma nc_inserts ins :
  Forall not_commit (flat_map (fun kv : bytes * bytes => [SCheckReserved (fst kv) (enc_string (snd kv)); SInsert (fst kv) (enc_string (snd kv))]) ins).
Proof. induction ins; cbn [flat_map app]; [constructor|]. constructor; [discriminate|]. constructor; [discriminate | assumption]. Qed.

Theorem prog_commit_last o k sg : exists pre, prog_of o k sg = pre ++ [SCommit] /\ Forall not_commit pre.
Proof.
  assert (Hsimple : forall l : list stmt, Forall not_commit l -> exists pre, l ++ [SCommit] = pre ++ [SCommit] /\ Forall not_commit pre)
    by (intros l Hl; exists l; auto).
  assert (Hins : forall key v, exists pre, prog_insert_raw key v k sg = pre ++ [SCommit] /\ Forall not_commit pre).
  { intros key v. unfold prog_insert_raw, key_entry, commit_tail. cbn [app].
    eexists [_; _; _; _; _; _; _; _; _]. split; [reflexivity|]. repeat constructor; discriminate. }
  assert (Hrk : forall key, exists pre, prog_remove_key key k sg = pre ++ [SCommit] /\ Forall not_commit pre).
  { intros key. unfold prog_remove_key, key_entry, commit_tail. cbn [app].
    eexists [_; _; _; _; _; _; _]. split; [reflexivity|]. repeat constructor; discriminate. }
  assert (Hss : forall a p tcp, exists pre, prog_set_socket a p tcp k sg = pre ++ [SCommit] /\ Forall not_commit pre).
  { intros a p tcp. unfold prog_set_socket, key_entry, commit_tail. cbv zeta. cbn [app].
    eexists [_; _; _; _; _; _; _; _; _]. split; [reflexivity|]. repeat constructor; discriminate. }
  assert (Hri : forall rm ins, exists pre, prog_remove_insert rm ins k sg = pre ++ [SCommit] /\ Forall not_commit pre).
  { intros rm ins. unfold prog_remove_insert, key_entry, commit_tail.
    exists (map SRemove rm ++ flat_map (fun kv : bytes * bytes => [SCheckReserved (fst kv) (enc_string (snd kv)); SInsert (fst kv) (enc_string (snd kv))]) ins
            ++ [SInsert (pub_key_name k) (pub_entry k); SCheckKeyed k; SIncSeq; SSign k sg; SSetNid k; SCheckSize]).
    split; [rewrite <- !app_assoc; reflexivity|].
    apply Forall_app. split; [apply nc_map_remove|]. apply Forall_app. split; [apply nc_inserts|]. repeat constructor; discriminate. }
  destruct o; cbn [prog_of]; auto.
  unfold prog_set_seq, key_entry. cbn [app]. eexists [_; _; _; _; _; _]. split; [reflexivity|]. repeat constructor; discriminate.
Qed.

(* C06 at the level of statements: whichever statement of whichever body stops the call, and whatever the working copy
   looks like by then, the caller's record is the one it passed in *)
Theorem call_not_ok_unchanged o k sg r x r' : call (prog_of o k sg) r = (x, r') -> x <> Ok tt -> r' = r.
Proof.
  intros H Hx. destruct (prog_commit_last o k sg) as (pre & Hp & Hall). rewrite Hp in H. unfold Stmt.call in H.
  destruct (exec (pre ++ [SCommit]) {| self_r := r; work_r := r |}) as [x1 m1] eqn:E. inv H.
  exact (commit_last_atomic pre _ _ _ Hall E Hx).
Qed.

(* ---- (b) the programs compute the functional model ---- *)
Definition outcome {A} (x : res A) : res unit := match x with Ok _ => Ok tt | Err e => Err e | Panic => Panic end.
Definition callm (p : list stmt) (m : mst) : res unit * record := let '(x, m') := exec p m in (x, self_r m').

Lemma exec_app p q m : exec (p ++ q) m = (let '(x, m1) := exec p m in match x with Ok _ => exec q m1 | _ => (x, m1) end).
Proof.
  revert m. induction p as [|s t IH]; intros m; cbn [app Stmt.exec]; [reflexivity|].
  destruct (exec1 s m) as [m1|e|]; [apply IH | reflexivity | reflexivity].
Qed.

Definition mk (r w : record) : mst := {| self_r := r; work_r := w |}.
Definition wrec (r : record) (m : smap) : record := {| seq := seq r; nid := nid r; content := m; sig := sig r |}.

(* the shared tail: key entry, optional first size check, increment, sign, node id, size check, commit *)
Ltac stp := cbn [bind app andb Stmt.exec Stmt.exec1 work_r self_r content seq nid sig]; unfold checked_succ, upd_work; cbn [bind work_r self_r content seq nid sig].
Ltac dsize := match goal with |- context [MAX_ENR_SIZE <? size ?x] => destruct (MAX_ENR_SIZE <? size x) end.

Lemma tail_refines (pre : bool) r m0 k sg :
  callm (key_entry k ++ (if pre then [SCheckSize] else []) ++ commit_tail k sg) (mk r (wrec r m0)) =
  match finish c kt pre r (with_key m0 k) k sg with Ok r' => (Ok tt, r') | Err e => (Err e, r) | Panic => (Panic, r) end.
Proof.
  unfold callm, key_entry, commit_tail, finish, with_key, mk, wrec. stp.
  destruct (check_keyed_by c kt (sm_insert (pub_key_name k) (pub_entry k) m0) k) as [[]|e|]; stp; try reflexivity.
  destruct pre; stp.
  - dsize; stp; [reflexivity|].
    destruct (seq r =? U64_MAX); stp; [reflexivity|].
    destruct (compute_signature _ sg) as [s|e|]; stp; try reflexivity.
    dsize; reflexivity.
  - destruct (seq r =? U64_MAX); stp; [reflexivity|].
    destruct (compute_signature _ sg) as [s|e|]; stp; try reflexivity.
    dsize; reflexivity.
Qed.

Ltac use_tail T := unfold callm, mk, wrec in T; cbn [seq nid content sig app] in T.

Lemma call_insert_raw r key v k sg :
  call (prog_insert_raw key v k sg) r =
  match insert_raw c kt r key v k sg with Ok (_, r') => (Ok tt, r') | Err e => (Err e, r) | Panic => (Panic, r) end.
Proof.
  destruct r as [sq nd m0 sg0]. unfold Stmt.call, prog_insert_raw, insert_raw. stp.
  destruct (check_reserved c key v) as [[]|e|]; stp; try reflexivity.
  pose proof (tail_refines true {| seq := sq; nid := nd; content := m0; sig := sg0 |} (sm_insert key v m0) k sg) as T. use_tail T.
  rewrite T. destruct (finish c kt true _ _ k sg); reflexivity.
Qed.

Lemma call_remove_key r key k sg :
  call (prog_remove_key key k sg) r =
  match remove_key c kt r key k sg with Ok r' => (Ok tt, r') | Err e => (Err e, r) | Panic => (Panic, r) end.
Proof.
  destruct r as [sq nd m0 sg0]. unfold Stmt.call, prog_remove_key, remove_key. stp.
  pose proof (tail_refines false {| seq := sq; nid := nd; content := m0; sig := sg0 |} (sm_remove key m0) k sg) as T. use_tail T.
  exact T.
Qed.

Lemma call_set_socket r a p tcp k sg :
  call (prog_set_socket a p tcp k sg) r =
  match set_socket c kt r a p tcp k sg with Ok r' => (Ok tt, r') | Err e => (Err e, r) | Panic => (Panic, r) end.
Proof.
  destruct r as [sq nd m0 sg0]. unfold Stmt.call, prog_set_socket, set_socket. cbv zeta. stp.
  match goal with |- context [finish c kt true _ (with_key ?m k) k sg] =>
    pose proof (tail_refines true {| seq := sq; nid := nd; content := m0; sig := sg0 |} m k sg) as T end.
  use_tail T. exact T.
Qed.

Lemma call_set_seq r n k sg :
  call (prog_set_seq n k sg) r =
  match set_seq c kt r n k sg with Ok r' => (Ok tt, r') | Err e => (Err e, r) | Panic => (Panic, r) end.
Proof.
  destruct r as [sq nd m0 sg0]. unfold Stmt.call, prog_set_seq, key_entry, set_seq, with_key. stp.
  destruct (check_keyed_by c kt (sm_insert (pub_key_name k) (pub_entry k) m0) k) as [[]|e|]; stp; try reflexivity.
  destruct (compute_signature _ sg) as [s|e|]; stp; try reflexivity.
  unfold size, encode. cbn [sig seq content].
  match goal with |- context [MAX_ENR_SIZE <? lenN ?x] => destruct (MAX_ENR_SIZE <? lenN x) end; reflexivity.
Qed.

(* the two loops of remove_insert *)
Lemma exec_removes rm : forall q r w,
  exec (map SRemove rm ++ q) (mk r w) = exec q (mk r {| seq := seq w; nid := nid w; content := remove_keys rm (content w); sig := sig w |}).
Proof.
  induction rm as [|key t IH]; intros q r w; cbn [map app remove_keys fold_left].
  - destruct w; reflexivity.
  - unfold mk. stp. fold (mk r {| seq := seq w; nid := nid w; content := sm_remove key (content w); sig := sig w |}).
    rewrite IH. cbn [seq nid content sig]. reflexivity.
Qed.

Lemma callm_removes rm q r w :
  callm (map SRemove rm ++ q) (mk r w) = callm q (mk r {| seq := seq w; nid := nid w; content := remove_keys rm (content w); sig := sig w |}).
Proof. unfold callm. rewrite exec_removes. reflexivity. Qed.

Lemma callm_inserts ins : forall q r w,
  callm (flat_map (fun kv : bytes * bytes => [SCheckReserved (fst kv) (enc_string (snd kv)); SInsert (fst kv) (enc_string (snd kv))]) ins ++ q) (mk r w) =
  match insert_all c ins (content w) with
  | Ok (_, m2) => callm q (mk r {| seq := seq w; nid := nid w; content := m2; sig := sig w |})
  | Err e => (Err e, r)
  | Panic => (Panic, r)
  end.
Proof.
  induction ins as [|[key raw] t IH]; intros q r w; cbn [flat_map app insert_all fst snd].
  - destruct w; reflexivity.
  - unfold callm, mk. stp.
    destruct (check_reserved c key (enc_string raw)) as [[]|e|]; stp; try reflexivity.
    pose proof (IH q r {| seq := seq w; nid := nid w; content := sm_insert key (enc_string raw) (content w); sig := sig w |}) as T.
    unfold callm, mk in T. cbn [seq nid content sig] in T. rewrite T.
    destruct (insert_all c t (sm_insert key (enc_string raw) (content w))) as [[l m']|e|]; reflexivity.
Qed.

Lemma call_remove_insert r rm ins k sg :
  call (prog_remove_insert rm ins k sg) r =
  match remove_insert c kt r rm ins k sg with Ok (_, r') => (Ok tt, r') | Err e => (Err e, r) | Panic => (Panic, r) end.
Proof.
  destruct r as [sq nd m0 sg0]. unfold prog_remove_insert, remove_insert.
  rewrite remove_all_spec.
  match goal with |- call ?p ?R = _ => assert (E : call p R = callm p (mk R R)) by reflexivity; rewrite E; clear E end.
  rewrite callm_removes. cbn [seq nid content sig].
  rewrite callm_inserts. cbn [seq nid content sig].
  destruct (insert_all c ins (remove_keys rm m0)) as [[inserted m2]|e|]; cbn [bind]; try reflexivity.
  pose proof (tail_refines false {| seq := sq; nid := nd; content := m0; sig := sg0 |} m2 k sg) as T.
  unfold wrec in T. cbn [seq nid content sig app] in T. rewrite T.
  destruct (finish c kt false _ _ k sg); reflexivity.
Qed.

(* the refinement: for every operation of the alphabet, running its body statement by statement gives exactly the
   outcome and the caller's record that the functional model ([step]) gives *)
Theorem call_is_step o r k sg :
  call (prog_of o k sg) r = (outcome (fst (step c kt r o k sg)), snd (step c kt r o k sg)).
Proof.
  unfold step.
  destruct o; cbn [prog_of apply_op]; unfold unit_ret, set_ip, set_port, set_client_info, set_public_key;
    rewrite ?call_set_seq, ?call_insert_raw, ?call_remove_key, ?call_set_socket, ?call_remove_insert.
  all: try (match goal with |- context [set_seq c kt ?r0 ?a ?k0 ?s0] => destruct (set_seq c kt r0 a k0 s0); reflexivity end).
  all: try (match goal with |- context [insert_raw c kt ?r0 ?a ?b ?k0 ?s0] => destruct (insert_raw c kt r0 a b k0 s0) as [[? ?]|?|]; reflexivity end).
  all: try (match goal with |- context [remove_key c kt ?r0 ?a ?k0 ?s0] => destruct (remove_key c kt r0 a k0 s0); reflexivity end).
  all: try (match goal with |- context [set_socket c kt ?r0 ?a ?b ?t ?k0 ?s0] => destruct (set_socket c kt r0 a b t k0 s0); reflexivity end).
  all: try (match goal with |- context [remove_insert c kt ?r0 ?a ?b ?k0 ?s0] => destruct (remove_insert c kt r0 a b k0 s0) as [[[? ?] ?]|?|]; reflexivity end).
Qed.

(* hence C06 for the functional model is C06 for the statement-level programs, and vice versa *)
Corollary step_err_unchanged_by_shape o r k sg e r' :
  step c kt r o k sg = (Err e, r') -> r' = r.
Proof.
  intros H. pose proof (call_is_step o r k sg) as E. rewrite H in E. cbn [fst snd outcome] in E.
  apply (call_not_ok_unchanged o k sg r (Err e) r' E). discriminate.
Qed.

End WithCrypto.
