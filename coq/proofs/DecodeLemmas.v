(* DecodeLemmas.v — the record decoder: what it accepts is exactly the canonical encoding of what it
   returns; keys come out strictly sorted; values are well-typed; the result verifies. *)
Require Import EnrProofs.Tactics EnrProofs.BytesLemmas EnrProofs.RlpLemmas.
Require Import Enr.Consts Enr.Rlp Enr.SortedMap Enr.Keccak Enr.Record.
Open Scope N_scope.

Lemma dec_fixed_canon k b s rest :
  bytes_ok b -> dec_fixed k b = Ok (s, rest) -> b = enc_string s ++ rest /\ lenN s = k.
Proof.
  unfold dec_fixed. intros Hok H. bind_inv H. destruct a as [s' r']. destruct (lenN s' =? k) eqn:E; [|discriminate].
  inv Hb. split; [apply dec_string_canon; assumption | lia].
Qed.

(* the stored value is, byte for byte, what was consumed from the payload *)
Lemma dec_value_canon key p v rest :
  bytes_ok p -> dec_value key p = Ok (v, rest) -> p = v ++ rest.
Proof.
  intros Hok H. unfold dec_value in H.
  destruct (bytes_eqb key k_id).
  { bind_inv H. destruct a as [s r]. destruct (bytes_eqb s v4); [|discriminate]. inv Hb.
    apply dec_string_canon; assumption. }
  destruct (is_port_key key).
  { bind_inv H. destruct a as [q r]. inv Hb. apply (dec_uint_canon 2); assumption. }
  destruct (bytes_eqb key k_ip).
  { bind_inv H. destruct a as [s r]. inv Hb. apply (dec_fixed_canon 4); assumption. }
  destruct (bytes_eqb key k_ip6).
  { bind_inv H. destruct a as [s r]. inv Hb. apply (dec_fixed_canon 16); assumption. }
  destruct (bytes_eqb key k_secp || bytes_eqb key k_ed).
  { bind_inv H. destruct a as [s r]. inv Hb. apply dec_string_canon; assumption. }
  bind_inv H. destruct a as [[l x] r]. inv Hb. apply dec_item_canon; assumption.
Qed.

Lemma dec_pairs_S f prev p : p <> [] ->
  dec_pairs (S f) prev p =
  (do (key, p1) <- dec_string p;
   if (match prev with Some pk => negb (bytes_ltb pk key) | None => false end)
   then Err ECustom
   else
     do (v, p2) <- dec_value key p1;
     do rest <- dec_pairs f (Some key) p2;
     Ok ((key, v) :: rest)).
Proof. destruct p; [congruence | reflexivity]. Qed.

Lemma bytes_ok_split a b : bytes_ok (a ++ b) -> bytes_ok b.
Proof. intros H. apply bytes_ok_app in H. tauto. Qed.

Lemma dec_pairs_canon fuel : forall prev p m,
  bytes_ok p -> dec_pairs fuel prev p = Ok m -> p = flat_map enc_pair m.
Proof.
  induction fuel as [|f IH]; intros prev p m Hok H.
  - destruct p; cbn [dec_pairs] in H; [inv H; reflexivity | discriminate].
  - destruct p as [|b0 p0]; [cbn [dec_pairs] in H; inv H; reflexivity|].
    rewrite dec_pairs_S in H by discriminate. remember (b0 :: p0) as p eqn:Ep.
    bind_inv H. destruct a as [key p1].
    destruct (match prev with Some pk => negb (bytes_ltb pk key) | None => false end); [discriminate|].
    bind_inv Hb. destruct a as [v p2]. bind_inv Hb0. inv Hb.
    pose proof (dec_string_canon _ _ _ Hok Ha) as Hk.
    assert (Hok1 : bytes_ok p1) by (rewrite Hk in Hok; eapply bytes_ok_split; eauto).
    pose proof (dec_value_canon _ _ _ _ Hok1 Ha0) as Hv.
    assert (Hok2 : bytes_ok p2) by (rewrite Hv in Hok1; eapply bytes_ok_split; eauto).
    pose proof (IH _ _ _ Hok2 Ha1) as Hr.
    cbn [flat_map]. unfold enc_pair at 1. cbn [fst snd].
    rewrite Hk, Hv, Hr at 1. rewrite <- !app_assoc. reflexivity.
Qed.

(* keys are strictly increasing, and above [prev] *)
Inductive sorted_from : option bytes -> list bytes -> Prop :=
  | sf_nil prev : sorted_from prev []
  | sf_cons prev k t :
      (match prev with Some pk => bytes_ltb pk k = true | None => True end) ->
      sorted_from (Some k) t -> sorted_from prev (k :: t).

Lemma dec_pairs_sorted fuel : forall prev p m,
  dec_pairs fuel prev p = Ok m -> sorted_from prev (map fst m).
Proof.
  induction fuel as [|f IH]; intros prev p m H.
  - destruct p; cbn [dec_pairs] in H; [inv H; constructor | discriminate].
  - destruct p as [|b0 p0]; [cbn [dec_pairs] in H; inv H; constructor|].
    rewrite dec_pairs_S in H by discriminate. remember (b0 :: p0) as p eqn:Ep.
    bind_inv H. destruct a as [key p1].
    destruct (match prev with Some pk => negb (bytes_ltb pk key) | None => false end) eqn:Es; [discriminate|].
    bind_inv Hb. destruct a as [v p2]. bind_inv Hb0. inv Hb.
    cbn [map fst]. constructor; [|eapply IH; eauto].
    destruct prev as [pk|]; [|exact I]. apply negb_false_iff in Es. exact Es.
Qed.

Section WithCrypto.
Variable c : crypto.

(* what an accepted input looks like, field by field *)
Lemma decode_shape kt b r rest :
  bytes_ok b -> decode c kt b = Ok (r, rest) ->
  b = encode r ++ rest /\
  lenN (encode r) <= MAX_ENR_SIZE /\
  seq r < 2 ^ 64 /\
  sorted_from None (map fst (content r)) /\
  exists pk, enr_to_public c kt (content r) = Ok pk /\ nid r = node_id_of pk /\
             id_is_v4 r = true /\ verify_v4 c pk (signed_payload r) (sig r) = true.
Proof.
  intros Hok H. unfold decode in H.
  bind_inv H. destruct a as [[l0 n] p].
  destruct (MAX_ENR_SIZE <? lenN b - lenN p + n) eqn:Egate; [discriminate|].
  bind_inv Hb. destruct a as [payload rest'].
  destruct (is_empty payload) eqn:Ee1; [discriminate|].
  bind_inv Hb0. destruct a as [sg p1].
  destruct (is_empty p1) eqn:Ee2; [discriminate|].
  bind_inv Hb. destruct a as [sq p2].
  bind_inv Hb0. rename a into m.
  bind_inv Hb. rename a into pk.
  bind_inv Hb0. destruct a as [|]; [|discriminate]. inv Hb.
  destruct (dec_list_canon _ _ _ Hok Ha0) as [Hlist Hl64].
  assert (Hokp : bytes_ok payload).
  { rewrite Hlist in Hok. apply bytes_ok_app in Hok. destruct Hok as [Hok _]. unfold enc_list in Hok.
    eapply bytes_ok_split; eauto. }
  pose proof (dec_string_canon _ _ _ Hokp Ha1) as Hsig.
  assert (Hok1 : bytes_ok p1) by (rewrite Hsig in Hokp; eapply bytes_ok_split; eauto).
  destruct (dec_uint_canon _ _ _ _ Hok1 Ha2) as [Hseq Hsq].
  assert (Hok2 : bytes_ok p2) by (rewrite Hseq in Hok1; eapply bytes_ok_split; eauto).
  pose proof (dec_pairs_canon _ _ _ _ Hok2 Ha3) as Hpairs.
  assert (Henc : encode {| seq := sq; nid := node_id_of pk; content := m; sig := sg |} = enc_list payload).
  { unfold encode, payload_body. cbn [seq content sig]. rewrite Hsig, Hseq, Hpairs at 1. reflexivity. }
  split; [rewrite Henc; exact Hlist|].
  split.
  { (* the size gate bounds the item *)
    rewrite Henc. unfold enc_list. rewrite lenN_app.
    unfold dec_list, dec_payload in Ha0. rewrite Ha in Ha0. cbn [bind] in Ha0.
    destruct (Bool.eqb l0 true) eqn:El; [|discriminate]. apply eqb_prop in El.
    injection Ha0 as Epl _.
    destruct (hdr_decode_canon _ _ _ _ Hok Ha) as [(x & t & _ & _ & Hf & _) | (Hbb & Hn & H64 & _)]; [congruence|].
    destruct (take_drop n p Hn) as [_ Hlen]. rewrite <- Epl, Hlen.
    assert (Hlb : lenN b = lenN (hdr_encode l0 n) + lenN p) by (rewrite Hbb at 1; apply lenN_app).
    rewrite El in Hlb. unfold MAX_ENR_SIZE in *. lia. }
  split; [cbn [seq]; change (2 ^ 64) with (256 ^ 8); exact Hsq|].
  split; [cbn [content]; eapply dec_pairs_sorted; eauto|].
  exists pk. cbn [content nid]. split; [exact Ha4|]. split; [reflexivity|].
  unfold verify, public_key in Ha5. cbn [content] in Ha5. rewrite Ha4 in Ha5. cbn [bind] in Ha5.
  injection Ha5 as Hv. apply andb_true_iff in Hv. exact Hv.
Qed.

End WithCrypto.
