(* Thm_Refine.v — C08: builder and updates refine a plain sorted key/value map. *)
Require Import EnrProofs.Tactics EnrProofs.BytesLemmas EnrProofs.RlpLemmas EnrProofs.SortedMapLemmas
  EnrProofs.UpdateLemmas EnrProofs.ErrLemmas EnrProofs.RefineLemmas.
Require Import Enr.Consts Enr.Rlp Enr.SortedMap Enr.Keccak Enr.Record Enr.Update Enr.Spec.
Require EnrProofs.WellFormedLemmas.
Open Scope N_scope.

(* lookups after the specification's three phases *)
Lemma get_remove_keys keys : forall m k', ~ In k' keys -> sm_get k' (remove_keys keys m) = sm_get k' m.
Proof.
  induction keys as [|key t IH]; intros m k' Hn; cbn [remove_keys fold_left]; [reflexivity|].
  fold (remove_keys t (sm_remove key m)). rewrite IH by (intros H; apply Hn; right; exact H).
  apply sm_get_remove_other. intros E. apply Hn. left. symmetry. exact E.
Qed.

Lemma get_remove_keys_in keys : forall m k', sm_sorted m -> In k' keys -> sm_get k' (remove_keys keys m) = None.
Proof.
  induction keys as [|key t IH]; intros m k' Hs Hin; [destruct Hin|]. cbn [remove_keys fold_left].
  fold (remove_keys t (sm_remove key m)).
  destruct (in_dec (list_eq_dec N.eq_dec) k' t) as [Ht|Ht].
  - apply IH; [apply sm_remove_sorted; exact Hs | exact Ht].
  - rewrite get_remove_keys by exact Ht. destruct Hin as [->|Hin]; [apply sm_get_remove_same; exact Hs | contradiction].
Qed.

Lemma get_insert_pairs kvs : forall m k', ~ In k' (map fst kvs) -> sm_get k' (insert_pairs kvs m) = sm_get k' m.
Proof.
  induction kvs as [|[key v] t IH]; intros m k' Hn; cbn [insert_pairs fold_left fst snd]; [reflexivity|].
  fold (insert_pairs t (sm_insert key v m)). rewrite IH by (intros H; apply Hn; right; exact H).
  apply sm_get_insert_other. intros E. apply Hn. left. symmetry. exact E.
Qed.

(* the last write to a key wins *)
Lemma get_insert_pairs_last kvs : forall m key v,
  ~ In key (map fst kvs) -> sm_get key (insert_pairs kvs (sm_insert key v m)) = Some v.
Proof. intros m key v Hn. rewrite get_insert_pairs by exact Hn. apply sm_get_insert_same. Qed.

Lemma insert_pairs_app a b m : insert_pairs (a ++ b) m = insert_pairs b (insert_pairs a m).
Proof. unfold insert_pairs. apply fold_left_app. Qed.

(* the last write to a key wins, wherever it sits in the list *)
Lemma get_insert_pairs_split pre key v post m :
  ~ In key (map fst post) -> sm_get key (insert_pairs (pre ++ (key, v) :: post) m) = Some v.
Proof.
  intros Hn. rewrite insert_pairs_app. cbn [insert_pairs fold_left fst snd].
  fold (insert_pairs post (sm_insert key v (insert_pairs pre m))). apply get_insert_pairs_last. exact Hn.
Qed.

Lemma fold_bcalls calls : forall m, fold_left apply_bcall calls m = insert_pairs (map bcall_pair calls) m.
Proof.
  induction calls as [|b t IH]; intros m; cbn [fold_left map insert_pairs]; [reflexivity|].
  rewrite IH. destruct b; reflexivity.
Qed.

Section WithCrypto.
Variable c : crypto.
Variable kt : keytype.

Theorem step_refines r o k sg x r' :
  seq r < 2 ^ 64 -> (forall n, o = OSetSeq n -> n < 2 ^ 64) ->
  step c kt r o k sg = (Ok x, r') ->
  content r' = spec_pairs o k (content r) /\ x = spec_ret o r.
Proof.
  intros Hs Hn H. unfold step in H. destruct (apply_op c kt r o k sg) as [[x1 r1]|e1|] eqn:E; inv H.
  destruct (apply_op_spec c kt _ _ _ _ _ _ Hs Hn E) as (H1 & H2 & _). auto.
Qed.

(* every other pair is untouched *)
Theorem step_untouched r o k sg x r' k' :
  seq r < 2 ^ 64 -> (forall n, o = OSetSeq n -> n < 2 ^ 64) ->
  step c kt r o k sg = (Ok x, r') ->
  ~ In k' (removes o) -> ~ In k' (map fst (inserts o)) -> k' <> pub_key_name k ->
  sm_get k' (content r') = sm_get k' (content r).
Proof.
  intros Hs Hn H Hr Hi Hk. destruct (step_refines _ _ _ _ _ _ Hs Hn H) as [-> _].
  unfold spec_pairs, with_key. rewrite sm_get_insert_other by exact Hk.
  rewrite get_insert_pairs by exact Hi. apply get_remove_keys. exact Hr.
Qed.

(* the signer's key entry is always written *)
Theorem step_writes_key r o k sg x r' :
  seq r < 2 ^ 64 -> (forall n, o = OSetSeq n -> n < 2 ^ 64) ->
  step c kt r o k sg = (Ok x, r') ->
  sm_get (pub_key_name k) (content r') = Some (pub_entry k).
Proof.
  intros Hs Hn H. destruct (step_refines _ _ _ _ _ _ Hs Hn H) as [-> _].
  unfold spec_pairs, with_key. apply sm_get_insert_same.
Qed.

(* a single-key write stores exactly the given (canonical) value *)
Theorem step_single_insert r o k sg x r' key v :
  seq r < 2 ^ 64 -> (forall n, o = OSetSeq n -> n < 2 ^ 64) ->
  step c kt r o k sg = (Ok x, r') ->
  inserts o = [(key, v)] -> key <> pub_key_name k ->
  sm_get key (content r') = Some v.
Proof.
  intros Hs Hn H Hi Hk. destruct (step_refines _ _ _ _ _ _ Hs Hn H) as [-> _].
  unfold spec_pairs, with_key. rewrite sm_get_insert_other by exact Hk. rewrite Hi.
  cbn [insert_pairs fold_left fst snd]. apply sm_get_insert_same.
Qed.

(* a removal deletes exactly the named keys *)
Theorem step_removed r o k sg x r' key :
  seq r < 2 ^ 64 -> (forall n, o = OSetSeq n -> n < 2 ^ 64) ->
  sm_sorted (content r) ->
  step c kt r o k sg = (Ok x, r') ->
  In key (removes o) -> ~ In key (map fst (inserts o)) -> key <> pub_key_name k ->
  sm_get key (content r') = None.
Proof.
  intros Hs Hn Hsorted H Hr Hi Hk. destruct (step_refines _ _ _ _ _ _ Hs Hn H) as [-> _].
  unfold spec_pairs, with_key. rewrite sm_get_insert_other by exact Hk.
  rewrite get_insert_pairs by exact Hi. apply get_remove_keys_in; assumption.
Qed.

(* a socket setter writes only its own address family's ip and port keys *)
Theorem socket_setter_family_only r a p (tcp : bool) k sg x r' k' :
  seq r < 2 ^ 64 ->
  step c kt r (if tcp then OSetTcpSocket a p else OSetUdpSocket a p) k sg = (Ok x, r') ->
  k' <> ip_key a -> k' <> (if tcp then tcp_key a else udp_key a) -> k' <> pub_key_name k ->
  sm_get k' (content r') = sm_get k' (content r).
Proof.
  intros Hs H H1 H2 Hk. eapply step_untouched; eauto.
  - intros n E. destruct tcp; discriminate.
  - destruct tcp; cbn; tauto.
  - destruct tcp; cbn [inserts map fst]; intros [E|[E|[]]]; congruence.
Qed.

(* whatever an operation writes last under a key is what the record then holds *)
Theorem step_last_write r o k sg x r' pre key v post :
  seq r < 2 ^ 64 -> (forall n, o = OSetSeq n -> n < 2 ^ 64) ->
  step c kt r o k sg = (Ok x, r') ->
  inserts o = pre ++ (key, v) :: post -> ~ In key (map fst post) -> key <> pub_key_name k ->
  sm_get key (content r') = Some v.
Proof.
  intros Hs Hn H Hi Hp Hk. destruct (step_refines _ _ _ _ _ _ Hs Hn H) as [-> _].
  unfold spec_pairs, with_key. rewrite sm_get_insert_other by exact Hk. rewrite Hi.
  apply get_insert_pairs_split. exact Hp.
Qed.

(* builder: the value of the last call on a key is what the record holds *)
Theorem build_last_write sq calls k sg r pre b post :
  sq < 2 ^ 64 -> build c kt sq calls k sg = Ok r ->
  calls = pre ++ b :: post -> ~ In (fst (bcall_pair b)) (map fst (map bcall_pair post)) ->
  fst (bcall_pair b) <> k_id -> fst (bcall_pair b) <> pub_key_name k ->
  sm_get (fst (bcall_pair b)) (content r) = Some (snd (bcall_pair b)).
Proof.
  intros Hs H Hc Hp Hid Hk. destruct (build_ok c kt _ _ _ _ _ Hs H) as (_ & _ & -> & _).
  unfold with_key. rewrite sm_get_insert_other by exact Hk. rewrite sm_get_insert_other by exact Hid.
  rewrite fold_bcalls, Hc, map_app. cbn [map]. destruct (bcall_pair b) as [key v] eqn:Eb. cbn [fst snd] in *.
  apply get_insert_pairs_split. exact Hp.
Qed.

(* the builder: the builder's pairs (a later call on the same key wins), plus id = v4, plus the signer's key *)
Theorem build_refines sq calls k sg r :
  sq < 2 ^ 64 -> build c kt sq calls k sg = Ok r ->
  content r = with_key (sm_insert k_id (enc_string v4) (fold_left apply_bcall calls [])) k /\ seq r = sq.
Proof. intros Hs H. destruct (build_ok c kt _ _ _ _ _ Hs H) as (H1 & _ & H2 & _). auto. Qed.

(* ---- success exactly when no cause of failure applies; failures report the kind of their cause ---- *)
Definition cand (sq : N) (nd : bytes) (m : smap) (s : bytes) : record := {| seq := sq; nid := nd; content := m; sig := s |}.

Theorem finish_ok_iff pre r m k sg r' :
  finish c kt pre r m k sg = Ok r' <->
  check_keyed_by c kt m k = Ok tt /\
  (pre = true -> size (cand (seq r) (nid r) m (sig r)) <= MAX_ENR_SIZE) /\
  seq r <> U64_MAX /\
  id_is_v4 (cand (seq r + 1) (nid r) m (sig r)) = true /\
  exists s, sg (signed_payload_of (seq r + 1) m) = Some s /\
            size (cand (seq r + 1) (node_id_of (sk_pub k)) m s) <= MAX_ENR_SIZE /\
            r' = cand (seq r + 1) (node_id_of (sk_pub k)) m s.
Proof.
  unfold cand. split.
  - intros H. unfold finish in H.
    destruct (check_keyed_by c kt m k) as [[]|e|] eqn:Ek; cbn [bind] in H; try discriminate.
    destruct (pre && (MAX_ENR_SIZE <? size {| seq := seq r; nid := nid r; content := m; sig := sig r |})) eqn:E1;
      cbn [bind] in H; [discriminate|].
    unfold checked_succ in H. destruct (seq r =? U64_MAX) eqn:E2; cbn [bind] in H; [discriminate|].
    unfold compute_signature, signed_payload in H. cbn [seq content] in H.
    destruct (id_is_v4 _) eqn:E3 in H; [|discriminate].
    destruct (sg _) as [s|] eqn:E4 in H; cbn [bind] in H; [|discriminate].
    destruct (MAX_ENR_SIZE <? _) eqn:E5 in H; [discriminate|]. inv H.
    split; [reflexivity|]. split; [intros ->; cbn [andb] in E1; lia|]. split; [lia|]. split; [exact E3|].
    exists s. split; [exact E4|]. split; [lia | reflexivity].
  - intros (Hk & Hpre & Hseq & Hid & s & Hs & Hsz & ->). unfold finish. rewrite Hk. cbn [bind].
    replace (pre && (MAX_ENR_SIZE <? size {| seq := seq r; nid := nid r; content := m; sig := sig r |})) with false.
    2:{ destruct pre; [cbn [andb]; specialize (Hpre eq_refl); lia | reflexivity]. }
    cbn [bind]. unfold checked_succ. replace (seq r =? U64_MAX) with false by lia. cbn [bind].
    unfold compute_signature, signed_payload. cbn [seq content]. rewrite Hid, Hs. cbn [bind].
    replace (MAX_ENR_SIZE <? size {| seq := seq r + 1; nid := node_id_of (sk_pub k); content := m; sig := s |}) with false by lia.
    reflexivity.
Qed.

Lemma finish_err pre r m k sg e :
  finish c kt pre r m k sg = Err e ->
  check_keyed_by c kt m k = Err e \/
  (e = EExceedsMaxSize /\ pre = true /\ MAX_ENR_SIZE < size (cand (seq r) (nid r) m (sig r))) \/
  (e = ESequenceNumberTooHigh /\ seq r = U64_MAX) \/
  (e = EUnsupportedIdentityScheme /\ id_is_v4 (cand (seq r + 1) (nid r) m (sig r)) = false) \/
  (e = ESigningError /\ sg (signed_payload_of (seq r + 1) m) = None) \/
  (e = EExceedsMaxSize /\ exists s, sg (signed_payload_of (seq r + 1) m) = Some s /\
                                    MAX_ENR_SIZE < size (cand (seq r + 1) (node_id_of (sk_pub k)) m s)).
Proof.
  unfold cand. intros H. unfold finish in H.
  destruct (check_keyed_by c kt m k) as [[]|e1|] eqn:Ek; cbn [bind] in H; [|left; inv H; reflexivity | discriminate].
  right.
  destruct (pre && (MAX_ENR_SIZE <? size {| seq := seq r; nid := nid r; content := m; sig := sig r |})) eqn:E1;
    cbn [bind] in H.
  { inv H. apply andb_true_iff in E1. destruct E1 as [-> E1]. left. repeat split; auto. lia. }
  right. unfold checked_succ in H. destruct (seq r =? U64_MAX) eqn:E2; cbn [bind] in H.
  { inv H. left. split; [reflexivity | lia]. }
  right. unfold compute_signature, signed_payload in H. cbn [seq content] in H.
  destruct (id_is_v4 _) eqn:E3 in H.
  2:{ inv H. left. auto. }
  right. destruct (sg _) as [s|] eqn:E4 in H; cbn [bind] in H.
  2:{ inv H. left. auto. }
  right. destruct (MAX_ENR_SIZE <? _) eqn:E5 in H; [|discriminate].
  inv H. split; [reflexivity|]. exists s. split; [exact E4 | lia].
Qed.

Lemma set_seq_err r n k sg e :
  set_seq c kt r n k sg = Err e ->
  check_keyed_by c kt (with_key (content r) k) k = Err e \/
  (e = EUnsupportedIdentityScheme /\ id_is_v4 (cand n (nid r) (with_key (content r) k) (sig r)) = false) \/
  (e = ESigningError /\ sg (signed_payload_of n (with_key (content r) k)) = None) \/
  (e = EExceedsMaxSize /\ exists s, sg (signed_payload_of n (with_key (content r) k)) = Some s /\
                                    MAX_ENR_SIZE < size (cand n (node_id_of (sk_pub k)) (with_key (content r) k) s)).
Proof.
  unfold cand. intros H. unfold set_seq in H.
  destruct (check_keyed_by c kt _ k) as [[]|e1|] eqn:Ek in H; cbn [bind] in H; [|left; inv H; exact Ek | discriminate].
  right. unfold compute_signature, signed_payload in H. cbn [seq content] in H.
  destruct (id_is_v4 _) eqn:E3 in H.
  2:{ inv H. left. auto. }
  right. destruct (sg _) as [s|] eqn:E4 in H; cbn [bind] in H.
  2:{ inv H. left. auto. }
  right. destruct (MAX_ENR_SIZE <? _) eqn:E5 in H; [|discriminate].
  inv H. split; [reflexivity|]. exists s. split; [exact E4 | lia].
Qed.

Lemma check_list_err kvs e : check_list c kvs = Err e ->
  exists kv, In kv kvs /\ check_reserved c (fst kv) (snd kv) = Err e.
Proof.
  induction kvs as [|kv t IH]; cbn [check_list]; [discriminate|]. intros H.
  apply bind_err in H. destruct H as [H|(a & _ & H)].
  - exists kv. split; [left; reflexivity | exact H].
  - destruct (IH H) as (kv' & Hin & He). exists kv'. split; [right; exact Hin | exact He].
Qed.

Theorem step_ok_iff r o k sg x r' :
  step c kt r o k sg = (Ok x, r') <->
  check_list c (checked_inserts o) = Ok tt /\ commit c kt r o k sg = Ok r' /\ x = spec_ret o r.
Proof.
  unfold step. rewrite apply_op_nf.
  destruct (check_list c (checked_inserts o)) as [[]|e|]; cbn [bind].
  - destruct (commit c kt r o k sg) as [r1|e|]; cbn [bind].
    + split; [intros H; inv H; auto | intros (_ & H & ->); inv H; reflexivity].
    + split; [discriminate | intros (_ & H & _); discriminate].
    + split; [discriminate | intros (_ & H & _); discriminate].
  - split; [discriminate | intros (H & _); discriminate].
  - split; [discriminate | intros (H & _); discriminate].
Qed.

(* a failing call reports the error kind that matches its cause *)
Theorem step_err_cause r o k sg e r' :
  step c kt r o k sg = (Err e, r') ->
  match e with
  | ESequenceNumberTooHigh => seq r = U64_MAX /\ (forall n, o <> OSetSeq n)
  | ESigningError => exists m, sg m = None
  | EExceedsMaxSize =>
      exists sq nd s, MAX_ENR_SIZE < size (cand sq nd (spec_pairs o k (content r)) s) /\
                      (sq = seq r \/ sq = seq r + 1 \/ o = OSetSeq sq)
  | EUnsupportedIdentityScheme =>
      (exists v, In (k_id, v) (checked_inserts o) /\ check_reserved c k_id v = Err EUnsupportedIdentityScheme) \/
      sm_get k_id (spec_pairs o k (content r)) <> Some (enc_string v4)
  | _ =>
      is_rlp_err e = true /\
      ((exists kv, In kv (checked_inserts o) /\ check_reserved c (fst kv) (snd kv) = Err e) \/
       check_keyed_by c kt (spec_pairs o k (content r)) k = Err e)
  end.
Proof.
  unfold step. rewrite apply_op_nf. intros H.
  assert (Hid : forall sq nd m s, id_is_v4 (cand sq nd m s) = false -> sm_get k_id m <> Some (enc_string v4)).
  { intros sq nd m s Hf Hg. pose proof (WellFormedLemmas.get_id_is_v4 (cand sq nd m s) Hg). congruence. }
  destruct (check_list c (checked_inserts o)) as [[]|e1|] eqn:Ec; cbn [bind] in H.
  2:{ injection H as He0 _; subst e1. destruct (check_list_err _ _ Ec) as ([key v] & Hin & He). cbn [fst snd] in He.
      destruct (check_reserved_err c _ _ _ He) as [Hr|[-> ->]].
      - destruct e; try discriminate; (split; [reflexivity | left; exists (key, v); auto]).
      - left. exists v. auto. }
  2:{ discriminate. }
  destruct (commit c kt r o k sg) as [r1|e1|] eqn:Em; cbn [bind] in H; [discriminate| |discriminate]. injection H as He0 _; subst e1.
  assert (Hcase :
    check_keyed_by c kt (spec_pairs o k (content r)) k = Err e \/
    (e = EExceedsMaxSize /\ exists sq nd s, MAX_ENR_SIZE < size (cand sq nd (spec_pairs o k (content r)) s) /\
                                           (sq = seq r \/ sq = seq r + 1 \/ o = OSetSeq sq)) \/
    (e = ESequenceNumberTooHigh /\ seq r = U64_MAX /\ (forall n, o <> OSetSeq n)) \/
    (e = EUnsupportedIdentityScheme /\ sm_get k_id (spec_pairs o k (content r)) <> Some (enc_string v4)) \/
    (e = ESigningError /\ exists m, sg m = None)).
  { destruct o; cbn [commit] in Em;
      try (apply finish_err in Em;
           destruct Em as [Hk|[(-> & _ & Hsz)|[(-> & Hq)|[(-> & Hi)|[(-> & Hs)|(-> & s & Hs & Hsz)]]]]];
           [left; exact Hk
           |right; left; split; [reflexivity | eexists _, _, _; split; [exact Hsz | left; reflexivity]]
           |right; right; left; repeat split; auto; intros n0 Hn0; discriminate
           |right; right; right; left; split; [reflexivity | eapply Hid; exact Hi]
           |right; right; right; right; split; [reflexivity | eexists; exact Hs]
           |right; left; split; [reflexivity | eexists _, _, _; split; [exact Hsz | right; left; reflexivity]]]).
    apply set_seq_err in Em. unfold spec_pairs. cbn [removes inserts remove_keys insert_pairs fold_left].
    destruct Em as [Hk|[(-> & Hi)|[(-> & Hs)|(-> & s & Hs & Hsz)]]].
    - left; exact Hk.
    - right; right; right; left. split; [reflexivity | eapply Hid; exact Hi].
    - right; right; right; right. split; [reflexivity | eexists; exact Hs].
    - right; left. split; [reflexivity|]. eexists _, _, _. split; [exact Hsz | right; right; reflexivity]. }
  destruct Hcase as [Hk|[(-> & H1)|[(-> & H1)|[(-> & H1)|(-> & H1)]]]]; auto.
  pose proof (check_keyed_by_err c kt _ _ _ Hk) as Hr.
  destruct e; try discriminate; (split; [reflexivity | right; exact Hk]).
Qed.

(* setting the public key to the signer's own key succeeds whenever the generic commit conditions hold,
   and leaves the pairs as they were *)
Theorem set_public_key_own_ok r k sg s :
  sm_sorted (content r) ->
  sm_get (pub_key_name k) (content r) = Some (pub_entry k) ->
  check_reserved c (pub_key_name k) (pub_entry k) = Ok tt ->
  check_keyed_by c kt (content r) k = Ok tt ->
  size r <= MAX_ENR_SIZE -> id_is_v4 r = true -> seq r <> U64_MAX ->
  sg (signed_payload_of (seq r + 1) (content r)) = Some s ->
  size (cand (seq r + 1) (node_id_of (sk_pub k)) (content r) s) <= MAX_ENR_SIZE ->
  step c kt r (OSetPublicKey (sk_pub k)) k sg = (Ok RUnit, cand (seq r + 1) (node_id_of (sk_pub k)) (content r) s).
Proof.
  intros Hs Hg Hchk Hk Hsz Hid Hseq Hsg Hsz'.
  assert (Hsame : spec_pairs (OSetPublicKey (sk_pub k)) k (content r) = content r).
  { unfold spec_pairs. cbn [removes inserts remove_keys insert_pairs fold_left fst snd]. unfold with_key.
    fold (pub_key_name k). fold (pub_entry k). rewrite (sm_insert_idem _ _ _ Hs Hg). apply sm_insert_idem; assumption. }
  apply step_ok_iff. split.
  - unfold checked_inserts. cbn [unchecked_op inserts check_list fst snd]. fold (pub_key_name k). fold (pub_entry k).
    rewrite Hchk. reflexivity.
  - split; [|reflexivity]. cbn [commit]. rewrite Hsame. apply finish_ok_iff.
    split; [exact Hk|]. split; [intros _; destruct r; exact Hsz|]. split; [exact Hseq|].
    split; [unfold cand, id_is_v4, id, get_bytes, get_raw in *; cbn [content] in *; exact Hid|].
    exists s. auto.
Qed.

End WithCrypto.
