(* Thm_Text.v — C12: the text form is canonical and strictly parsed. *)
Require Import EnrProofs.Tactics EnrProofs.BytesLemmas EnrProofs.RlpLemmas EnrProofs.DecodeLemmas EnrProofs.Thm_Decode.
Require Import Enr.Consts Enr.Rlp Enr.SortedMap Enr.Keccak Enr.Record Enr.Text.
Open Scope N_scope.

Lemma b64_val_char v : v < 64 -> b64_val (b64_char v) = Some v.
Proof.
  intros H. unfold b64_val, b64_char.
  destruct (v <? 26) eqn:E1.
  { replace ((65 <=? 65 + v) && (65 + v <=? 90)) with true by lia. f_equal; lia. }
  destruct (v <? 52) eqn:E2.
  { replace ((65 <=? 97 + (v - 26)) && (97 + (v - 26) <=? 90)) with false by lia.
    replace ((97 <=? 97 + (v - 26)) && (97 + (v - 26) <=? 122)) with true by lia. f_equal; lia. }
  destruct (v <? 62) eqn:E3.
  { replace ((65 <=? 48 + (v - 52)) && (48 + (v - 52) <=? 90)) with false by lia.
    replace ((97 <=? 48 + (v - 52)) && (48 + (v - 52) <=? 122)) with false by lia.
    replace ((48 <=? 48 + (v - 52)) && (48 + (v - 52) <=? 57)) with true by lia. f_equal; lia. }
  destruct (v =? 62) eqn:E4.
  { assert (v = 62) by lia. subst. vm_compute. reflexivity. }
  assert (v = 63) by lia. subst. vm_compute. reflexivity.
Qed.

Lemma b64_char_val ch v : b64_val ch = Some v -> v < 64 /\ ch = b64_char v.
Proof.
  unfold b64_val, b64_char. intros H.
  destruct ((65 <=? ch) && (ch <=? 90)) eqn:E1.
  { inv H. replace (ch - 65 <? 26) with true by lia. lia. }
  destruct ((97 <=? ch) && (ch <=? 122)) eqn:E2.
  { inv H. replace (ch - 97 + 26 <? 26) with false by lia. replace (ch - 97 + 26 <? 52) with true by lia. lia. }
  destruct ((48 <=? ch) && (ch <=? 57)) eqn:E3.
  { inv H. replace (ch - 48 + 52 <? 26) with false by lia. replace (ch - 48 + 52 <? 52) with false by lia.
    replace (ch - 48 + 52 <? 62) with true by lia. lia. }
  destruct (ch =? 45) eqn:E4; [inv H; split; [lia | vm_compute; lia]|].
  destruct (ch =? 95) eqn:E5; [inv H; split; [lia | vm_compute; lia]|]. discriminate.
Qed.

(* three-step / four-step induction *)
Lemma list_ind3 {A} (P : list A -> Prop) :
  P [] -> (forall x, P [x]) -> (forall x y, P [x; y]) ->
  (forall x y z t, P t -> P (x :: y :: z :: t)) -> forall l, P l.
Proof.
  intros H0 H1 H2 H3. fix F 1. intros [|x [|y [|z t]]]; [exact H0 | apply H1 | apply H2 | apply H3, F].
Qed.
Lemma list_ind4 {A} (P : list A -> Prop) :
  P [] -> (forall x, P [x]) -> (forall x y, P [x; y]) -> (forall x y z, P [x; y; z]) ->
  (forall w x y z t, P t -> P (w :: x :: y :: z :: t)) -> forall l, P l.
Proof.
  intros H0 H1 H2 H3 H4. fix F 1. intros [|w [|x [|y [|z t]]]]; [exact H0 | apply H1 | apply H2 | apply H3 | apply H4, F].
Qed.

Lemma b64_roundtrip x : bytes_ok x -> b64_decode (b64_encode x) = Some x.
Proof.
  induction x as [| a | a b | a b cc t IH] using list_ind3; intros Hok.
  - reflexivity.
  - apply bytes_ok_cons in Hok. destruct Hok as [Ha _].
    cbn [b64_encode b64_decode]. rewrite !b64_val_char by lia.
    replace (a mod 4 * 16 mod 16 =? 0) with true by lia. f_equal. f_equal. lia.
  - apply bytes_ok_cons in Hok. destruct Hok as [Ha Hok]. apply bytes_ok_cons in Hok. destruct Hok as [Hb _].
    cbn [b64_encode b64_decode]. rewrite !b64_val_char by lia.
    replace (b mod 16 * 4 mod 4 =? 0) with true by lia. f_equal. f_equal; [lia|]. f_equal. lia.
  - apply bytes_ok_cons in Hok. destruct Hok as [Ha Hok]. apply bytes_ok_cons in Hok. destruct Hok as [Hb Hok].
    apply bytes_ok_cons in Hok. destruct Hok as [Hc Hok].
    cbn [b64_encode b64_decode]. rewrite !b64_val_char by lia. rewrite (IH Hok).
    f_equal. f_equal; [lia|]. f_equal; [lia|]. f_equal. lia.
Qed.

(* a string decodes only if it is THE encoding of the bytes it decodes to: no padding, no other
   alphabet, no whitespace, no non-zero trailing bits *)
Lemma b64_canonical s x : b64_decode s = Some x -> s = b64_encode x /\ bytes_ok x.
Proof.
  revert x. induction s as [| c1 | c1 c2 | c1 c2 c3 | c1 c2 c3 c4 t IH] using list_ind4; intros x H.
  - inv H. split; [reflexivity | constructor].
  - discriminate.
  - cbn [b64_decode] in H. destruct (b64_val c1) as [w|] eqn:E1; [|discriminate].
    destruct (b64_val c2) as [v|] eqn:E2; [|discriminate].
    destruct (v mod 16 =? 0) eqn:Ez; [|discriminate]. inv H.
    destruct (b64_char_val _ _ E1) as [Hw ->]. destruct (b64_char_val _ _ E2) as [Hv ->].
    cbn [b64_encode]. split.
    + f_equal; [f_equal; lia|]. f_equal. f_equal. lia.
    + apply bytes_ok_cons. split; [lia | constructor].
  - cbn [b64_decode] in H. destruct (b64_val c1) as [w|] eqn:E1; [|discriminate].
    destruct (b64_val c2) as [v|] eqn:E2; [|discriminate].
    destruct (b64_val c3) as [y|] eqn:E3; [|discriminate].
    destruct (y mod 4 =? 0) eqn:Ez; [|discriminate]. inv H.
    destruct (b64_char_val _ _ E1) as [Hw ->]. destruct (b64_char_val _ _ E2) as [Hv ->]. destruct (b64_char_val _ _ E3) as [Hy ->].
    cbn [b64_encode]. split.
    + f_equal; [f_equal; lia|]. f_equal; [f_equal; lia|]. f_equal. f_equal. lia.
    + apply bytes_ok_cons. split; [lia|]. apply bytes_ok_cons. split; [lia | constructor].
  - cbn [b64_decode] in H. destruct (b64_val c1) as [w|] eqn:E1; [|discriminate].
    destruct (b64_val c2) as [v|] eqn:E2; [|discriminate].
    destruct (b64_val c3) as [y|] eqn:E3; [|discriminate].
    destruct (b64_val c4) as [z|] eqn:E4; [|discriminate].
    destruct (b64_decode t) as [r|] eqn:Er; [|discriminate]. inv H.
    destruct (IH r eq_refl) as [-> Hr].
    destruct (b64_char_val _ _ E1) as [Hw ->]. destruct (b64_char_val _ _ E2) as [Hv ->].
    destruct (b64_char_val _ _ E3) as [Hy ->]. destruct (b64_char_val _ _ E4) as [Hz ->].
    cbn [b64_encode]. split.
    + f_equal; [f_equal; lia|]. f_equal; [f_equal; lia|]. f_equal; [f_equal; lia|]. f_equal. f_equal. lia.
    + apply bytes_ok_cons. split; [lia|]. apply bytes_ok_cons. split; [lia|]. apply bytes_ok_cons. split; [lia | exact Hr].
Qed.

(* the alphabet never produces ':' *)
Lemma b64_char_not_colon v : b64_char v <> 58.
Proof.
  unfold b64_char. destruct (v <? 26) eqn:E1; [lia|]. destruct (v <? 52) eqn:E2; [lia|].
  destruct (v <? 62) eqn:E3; [lia|]. destruct (v =? 62); lia.
Qed.

Lemma b64_encode_no_prefix x : starts_with enr_prefix (b64_encode x) = false.
Proof.
  unfold starts_with. apply bytes_eqb_neq. intros H.
  destruct x as [|a [|b [|cc t]]]; cbn [b64_encode length enr_prefix firstn] in H; try discriminate.
  inversion H. eapply b64_char_not_colon; eauto.
Qed.

Lemma b64_encode_len3 x : 3 <= lenN x -> 4 <= lenN (b64_encode x).
Proof. destruct x as [|a [|b [|cc t]]]; cbn [b64_encode]; rewrite ?lenN_cons; unfold lenN; cbn [length]; lia. Qed.

Section WithCrypto.
Variable c : crypto.

Lemma to_text_def r : to_text r = [101; 110; 114; 58] ++ b64_encode (encode r).
Proof. reflexivity. Qed.

Lemma to_json_def r : to_json r = [34] ++ to_text r ++ [34].
Proof. reflexivity. Qed.

(* only the canonical text, with or without the prefix, parses to a record *)
Lemma from_str_strict kt s r :
  from_str c kt s = Ok r -> s = to_text r \/ s = b64_encode (encode r).
Proof.
  unfold from_str. intros H. destruct (lenN s <? 4) eqn:El; [discriminate|].
  destruct (b64_decode (text_body s)) as [b|] eqn:Ed; [|discriminate H]. unfold text_body in Ed.
  destruct (b64_canonical _ _ Ed) as [Hbody Hokb].
  bind_inv H. destruct a as [r' rest]. destruct (is_empty rest) eqn:Ee; [|discriminate]. inv Hb.
  destruct rest; [|discriminate].
  pose proof (decode_canonical c kt b r [] Hokb Ha) as Hc. rewrite app_nil_r in Hc. subst b.
  destruct (starts_with enr_prefix s) eqn:Es.
  - left. unfold to_text. rewrite <- Hbody. unfold starts_with in Es. apply bytes_eqb_eq in Es.
    rewrite <- Es. cbn [length enr_prefix]. symmetry. apply firstn_skipn.
  - right. exact Hbody.
Qed.

(* both canonical strings are accepted whenever the record's encoding is accepted *)
Lemma from_str_accepts kt r :
  bytes_ok (encode r) -> decode c kt (encode r) = Ok (r, []) ->
  from_str c kt (to_text r) = Ok r /\ (3 <= lenN (encode r) -> from_str c kt (b64_encode (encode r)) = Ok r).
Proof.
  intros Hok Hd. split.
  - unfold from_str, to_text, text_body. rewrite lenN_app. replace (lenN enr_prefix + lenN (b64_encode (encode r)) <? 4) with false by (cbn; lia).
    assert (Hs : starts_with enr_prefix (enr_prefix ++ b64_encode (encode r)) = true).
    { unfold starts_with. rewrite firstn_app, Nat.sub_diag, firstn_all. cbn [firstn]. rewrite app_nil_r. apply bytes_eqb_refl. }
    rewrite Hs. change (skipn 4 (enr_prefix ++ b64_encode (encode r))) with (b64_encode (encode r)).
    rewrite b64_roundtrip by exact Hok. rewrite Hd. reflexivity.
  - intros H3. unfold from_str, text_body. pose proof (b64_encode_len3 _ H3).
    replace (lenN (b64_encode (encode r)) <? 4) with false by lia.
    rewrite b64_encode_no_prefix, b64_roundtrip by exact Hok. rewrite Hd. reflexivity.
Qed.

(* bytes after the record are rejected *)
Lemma from_str_rejects_trailing kt s b r rest :
  4 <= lenN s -> b64_decode (text_body s) = Some b ->
  decode c kt b = Ok (r, rest) -> rest <> [] -> exists e, from_str c kt s = Err e.
Proof.
  intros Hl Hd Hdec Hne. unfold from_str. replace (lenN s <? 4) with false by lia. rewrite Hd, Hdec. cbn [bind].
  destruct rest; [congruence|]. cbn [is_empty]. eexists; reflexivity.
Qed.

(* JSON: the quoted text form *)
Lemma from_json_plain kt body :
  forallb plain_json_char body = true ->
  from_json c kt ([34] ++ body ++ [34]) = Some (from_str c kt body).
Proof.
  intros H. unfold from_json. cbn [app]. rewrite N.eqb_refl, rev_app_distr. cbn [rev app]. rewrite N.eqb_refl. cbv zeta. rewrite rev_involutive, H. reflexivity.
Qed.

End WithCrypto.
