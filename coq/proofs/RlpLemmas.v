(* RlpLemmas.v — the RLP codecs are mutually inverse on canonical encodings:
   decoding succeeds only on the canonical encoding of what it returns, and decodes every
   canonical encoding back. *)
Require Import EnrProofs.Tactics EnrProofs.BytesLemmas.
Require Import Enr.Rlp.
Open Scope N_scope.

Lemma hdr_long_canon lst ll t l n p :
  bytes_ok t -> hdr_long lst ll t = Ok (l, n, p) ->
  l = lst /\ 56 <= n /\ t = be_trim n ++ p /\ lenN (be_trim n) = ll /\ ll <= 8 /\ n <= lenN p.
Proof.
  intros Hok H. unfold hdr_long in H.
  destruct (lenN t <? ll) eqn:E1; [discriminate|].
  assert (Hll : ll <= lenN t) by lia.
  destruct (take_drop ll t Hll) as [Hsplit Hlen].
  destruct (8 <? lenN (takeN ll t)) eqn:E0; [discriminate|].
  destruct (takeN ll t) as [|z lb'] eqn:Elb; [discriminate|].
  destruct (z =? 0) eqn:E2; [discriminate|].
  destruct (be_val (z :: lb') <? 56) eqn:E3; [discriminate|].
  destruct (lenN (dropN ll t) <? be_val (z :: lb')) eqn:E4; [discriminate|].
  inv H.
  assert (Hoklb : bytes_ok (z :: lb')) by (rewrite <- Elb; apply bytes_ok_takeN; exact Hok).
  rewrite be_trim_digits by (auto; lia).
  repeat split; try lia. exact Hsplit.
Qed.

(* the first byte of a header, by form *)
Definition single_byte_case (b : bytes) (l : bool) (n : N) (p : bytes) : Prop :=
  exists x t, b = x :: t /\ x < 0x80 /\ l = false /\ n = 1 /\ p = b.

Lemma hdr_decode_canon b l n p :
  bytes_ok b -> hdr_decode b = Ok (l, n, p) ->
  single_byte_case b l n p \/
  (b = hdr_encode l n ++ p /\ n <= lenN p /\ n < 2 ^ 64 /\
   (l = false -> n = 1 -> exists c t, p = c :: t /\ 0x80 <= c)).
Proof.
  intros Hok H. destruct b as [|x t]; [discriminate|].
  apply bytes_ok_cons in Hok. destruct Hok as [Hx Ht].
  cbn [hdr_decode] in H.
  destruct (x <? 0x80) eqn:E1.
  { left. inv H. exists x, t. repeat split; auto; lia. }
  right.
  destruct (x <? 0xB8) eqn:E2.
  { bind_inv H. destruct (lenN t <? x - 0x80) eqn:E5; [discriminate|]. inv Hb.
    unfold hdr_encode. replace (x - 128 <? 56) with true by lia. cbn [app].
    split; [f_equal; lia|]. split; [lia|]. split; [lia|].
    intros _ Hn1. destruct (x - 128 =? 1) eqn:E3; [|lia].
    destruct p as [|c t']; [discriminate|]. destruct (c <? 0x80) eqn:E4; [discriminate|].
    exists c, t'. split; [reflexivity | lia]. }
  destruct (x <? 0xC0) eqn:E3.
  { destruct (hdr_long_canon _ _ _ _ _ _ Ht H) as (-> & Hn & Hsplit & Hlen & Hll8 & Hnp).
    unfold hdr_encode. replace (n <? 56) with false by lia. cbn [app]. rewrite Hlen.
    split; [rewrite Hsplit at 1; f_equal; lia|]. split; [exact Hnp|]. split.
    - pose proof (be_val_trim n) as Hv. pose proof (be_val_bound (be_trim n) (be_trim_ok n)) as Hb.
      rewrite Hv in Hb. assert (256 ^ lenN (be_trim n) <= 256 ^ 8) by (apply N.pow_le_mono_r; lia).
      change (2 ^ 64) with (256 ^ 8). lia.
    - intros _ Hn1. lia. }
  destruct (x <? 0xF8) eqn:E4.
  { destruct (lenN t <? x - 0xC0) eqn:E5; [discriminate|]. inv H.
    unfold hdr_encode. replace (x - 192 <? 56) with true by lia. cbn [app].
    split; [f_equal; lia|]. split; [lia|]. split; [lia|]. intros Hf; discriminate. }
  { destruct (hdr_long_canon _ _ _ _ _ _ Ht H) as (-> & Hn & Hsplit & Hlen & Hll8 & Hnp).
    unfold hdr_encode. replace (n <? 56) with false by lia. cbn [app]. rewrite Hlen.
    split; [rewrite Hsplit at 1; f_equal; lia|]. split; [exact Hnp|]. split.
    - pose proof (be_val_trim n) as Hv. pose proof (be_val_bound (be_trim n) (be_trim_ok n)) as Hb.
      rewrite Hv in Hb. assert (256 ^ lenN (be_trim n) <= 256 ^ 8) by (apply N.pow_le_mono_r; lia).
      change (2 ^ 64) with (256 ^ 8). lia.
    - intros Hf; discriminate. }
Qed.

(* reverse direction: every canonical header decodes *)
Lemma hdr_long_encode lst n p :
  56 <= n -> n < 2 ^ 64 -> n <= lenN p ->
  hdr_long lst (lenN (be_trim n)) (be_trim n ++ p) = Ok (lst, n, p).
Proof.
  intros Hn H64 Hnp. unfold hdr_long.
  assert (Hl8 : lenN (be_trim n) <= 8) by (apply be_trim_len_le; change (256 ^ 8) with (2 ^ 64); exact H64).
  rewrite lenN_app. replace (lenN (be_trim n) + lenN p <? lenN (be_trim n)) with false by lia.
  rewrite takeN_app, dropN_app.
  replace (8 <? lenN (be_trim n)) with false by lia.
  destruct (be_trim_head n) as (x & t & Ht & Hx); [lia|].
  rewrite Ht. replace (x =? 0) with false by lia.
  rewrite <- Ht, be_val_trim.
  replace (n <? 56) with false by lia. replace (lenN p <? n) with false by lia. reflexivity.
Qed.

Lemma hdr_decode_encode l n p :
  n < 2 ^ 64 -> n <= lenN p ->
  (l = false -> n = 1 -> exists c t, p = c :: t /\ 0x80 <= c) ->
  hdr_decode (hdr_encode l n ++ p) = Ok (l, n, p).
Proof.
  intros H64 Hnp Hsingle. unfold hdr_encode.
  destruct (n <? 56) eqn:E.
  - cbn [app hdr_decode]. destruct l.
    + replace (192 + n <? 128) with false by lia. replace (192 + n <? 184) with false by lia.
      replace (192 + n <? 192) with false by lia. replace (192 + n <? 248) with true by lia.
      replace (192 + n - 192) with n by lia. replace (lenN p <? n) with false by lia. reflexivity.
    + replace (128 + n <? 128) with false by lia. replace (128 + n <? 184) with true by lia.
      replace (128 + n - 128) with n by lia.
      destruct (n =? 1) eqn:E1.
      * destruct (Hsingle eq_refl) as (c & t & -> & Hc); [lia|].
        replace (c <? 128) with false by lia. cbn [bind].
        replace (lenN (c :: t) <? n) with false by lia. reflexivity.
      * cbn [bind]. replace (lenN p <? n) with false by lia. reflexivity.
  - assert (Hl8 : lenN (be_trim n) <= 8) by (apply be_trim_len_le; change (256 ^ 8) with (2 ^ 64); exact H64).
    assert (Hl1 : 1 <= lenN (be_trim n)).
    { destruct (be_trim_head n) as (x & t & Ht & Hx); [lia|]. rewrite Ht, lenN_cons. lia. }
    cbn [app hdr_decode]. destruct l.
    + replace (247 + lenN (be_trim n) <? 128) with false by lia.
      replace (247 + lenN (be_trim n) <? 184) with false by lia.
      replace (247 + lenN (be_trim n) <? 192) with false by lia.
      replace (247 + lenN (be_trim n) <? 248) with false by lia.
      replace (247 + lenN (be_trim n) - 247) with (lenN (be_trim n)) by lia.
      apply hdr_long_encode; lia.
    + replace (183 + lenN (be_trim n) <? 128) with false by lia.
      replace (183 + lenN (be_trim n) <? 184) with false by lia.
      replace (183 + lenN (be_trim n) <? 192) with true by lia.
      replace (183 + lenN (be_trim n) - 183) with (lenN (be_trim n)) by lia.
      apply hdr_long_encode; lia.
Qed.

(* header length *)
Lemma hdr_encode_len l n : n < 2 ^ 64 -> 1 <= lenN (hdr_encode l n) <= 9.
Proof.
  intros H. unfold hdr_encode. destruct (n <? 56); [cbn; lia|].
  rewrite lenN_cons. pose proof (be_trim_len_le n 8). change (256 ^ 8) with (2 ^ 64) in *. lia.
Qed.

Lemma bytes_ok_hdr_encode l n : n < 2 ^ 64 -> bytes_ok (hdr_encode l n).
Proof.
  intros H. unfold hdr_encode. destruct (n <? 56) eqn:E.
  - apply bytes_ok_cons. split; [destruct l; lia | constructor].
  - apply bytes_ok_cons. split; [|apply be_trim_ok].
    pose proof (be_trim_len_le n 8). change (256 ^ 8) with (2 ^ 64) in *. destruct l; lia.
Qed.

(* ---- byte strings ---- *)
Lemma dec_payload_canon w b s rest :
  bytes_ok b -> dec_payload w b = Ok (s, rest) ->
  (w = false /\ exists x, s = [x] /\ x < 0x80 /\ b = x :: rest) \/
  (b = hdr_encode w (lenN s) ++ s ++ rest /\ lenN s < 2 ^ 64 /\
   (w = false -> forall x, s = [x] -> 0x80 <= x)).
Proof.
  unfold dec_payload. intros Hok H. bind_inv H. destruct a as [[l n] p].
  destruct (Bool.eqb l w) eqn:El; [|discriminate]. apply eqb_prop in El. subst l. inv Hb.
  destruct (hdr_decode_canon _ _ _ _ Hok Ha) as [(x & t & -> & Hx & -> & -> & ->) | (Hb & Hn & H64 & Hs)].
  - left. split; [reflexivity|]. exists x. unfold takeN, dropN. change (N.to_nat 1) with 1%nat.
    cbn [firstn skipn]. auto.
  - right. destruct (take_drop n p Hn) as [Hp Hl]. rewrite Hl. split; [rewrite Hb, Hp at 1; reflexivity|].
    split; [exact H64|]. intros Hw x Hx. assert (n = 1) by (rewrite <- Hl, Hx; reflexivity).
    destruct (Hs Hw H) as (c & t & -> & Hc). subst n. unfold takeN in Hx. change (N.to_nat 1) with 1%nat in Hx.
    cbn [firstn] in Hx. inv Hx. exact Hc.
Qed.

Lemma dec_string_canon b s rest :
  bytes_ok b -> dec_string b = Ok (s, rest) -> b = enc_string s ++ rest.
Proof.
  intros Hok H. destruct (dec_payload_canon false b s rest Hok H) as [(_ & x & -> & Hx & ->) | (Hb & _ & Hs)].
  - unfold enc_string. replace (x <? 128) with true by lia. reflexivity.
  - rewrite Hb. unfold enc_string. destruct s as [|x [|y s']]; try (rewrite <- app_assoc; reflexivity).
    specialize (Hs eq_refl x eq_refl). replace (x <? 128) with false by lia.
    rewrite <- app_assoc. reflexivity.
Qed.

Lemma dec_string_len b s rest : bytes_ok b -> dec_string b = Ok (s, rest) -> lenN s < 2 ^ 64 /\ bytes_ok s /\ bytes_ok rest.
Proof.
  intros Hok H. pose proof (dec_string_canon b s rest Hok H) as Hc.
  destruct (dec_payload_canon false b s rest Hok H) as [(_ & x & -> & Hx & ->) | (Hb & H64 & _)].
  - apply bytes_ok_cons in Hok. destruct Hok. split; [rewrite lenN_1; pow64; lia|]. split; [apply bytes_ok_cons; split; [lia|constructor] | assumption].
  - rewrite Hb in Hok. apply bytes_ok_app in Hok. destruct Hok as [_ Hok]. apply bytes_ok_app in Hok. tauto.
Qed.

Lemma dec_list_canon b s rest :
  bytes_ok b -> dec_list b = Ok (s, rest) -> b = enc_list s ++ rest /\ lenN s < 2 ^ 64.
Proof.
  intros Hok H. destruct (dec_payload_canon true b s rest Hok H) as [(Hf & _) | (Hb & H64 & _)]; [discriminate|].
  unfold enc_list. rewrite <- app_assoc. auto.
Qed.

Lemma dec_string_enc s rest : lenN s < 2 ^ 64 -> dec_string (enc_string s ++ rest) = Ok (s, rest).
Proof.
  intros H64. unfold dec_string, dec_payload, enc_string.
  destruct s as [|x [|y s']].
  - rewrite <- app_assoc. change (lenN (@nil N)) with 0.
    rewrite hdr_decode_encode; [|lia|lia|intros _ Hn; lia].
    cbn [bind Bool.eqb]. reflexivity.
  - destruct (x <? 128) eqn:E.
    + cbn [app hdr_decode]. rewrite E. cbn [bind Bool.eqb]. reflexivity.
    + rewrite <- app_assoc. rewrite hdr_decode_encode; [|lia|rewrite lenN_app, lenN_cons; lia|].
      * cbn [bind Bool.eqb]. unfold takeN, dropN. change (N.to_nat 1) with 1%nat. reflexivity.
      * intros _ _. exists x, rest. split; [reflexivity | lia].
  - rewrite <- app_assoc. rewrite hdr_decode_encode; [|exact H64|rewrite lenN_app; lia|].
    + cbn [bind Bool.eqb]. rewrite takeN_app, dropN_app. reflexivity.
    + intros _ Hn. rewrite !lenN_cons in Hn. lia.
Qed.

Lemma dec_list_enc s rest : lenN s < 2 ^ 64 -> dec_list (enc_list s ++ rest) = Ok (s, rest).
Proof.
  intros H64. unfold dec_list, dec_payload, enc_list. rewrite <- app_assoc.
  rewrite hdr_decode_encode; [|exact H64|rewrite lenN_app; lia|intros Hf; discriminate].
  cbn [bind Bool.eqb]. rewrite takeN_app, dropN_app. reflexivity.
Qed.

(* a list is never confused with a string *)
Lemma dec_string_enc_list s rest : lenN s < 2 ^ 64 -> exists e, dec_string (enc_list s ++ rest) = Err e.
Proof.
  intros H64. unfold dec_string, dec_payload, enc_list. rewrite <- app_assoc.
  rewrite hdr_decode_encode; [|exact H64|rewrite lenN_app; lia|intros Hf; discriminate].
  cbn [bind Bool.eqb]. eexists; reflexivity.
Qed.

(* ---- integers ---- *)
Lemma left_pad_val_canon k s v : bytes_ok s -> left_pad_val k s = Ok v -> s = be_trim v /\ v < 256 ^ k.
Proof.
  unfold left_pad_val. intros Hok H. destruct (k <? lenN s) eqn:E; [discriminate|].
  destruct s as [|z s']; [inv H; split; [reflexivity | apply N.neq_0_lt_0, N.pow_nonzero; lia]|].
  destruct (z =? 0) eqn:Ez; [discriminate|]. inv H.
  split; [symmetry; apply be_trim_digits; [exact Hok | lia]|].
  pose proof (be_val_bound _ Hok) as Hb. assert (256 ^ lenN (z :: s') <= 256 ^ k) by (apply N.pow_le_mono_r; lia). lia.
Qed.

Lemma left_pad_val_trim k v : v < 256 ^ k -> left_pad_val k (be_trim v) = Ok v.
Proof.
  intros H. unfold left_pad_val. pose proof (be_trim_len_le v k H).
  replace (k <? lenN (be_trim v)) with false by lia.
  destruct (N.eq_dec v 0) as [->|Hv]; [reflexivity|].
  destruct (be_trim_head v Hv) as (x & t & Ht & Hx). rewrite Ht.
  replace (x =? 0) with false by lia. rewrite <- Ht, be_val_trim. reflexivity.
Qed.

Lemma dec_uint_canon k b v rest :
  bytes_ok b -> dec_uint k b = Ok (v, rest) -> b = enc_uint v ++ rest /\ v < 256 ^ k.
Proof.
  unfold dec_uint. intros Hok H. bind_inv H. destruct a as [s r]. bind_inv Hb. inv Hb0.
  destruct (dec_string_len _ _ _ Hok Ha) as (_ & Hs & _).
  destruct (left_pad_val_canon _ _ _ Hs Ha0) as [-> Hv].
  split; [|exact Hv]. unfold enc_uint. apply dec_string_canon; assumption.
Qed.

Lemma dec_uint_enc k v rest : k <= 8 -> v < 256 ^ k -> dec_uint k (enc_uint v ++ rest) = Ok (v, rest).
Proof.
  intros Hk Hv. unfold dec_uint, enc_uint. rewrite dec_string_enc.
  - cbn [bind]. rewrite left_pad_val_trim by exact Hv. reflexivity.
  - pose proof (be_trim_len_le v k Hv). lia.
Qed.

Lemma enc_string_nonempty s : enc_string s <> [].
Proof.
  unfold enc_string, hdr_encode. destruct s as [|x [|y s']]; try (destruct (_ <? 56); discriminate).
  destruct (x <? 128); [discriminate|]. destruct (1 <? 56); discriminate.
Qed.

(* ---- raw items ---- *)
Lemma dec_item_canon b l v rest :
  bytes_ok b -> dec_item b = Ok (l, v, rest) -> b = reframe l v ++ rest /\ lenN v < 2 ^ 64.
Proof.
  unfold dec_item. intros Hok H. bind_inv H. destruct a as [[l' n] p]. inv Hb.
  destruct l.
  - assert (Hd : dec_list b = Ok (takeN n p, dropN n p)).
    { unfold dec_list, dec_payload. rewrite Ha. reflexivity. }
    destruct (dec_list_canon _ _ _ Hok Hd) as [Hc H64]. unfold reframe, enc_list in *. auto.
  - assert (Hd : dec_string b = Ok (takeN n p, dropN n p)).
    { unfold dec_string, dec_payload. rewrite Ha. reflexivity. }
    split; [apply (dec_string_canon _ _ _ Hok Hd) | apply (dec_string_len _ _ _ Hok Hd)].
Qed.

Lemma dec_item_reframe l v rest : lenN v < 2 ^ 64 -> dec_item (reframe l v ++ rest) = Ok (l, v, rest).
Proof.
  intros H64. destruct l; unfold reframe.
  - pose proof (dec_list_enc v rest H64) as H. unfold dec_list, dec_payload, enc_list in H.
    unfold dec_item. destruct (hdr_decode _) as [[[l n] p]|e|]; cbn [bind] in *; try discriminate.
    destruct (Bool.eqb l true) eqn:El; [|discriminate]. apply eqb_prop in El. subst. inv H. reflexivity.
  - pose proof (dec_string_enc v rest H64) as H. unfold dec_string, dec_payload in H.
    unfold dec_item. destruct (hdr_decode _) as [[[l n] p]|e|]; cbn [bind] in *; try discriminate.
    destruct (Bool.eqb l false) eqn:El; [|discriminate]. apply eqb_prop in El. subst. inv H. reflexivity.
Qed.

(* decoding never panics *)
Lemma hdr_decode_no_panic b : hdr_decode b <> Panic.
Proof.
  destruct b as [|x t]; [discriminate|]. cbn [hdr_decode].
  assert (HL : forall l ll t, hdr_long l ll t <> Panic).
  { intros l ll t0. unfold hdr_long. destruct (_ <? _); [discriminate|]. destruct (8 <? _); [discriminate|].
    destruct (takeN ll t0); [discriminate|]. destruct (_ =? 0); [discriminate|].
    destruct (_ <? 56); [discriminate|]. destruct (_ <? _); discriminate. }
  destruct (x <? 128); [discriminate|]. destruct (x <? 184).
  - apply bind_not_panic.
    + destruct (_ =? 1); [|discriminate]. destruct t; [discriminate|]. destruct (_ <? 128); discriminate.
    + intros _. destruct (_ <? _); discriminate.
  - destruct (x <? 192); [apply HL|]. destruct (x <? 248); [|apply HL]. destruct (_ <? _); discriminate.
Qed.

Lemma dec_payload_no_panic w b : dec_payload w b <> Panic.
Proof.
  unfold dec_payload. apply bind_not_panic; [apply hdr_decode_no_panic|].
  intros [[l n] p]. destruct (Bool.eqb l w); discriminate.
Qed.
