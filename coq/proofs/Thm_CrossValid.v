(* Thm_CrossValid.v — C11: "a record signed through any of them is accepted by all". The validity invariant
   (and with it acceptance by the decoder, valid_redecodes) transfers between the key types exactly as the
   property says: k256 <-> rust-secp256k1; either -> CombinedKey; ed25519 -> CombinedKey when no valid
   secp256k1 entry is present; CombinedKey -> one of the two sides. The model gives both secp256k1 back-ends
   the same SEC1 oracle [secp_pk]: that the two libraries agree on it is sampled, not proved (section 8). *)
Require Import EnrProofs.Tactics EnrProofs.BytesLemmas EnrProofs.WellFormedLemmas EnrProofs.Thm_Valid.
Require EnrProofs.Thm_Update.
Require Import Enr.Consts Enr.Rlp Enr.SortedMap Enr.Keccak Enr.Record Enr.Update Enr.Spec.
Open Scope N_scope.

Section WithCrypto.
Variable c : crypto.

Lemma valid_change_kt kt1 kt2 r :
  (forall ps pk, effective_pubkey c kt1 ps pk -> effective_pubkey c kt2 ps pk) ->
  Valid c kt1 r -> Valid c kt2 r.
Proof.
  intros H (pk & (H1 & H2 & H3 & H4 & H5 & H6 & H7 & H8) & Hn). exists pk. split; [|exact Hn].
  repeat split; auto.
Qed.

Theorem valid_k256_iff_libsecp r : Valid c K256 r <-> Valid c LibSecp r.
Proof. split; apply valid_change_kt; intros ps pk H; exact H. Qed.

Theorem valid_secp_comb r : Valid c K256 r -> Valid c Comb r.
Proof. apply valid_change_kt. intros ps pk H. left. exact H. Qed.

Theorem valid_ed_comb r :
  Valid c Ed r -> (forall p, secp_to_public c (content r) <> Ok p) -> Valid c Comb r.
Proof.
  intros (pk & (H1 & H2 & H3 & H4 & H5 & H6 & H7 & H8) & Hn) Hno. exists pk. split; [|exact Hn].
  repeat split; auto. right. split; [|exact H7].
  intros q Hq. apply (Hno q). apply secp_to_public_iff; assumption.
Qed.

Theorem valid_comb_split r :
  Valid c Comb r ->
  (exists p, secp_to_public c (content r) = Ok p /\ Valid c K256 r /\ Valid c LibSecp r) \/
  ((forall p, secp_to_public c (content r) <> Ok p) /\ Valid c Ed r).
Proof.
  intros (pk & (H1 & H2 & H3 & H4 & H5 & H6 & H7 & H8) & Hn). destruct H7 as [Hs | [Hno He]].
  - left. exists pk. split; [apply secp_to_public_iff; assumption|].
    split; exists pk; (split; [|exact Hn]); repeat split; auto.
  - right. split.
    + intros p Hp. apply (Hno p). apply secp_to_public_iff in Hp; assumption.
    + exists pk. split; [|exact Hn]. repeat split; auto.
Qed.

(* hence: what one secp256k1 key type built or updated, every secp256k1-capable type decodes as the same record *)
Theorem secp_record_accepted_by_all r rest :
  Valid c K256 r \/ Valid c LibSecp r ->
  decode c K256 (encode r ++ rest) = Ok (r, rest) /\
  decode c LibSecp (encode r ++ rest) = Ok (r, rest) /\
  decode c Comb (encode r ++ rest) = Ok (r, rest).
Proof.
  intros H. assert (Hk : Valid c K256 r) by (destruct H as [H|H]; [exact H | apply valid_k256_iff_libsecp; exact H]).
  repeat split; apply valid_redecodes; [exact Hk | apply valid_k256_iff_libsecp; exact Hk | apply valid_secp_comb; exact Hk].
Qed.

Theorem ed_record_accepted_by_comb r rest :
  Valid c Ed r -> (forall p, secp_to_public c (content r) <> Ok p) ->
  decode c Ed (encode r ++ rest) = Ok (r, rest) /\ decode c Comb (encode r ++ rest) = Ok (r, rest).
Proof. intros Hv Hno. split; apply valid_redecodes; [exact Hv | apply valid_ed_comb; assumption]. Qed.

(* built through k256 (any calls, any signer meeting the hypotheses), accepted by all three *)
Theorem built_by_k256_accepted_by_all sq calls k sg r rest :
  sq < 2 ^ 64 -> Forall bcall_ok calls -> key_bytes_ok k -> KeyOk c K256 k -> GoodSigner c k sg ->
  build c K256 sq calls k sg = Ok r ->
  decode c K256 (encode r ++ rest) = Ok (r, rest) /\
  decode c LibSecp (encode r ++ rest) = Ok (r, rest) /\
  decode c Comb (encode r ++ rest) = Ok (r, rest).
Proof.
  intros. apply secp_record_accepted_by_all. left. eapply build_valid; eauto.
Qed.

(* updated through CombinedKey, accepted by the single-scheme type of the entry it resolves to *)
Theorem updated_by_comb_accepted r o k sg x r' rest :
  Valid c Comb r -> op_ok o -> key_bytes_ok k -> KeyOk c Comb k -> GoodSigner c k sg ->
  step c Comb r o k sg = (Ok x, r') ->
  decode c Comb (encode r' ++ rest) = Ok (r', rest) /\
  ((decode c K256 (encode r' ++ rest) = Ok (r', rest) /\ decode c LibSecp (encode r' ++ rest) = Ok (r', rest)) \/
   decode c Ed (encode r' ++ rest) = Ok (r', rest)).
Proof.
  intros Hv Ho Hk Hko Hg Hs. pose proof (step_valid c Comb r o k sg x r' Hv Ho Hk Hko Hg Hs) as Hv'.
  split; [apply valid_redecodes; exact Hv'|].
  destruct (valid_comb_split r' Hv') as [(p & _ & H1 & H2) | (_ & H)].
  - left. split; apply valid_redecodes; assumption.
  - right. apply valid_redecodes; exact H.
Qed.

End WithCrypto.

(* C05, last sentence, with the hypotheses on the key discharged: after a successful update made with key k the record's
   public key accessor returns k's public key, its node id and signature are those of k, and it verifies *)
Section Rekey.
Variable c : crypto.
Variable kt : keytype.

Theorem rekeyed_record r o k sg x r' :
  Valid c kt r -> op_ok o -> key_bytes_ok k -> KeyOk c kt k -> GoodSigner c k sg ->
  step c kt r o k sg = (Ok x, r') ->
  public_key c kt r' = Ok (sk_pub k) /\ nid r' = node_id_of (sk_pub k) /\
  verify_v4 c (sk_pub k) (signed_payload r') (sig r') = true /\ verify c kt r' = Ok true /\ Valid c kt r'.
Proof.
  intros Hv Ho Hkb Hko Hg Hs.
  destruct (valid_content c kt r Hv) as (_ & _ & Hseq).
  assert (Hn : forall n, o = OSetSeq n -> n < 2 ^ 64) by (intros n ->; exact Ho).
  destruct (Thm_Update.step_rekeys c kt r o k sg x r' Hseq Hn Hs) as (p & Hp & He & Hnid & Hsig).
  pose proof (Hko _ _ Hp He) as Hpk. subst p.
  pose proof (step_valid c kt r o k sg x r' Hv Ho Hkb Hko Hg Hs) as Hv'.
  destruct (valid_observables c kt r' Hv') as (pk & _ & Hver & _).
  split; [unfold public_key; rewrite Hp; reflexivity|]. split; [exact Hnid|]. split; [exact (Hg _ _ Hsig)|]. split; assumption.
Qed.
End Rekey.
