(* Thm_Decode.v — property-level statements about the decoder (C01, C04 part 1, C09 part, C10 part). *)
Require Import EnrProofs.Tactics EnrProofs.BytesLemmas EnrProofs.RlpLemmas EnrProofs.DecodeLemmas.
Require Import Enr.Consts Enr.Rlp Enr.SortedMap Enr.Keccak Enr.Record.
Open Scope N_scope.

Section WithCrypto.
Variable c : crypto.

Lemma id_is_v4_iff r : id_is_v4 r = true <-> id r = Some v4.
Proof.
  unfold id_is_v4. destruct (id r) as [b|]; [|split; discriminate].
  rewrite bytes_eqb_eq. split; [intros ->; reflexivity | intros H; inv H; reflexivity].
Qed.

Lemma decode_authentic kt b r rest :
  bytes_ok b -> decode c kt b = Ok (r, rest) ->
  exists pk, enr_to_public c kt (content r) = Ok pk /\ id r = Some v4 /\
             verify_v4 c pk (signed_payload r) (sig r) = true.
Proof.
  intros Hok H. destruct (decode_shape c kt b r rest Hok H) as (_ & _ & _ & _ & pk & H1 & _ & H2 & H3).
  exists pk. rewrite <- id_is_v4_iff. auto.
Qed.

Lemma signed_payload_is_input kt b r rest :
  bytes_ok b -> decode c kt b = Ok (r, rest) ->
  b = enc_list (enc_string (sig r) ++ payload_body (seq r) (content r)) ++ rest /\
  signed_payload r = enc_list (payload_body (seq r) (content r)) /\
  payload_body (seq r) (content r) = enc_uint (seq r) ++ flat_map enc_pair (content r).
Proof.
  intros Hok H. destruct (decode_shape c kt b r rest Hok H) as (Hb & _).
  split; [exact Hb|]. split; reflexivity.
Qed.

Lemma decoded_verifies kt b r rest :
  bytes_ok b -> decode c kt b = Ok (r, rest) -> verify c kt r = Ok true.
Proof.
  intros Hok H. destruct (decode_shape c kt b r rest Hok H) as (_ & _ & _ & _ & pk & H1 & _ & H2 & H3).
  unfold verify, public_key. rewrite H1. cbn [bind]. rewrite H2, H3. reflexivity.
Qed.

Lemma verify_secp_shape pk m sg :
  verify_secp c pk m sg = true ->
  lenN sg = 64 /\
  0 < be_val (firstn 32 sg) < secp_n /\
  0 < be_val (skipn 32 sg) <= secp_half_n /\
  ecdsa_core c pk (keccak256 m) sg = true.
Proof.
  unfold verify_secp. intros H.
  apply andb_true_iff in H. destruct H as [H Hcore].
  apply andb_true_iff in H. destruct H as [Hlen H].
  cbv zeta in H. repeat (apply andb_true_iff in H; destruct H as [H ?]).
  repeat split; try lia. exact Hcore.
Qed.

Lemma wrong_length_sig_rejected_secp pk m sg : lenN sg <> 64 -> verify_secp c pk m sg = false.
Proof. intros H. unfold verify_secp. replace (lenN sg =? 64) with false by lia. reflexivity. Qed.

Lemma wrong_length_sig_rejected_ed pk m sg : lenN sg <> 64 -> verify_ed c pk m sg = false.
Proof. intros H. unfold verify_ed. replace (lenN sg =? 64) with false by lia. reflexivity. Qed.

(* high-S signatures are rejected whatever the curve equation says *)
Lemma high_s_rejected pk m sg : secp_half_n < be_val (skipn 32 sg) -> verify_secp c pk m sg = false.
Proof.
  intros H. unfold verify_secp. destruct (lenN sg =? 64); [|reflexivity]. cbv zeta.
  replace (be_val (skipn 32 sg) <=? secp_half_n) with false by lia.
  rewrite !andb_false_r. reflexivity.
Qed.

Lemma secp_n_odd : secp_n = 2 * secp_half_n + 1.
Proof. reflexivity. Qed.

Lemma twin_is_high s : 0 < s <= secp_half_n -> secp_half_n < secp_n - s /\ 0 < secp_n - s < secp_n.
Proof. intros H. rewrite secp_n_odd. lia. Qed.

(* the twin, as bytes *)
Lemma be_val_zeros j t : be_val (repeat 0 j ++ t) = be_val t.
Proof.
  unfold be_val. induction j as [|j IH]; cbn [repeat app be_val_acc]; [reflexivity|].
  replace (0 * 256 + 0) with 0 by lia. exact IH.
Qed.
Lemma be_val_pad k v : be_val (be_pad k v) = v.
Proof. unfold be_pad. rewrite be_val_zeros. apply be_val_trim. Qed.

Lemma skipn_app_exact {A} (a b : list A) n : length a = n -> skipn n (a ++ b) = b.
Proof. intros <-. rewrite skipn_app, Nat.sub_diag, skipn_all. reflexivity. Qed.

Lemma high_s_twin_rejected pk m sg :
  verify_secp c pk m sg = true ->
  verify_secp c pk m (firstn 32 sg ++ be_pad 32 (secp_n - be_val (skipn 32 sg))) = false.
Proof.
  intros H. destruct (verify_secp_shape _ _ _ H) as (Hlen & _ & Hs & _).
  apply high_s_rejected.
  assert (Hl32 : length (firstn 32 sg) = 32%nat).
  { apply firstn_length_le. unfold lenN in Hlen. lia. }
  rewrite (skipn_app_exact _ _ _ Hl32).
  rewrite be_val_pad. apply twin_is_high. exact Hs.
Qed.

(* C04 part 1: the consumed bytes are exactly the re-encoding; the encoding is injective on accepted inputs *)
Lemma decode_canonical kt b r rest :
  bytes_ok b -> decode c kt b = Ok (r, rest) -> b = encode r ++ rest.
Proof. intros Hok H. apply (decode_shape c kt b r rest Hok H). Qed.

Lemma decode_injective kt b1 b2 r :
  bytes_ok b1 -> bytes_ok b2 ->
  decode c kt b1 = Ok (r, []) -> decode c kt b2 = Ok (r, []) -> b1 = b2.
Proof.
  intros H1 H2 D1 D2. rewrite (decode_canonical _ _ _ _ H1 D1), (decode_canonical _ _ _ _ H2 D2). reflexivity.
Qed.

Lemma decode_advance kt b r rest :
  bytes_ok b -> decode c kt b = Ok (r, rest) -> lenN b = lenN (encode r) + lenN rest.
Proof. intros Hok H. rewrite (decode_canonical _ _ _ _ Hok H) at 1. apply lenN_app. Qed.

Lemma decode_size kt b r rest :
  bytes_ok b -> decode c kt b = Ok (r, rest) -> size r <= MAX_ENR_SIZE.
Proof. intros Hok H. apply (decode_shape c kt b r rest Hok H). Qed.

Lemma decode_nid kt b r rest :
  bytes_ok b -> decode c kt b = Ok (r, rest) ->
  exists pk, enr_to_public c kt (content r) = Ok pk /\ nid r = keccak256 (pk_unc pk).
Proof.
  intros Hok H. destruct (decode_shape c kt b r rest Hok H) as (_ & _ & _ & _ & pk & H1 & H2 & _).
  exists pk. auto.
Qed.

Lemma decode_seq_range kt b r rest :
  bytes_ok b -> decode c kt b = Ok (r, rest) -> seq r < 2 ^ 64.
Proof. intros Hok H. apply (decode_shape c kt b r rest Hok H). Qed.

End WithCrypto.
