(* Thm_Valid.v — C05: Valid (Spec.v) is an invariant of everything the library hands out:
   established by decode and build, preserved by every successful update with any key of the
   record's key type and any signer that only returns signatures its key verifies; failed updates
   leave the record as it was. By induction it holds along every history. *)
Require Import EnrProofs.Tactics EnrProofs.BytesLemmas EnrProofs.RlpLemmas EnrProofs.DecodeLemmas
  EnrProofs.SortedMapLemmas EnrProofs.WellFormedLemmas EnrProofs.UpdateLemmas EnrProofs.RefineLemmas EnrProofs.Thm_Update EnrProofs.KeccakLemmas.
Require Import Enr.Consts Enr.Rlp Enr.SortedMap Enr.Keccak Enr.Record Enr.Update Enr.Spec.
Open Scope N_scope.

(* ---- encodings of byte strings are byte strings ---- *)
Lemma bytes_ok_enc_string s : bytes_ok s -> lenN s < 2 ^ 64 -> bytes_ok (enc_string s).
Proof.
  intros Hs Hl. unfold enc_string. destruct s as [|x [|y s']].
  - apply bytes_ok_app. split; [apply bytes_ok_hdr_encode; exact Hl | exact Hs].
  - destruct (x <? 128); [exact Hs|]. apply bytes_ok_app. split; [apply bytes_ok_hdr_encode; pow64; lia | exact Hs].
  - apply bytes_ok_app. split; [apply bytes_ok_hdr_encode; exact Hl | exact Hs].
Qed.

Lemma bytes_ok_enc_uint n : n < 2 ^ 64 -> bytes_ok (enc_uint n).
Proof.
  intros H. unfold enc_uint. apply bytes_ok_enc_string; [apply be_trim_ok|].
  pose proof (be_trim_len_le n 8). change (256 ^ 8) with (2 ^ 64) in *. pow64. lia.
Qed.

Lemma bytes_ok_enc_list s : bytes_ok s -> lenN s < 2 ^ 64 -> bytes_ok (enc_list s).
Proof. intros Hs Hl. unfold enc_list. apply bytes_ok_app. split; [apply bytes_ok_hdr_encode; exact Hl | exact Hs]. Qed.

Lemma bytes_ok_flat_enc_string l :
  Forall (fun b => bytes_ok b /\ lenN b < 2 ^ 64) l -> bytes_ok (flat_map enc_string l).
Proof.
  induction 1 as [|b t [Hb Hl] _ IH]; cbn [flat_map]; [constructor|].
  apply bytes_ok_app. split; [apply bytes_ok_enc_string; assumption | exact IH].
Qed.

Lemma bytes_ok_enc_tval v : tval_ok v -> bytes_ok (enc_tval v).
Proof.
  destruct v; cbn [tval_ok enc_tval]; intros H.
  - apply bytes_ok_enc_string; tauto.
  - apply bytes_ok_enc_uint. pow64. lia.
  - apply bytes_ok_enc_uint. exact H.
  - apply bytes_ok_enc_string; tauto.
  - destruct H as [H1 H2]. unfold enc_strings. apply bytes_ok_enc_list; [apply bytes_ok_flat_enc_string; exact H1 | exact H2].
  - apply bytes_ok_enc_string; tauto.
  - apply bytes_ok_enc_string; tauto.
Qed.

Section WithCrypto.
Variable c : crypto.
Variable kt : keytype.

(* ---- what passes check_reserved is a well-typed value ---- *)
Lemma check_reserved_ok key v : bytes_ok v -> check_reserved c key v = Ok tt -> value_ok (key, v).
Proof.
  intros Hok. unfold check_reserved, value_ok. cbn [fst snd].
  assert (Hnil : forall (rest : bytes) (P : Prop), (rest = [] -> P) -> (if is_empty rest then Ok tt else Err EUnexpectedLength) = Ok tt -> P).
  { intros rest P HP. destruct rest; [intros _; apply HP; reflexivity | discriminate]. }
  destruct (bytes_eqb key k_id) eqn:Eid.
  { apply bytes_eqb_eq in Eid. subst key. change (is_port_key k_id) with false. cbv iota.
    intros H. bind_inv H. bind_inv Ha. destruct a0 as [s r]. destruct (bytes_eqb s v4) eqn:E; [|discriminate]. inv Hb0.
    apply bytes_eqb_eq in E. subst s. revert Hb. apply Hnil. intros ->.
    pose proof (dec_string_canon _ _ _ Hok Ha0) as Hc. rewrite app_nil_r in Hc. exact Hc. }
  destruct (is_port_key key) eqn:Eport.
  { intros H. bind_inv H. bind_inv Ha. destruct a0 as [q r]. inv Hb0. revert Hb. apply Hnil. intros ->.
    destruct (dec_uint_canon 2 _ _ _ Hok Ha0) as [Hc Hq]. rewrite app_nil_r in Hc. rewrite pow256_2 in Hq. exists q. auto. }
  destruct (bytes_eqb key k_ip) eqn:Eip.
  { intros H. bind_inv H. bind_inv Ha. destruct a0 as [s r]. inv Hb0. revert Hb. apply Hnil. intros ->.
    destruct (dec_fixed_canon 4 _ _ _ Hok Ha0) as [Hc Hl]. rewrite app_nil_r in Hc. exists s. auto. }
  destruct (bytes_eqb key k_ip6) eqn:Eip6.
  { intros H. bind_inv H. bind_inv Ha. destruct a0 as [s r]. inv Hb0. revert Hb. apply Hnil. intros ->.
    destruct (dec_fixed_canon 16 _ _ _ Hok Ha0) as [Hc Hl]. rewrite app_nil_r in Hc. exists s. auto. }
  destruct (bytes_eqb key k_secp) eqn:Esecp.
  { cbn [orb]. intros H. bind_inv H. bind_inv Ha. destruct a0 as [s r]. destruct (secp_chk c s); [|discriminate]. inv Hb0.
    revert Hb. apply Hnil. intros ->.
    pose proof (dec_string_canon _ _ _ Hok Ha0) as Hc. rewrite app_nil_r in Hc.
    destruct (dec_string_len _ _ _ Hok Ha0) as (Hl & _). exists s. auto. }
  destruct (bytes_eqb key k_ed) eqn:Eed.
  { cbn [orb]. intros H. bind_inv H. bind_inv Ha. destruct a0 as [s r]. inv Hb0. revert Hb. apply Hnil. intros ->.
    pose proof (dec_string_canon _ _ _ Hok Ha0) as Hc. rewrite app_nil_r in Hc.
    destruct (dec_string_len _ _ _ Hok Ha0) as (Hl & _). exists s. auto. }
  cbn [orb]. intros H. bind_inv H. bind_inv Ha. destruct a0 as [[l x] r]. inv Hb0. revert Hb. apply Hnil. intros ->.
  destruct (dec_item_canon _ _ _ _ Hok Ha0) as [Hc Hl]. rewrite app_nil_r in Hc. exists l, x. auto.
Qed.

(* ---- the signer's public-key entry ---- *)
Lemma pub_entry_ok k : key_bytes_ok k -> pair_ok (pub_key_name k, pub_entry k).
Proof.
  intros [Hb Hl]. unfold pair_ok, pub_key_name, pub_entry. cbn [fst snd].
  destruct (pk_scheme (sk_pub k)); cbn [scheme_key].
  - split; [vm_compute; reflexivity|]. unfold value_ok. cbn [fst snd].
    change (bytes_eqb k_secp k_id) with false. change (is_port_key k_secp) with false.
    change (bytes_eqb k_secp k_ip) with false. change (bytes_eqb k_secp k_ip6) with false.
    change (bytes_eqb k_secp k_secp || bytes_eqb k_secp k_ed) with true. cbv iota. eauto.
  - split; [vm_compute; reflexivity|]. unfold value_ok. cbn [fst snd].
    change (bytes_eqb k_ed k_id) with false. change (is_port_key k_ed) with false.
    change (bytes_eqb k_ed k_ip) with false. change (bytes_eqb k_ed k_ip6) with false.
    change (bytes_eqb k_ed k_secp || bytes_eqb k_ed k_ed) with true. cbv iota. eauto.
  - split; [vm_compute; reflexivity|]. unfold value_ok. cbn [fst snd].
    change (bytes_eqb k_toy k_id) with false. change (is_port_key k_toy) with false.
    change (bytes_eqb k_toy k_ip) with false. change (bytes_eqb k_toy k_ip6) with false.
    change (bytes_eqb k_toy k_secp || bytes_eqb k_toy k_ed) with false. cbv iota.
    exists false, (pk_enc (sk_pub k)). auto.
Qed.

Lemma with_key_ok m k :
  key_bytes_ok k -> sm_sorted m -> Forall pair_ok m -> sm_sorted (with_key m k) /\ Forall pair_ok (with_key m k).
Proof.
  intros Hk Hs Hall. unfold with_key. split; [apply sm_insert_sorted; exact Hs|].
  apply sm_insert_Forall; [apply pub_entry_ok; exact Hk | exact Hall].
Qed.

Lemma remove_keys_ok keys : forall m, sm_sorted m -> Forall pair_ok m ->
  sm_sorted (remove_keys keys m) /\ Forall pair_ok (remove_keys keys m).
Proof.
  induction keys as [|key t IH]; intros m Hs Hall; cbn [remove_keys fold_left]; [auto|].
  apply IH; [apply sm_remove_sorted; exact Hs | apply sm_remove_Forall; exact Hall].
Qed.

Lemma insert_pairs_ok kvs : forall m, Forall pair_ok kvs -> sm_sorted m -> Forall pair_ok m ->
  sm_sorted (insert_pairs kvs m) /\ Forall pair_ok (insert_pairs kvs m).
Proof.
  induction kvs as [|[key v] t IH]; intros m Hk Hs Hall; cbn [insert_pairs fold_left]; [auto|].
  inversion Hk; subst. apply IH; [assumption | apply sm_insert_sorted; exact Hs | apply sm_insert_Forall; assumption].
Qed.

Lemma spec_pairs_ok o k m :
  key_bytes_ok k -> Forall pair_ok (inserts o) -> sm_sorted m -> Forall pair_ok m ->
  sm_sorted (spec_pairs o k m) /\ Forall pair_ok (spec_pairs o k m).
Proof.
  intros Hk Hi Hs Hall. unfold spec_pairs.
  destruct (remove_keys_ok (removes o) m Hs Hall) as [Hs1 Hall1].
  destruct (insert_pairs_ok (inserts o) _ Hi Hs1 Hall1) as [Hs2 Hall2].
  apply with_key_ok; assumption.
Qed.

(* ---- a committed record with well-formed content is Valid ---- *)
Lemma committed_valid r' k sg :
  committed c kt r' k sg -> sm_sorted (content r') -> Forall pair_ok (content r') ->
  KeyOk c kt k -> GoodSigner c k sg -> Valid c kt r'.
Proof.
  intros Hc Hs Hall Hkey Hsg. exists (sk_pub k). split; [|apply (cm_nid _ _ _ _ _ Hc)].
  destruct (keyed_by_pk c kt _ _ (cm_keyed _ _ _ _ _ Hc)) as (p & Hp & He).
  pose proof (Hkey _ _ Hp He) as ->.
  unfold WellFormedAs. repeat split.
  - exact (cm_size _ _ _ _ _ Hc).
  - exact (cm_seq _ _ _ _ _ Hc).
  - apply strict_sortedb_SSorted. exact Hs.
  - exact Hall.
  - apply id_is_v4_get; [exact (cm_id _ _ _ _ _ Hc) | exact Hall].
  - apply enr_to_public_iff; assumption.
  - apply Hsg. exact (cm_sig _ _ _ _ _ Hc).
Qed.

Lemma valid_content r : Valid c kt r -> sm_sorted (content r) /\ Forall pair_ok (content r) /\ seq r < 2 ^ 64.
Proof.
  intros (pk & (_ & _ & Hq & Hs & Hall & _) & _). split; [apply strict_sortedb_SSorted; exact Hs | auto].
Qed.

(* ---- the values an operation writes are well-typed ---- *)
Lemma ip_pair_ok a : lenN a = 4 \/ lenN a = 16 -> pair_ok (ip_key a, enc_string a).
Proof.
  intros H. unfold ip_key. destruct H as [H|H]; rewrite H; cbn [N.eqb].
  - change (4 =? 4) with true. cbv iota. split; [vm_compute; reflexivity|]. unfold value_ok. cbn [fst snd].
    change (bytes_eqb k_ip k_id) with false. change (is_port_key k_ip) with false. change (bytes_eqb k_ip k_ip) with true.
    cbv iota. eauto.
  - change (16 =? 4) with false. cbv iota. split; [vm_compute; reflexivity|]. unfold value_ok. cbn [fst snd].
    change (bytes_eqb k_ip6 k_id) with false. change (is_port_key k_ip6) with false. change (bytes_eqb k_ip6 k_ip) with false.
    change (bytes_eqb k_ip6 k_ip6) with true. cbv iota. eauto.
Qed.

Lemma port_pair_ok key p : is_port_key key = true -> lenN key < 2 ^ 64 -> p < 65536 -> pair_ok (key, enc_uint p).
Proof.
  intros Hk Hl Hp. split; [exact Hl|]. unfold value_ok. cbn [fst snd].
  destruct (bytes_eqb key k_id) eqn:E; [apply bytes_eqb_eq in E; subst; discriminate|].
  rewrite Hk. eauto.
Qed.

Lemma udp_pair_ok a p : p < 65536 -> pair_ok (udp_key a, enc_uint p).
Proof. intros Hp. unfold udp_key. destruct (lenN a =? 4); apply port_pair_ok; auto; vm_compute; reflexivity. Qed.
Lemma tcp_pair_ok a p : p < 65536 -> pair_ok (tcp_key a, enc_uint p).
Proof. intros Hp. unfold tcp_key. destruct (lenN a =? 4); apply port_pair_ok; auto; vm_compute; reflexivity. Qed.

(* values written through the checked entry points: byte strings with keys of RLP-encodable length *)
Definition raw_ok (kv : bytes * bytes) : Prop := lenN (fst kv) < 2 ^ 64 /\ bytes_ok (snd kv).

Lemma checked_raw_ok kv : raw_ok kv -> checked c kv -> pair_ok kv.
Proof. intros [Hl Hb] Hc. destruct kv as [key v]. split; [exact Hl | apply check_reserved_ok; assumption]. Qed.

Lemma inserts_raw_ok o : op_ok o -> unchecked_op o = false -> Forall raw_ok (inserts o).
Proof.
  destruct o; cbn [op_ok inserts unchecked_op]; intros H Hu; try discriminate; try (constructor; fail); unfold raw_ok; cbn [fst snd].
  - destruct H as (Hk & Hl & Hv). constructor; [|constructor]. cbn [fst snd]. split; [exact Hl | apply bytes_ok_enc_tval; exact Hv].
  - destruct H as (Hk & Hl & Hv). constructor; [|constructor]. cbn [fst snd]. auto.
  - destruct H as (Ha & Hl). constructor; [|constructor]. cbn [fst snd].
    split; [unfold ip_key; destruct (lenN addr =? 4); vm_compute; reflexivity|].
    apply bytes_ok_enc_string; [exact Ha | destruct Hl as [-> | ->]; pow64; lia].
  - constructor; [|constructor]. cbn [fst snd]. split; [vm_compute; reflexivity | apply bytes_ok_enc_uint; pow64; lia].
  - constructor; [|constructor]. cbn [fst snd]. split; [vm_compute; reflexivity | apply bytes_ok_enc_uint; pow64; lia].
  - constructor; [|constructor]. cbn [fst snd]. split; [vm_compute; reflexivity | apply bytes_ok_enc_uint; pow64; lia].
  - constructor; [|constructor]. cbn [fst snd]. split; [vm_compute; reflexivity | apply bytes_ok_enc_uint; pow64; lia].
  - constructor; [|constructor]. cbn [fst snd]. split; [vm_compute; reflexivity | apply (bytes_ok_enc_tval (TList strs)); exact H].
  - induction ins as [|[key raw] t IH]; cbn [map]; [constructor|].
    inversion H as [|? ? (H1 & H2 & H3 & H4) Ht]; subst. cbn [fst snd] in *. constructor; [|apply IH; exact Ht].
    cbn [fst snd]. split; [exact H2 | apply bytes_ok_enc_string; assumption].
  - destruct H as [Hb Hl]. constructor; [|constructor]. cbn [fst snd].
    split; [destruct (pk_scheme p); vm_compute; reflexivity | apply bytes_ok_enc_string; assumption].
Qed.

Lemma inserts_pair_ok r o k sg x r' :
  seq r < 2 ^ 64 -> op_ok o -> apply_op c kt r o k sg = Ok (x, r') -> Forall pair_ok (inserts o).
Proof.
  intros Hs Hop H.
  assert (Hn : forall n, o = OSetSeq n -> n < 2 ^ 64) by (intros n ->; exact Hop).
  destruct (apply_op_spec c kt _ _ _ _ _ _ Hs Hn H) as (_ & _ & Hchk).
  destruct (unchecked_op o) eqn:Eu.
  - destruct o; try discriminate; cbn [op_ok inserts] in *; destruct Hop as (Ha & Hl & Hp).
    + constructor; [apply ip_pair_ok; exact Hl|]. constructor; [apply udp_pair_ok; exact Hp | constructor].
    + constructor; [apply ip_pair_ok; exact Hl|]. constructor; [apply tcp_pair_ok; exact Hp | constructor].
  - specialize (Hchk eq_refl). pose proof (inserts_raw_ok o Hop Eu) as Hraw.
    revert Hchk Hraw. generalize (inserts o). intros l Hc Hr. induction l as [|kv t IH]; [constructor|].
    inversion Hc; subst. inversion Hr; subst. constructor; [apply checked_raw_ok; assumption | apply IH; assumption].
Qed.

(* ---- C05: preservation ---- *)
Theorem apply_op_valid r o k sg x r' :
  Valid c kt r -> op_ok o -> key_bytes_ok k -> KeyOk c kt k -> GoodSigner c k sg ->
  apply_op c kt r o k sg = Ok (x, r') -> Valid c kt r'.
Proof.
  intros Hv Hop Hkb Hkey Hsg H.
  destruct (valid_content r Hv) as (Hs & Hall & Hq).
  assert (Hn : forall n, o = OSetSeq n -> n < 2 ^ 64) by (intros n ->; exact Hop).
  destruct (apply_op_ok c kt _ _ _ _ _ _ Hq Hn H) as [Hc _].
  destruct (apply_op_spec c kt _ _ _ _ _ _ Hq Hn H) as (Hcont & _ & _).
  pose proof (inserts_pair_ok _ _ _ _ _ _ Hq Hop H) as Hins.
  destruct (spec_pairs_ok o k (content r) Hkb Hins Hs Hall) as [Hs' Hall'].
  rewrite <- Hcont in Hs', Hall'.
  eapply committed_valid; eauto.
Qed.

Theorem step_valid r o k sg x r' :
  Valid c kt r -> op_ok o -> key_bytes_ok k -> KeyOk c kt k -> GoodSigner c k sg ->
  step c kt r o k sg = (Ok x, r') -> Valid c kt r'.
Proof.
  intros Hv Hop Hkb Hkey Hsg H. unfold step in H.
  destruct (apply_op c kt r o k sg) as [[x1 r1]|e1|] eqn:E; inv H.
  eapply apply_op_valid; eauto.
Qed.

(* whatever the outcome, the record the caller holds afterwards is valid *)
Theorem step_valid_any r o k sg :
  Valid c kt r -> op_ok o -> key_bytes_ok k -> KeyOk c kt k -> GoodSigner c k sg ->
  Valid c kt (snd (step c kt r o k sg)).
Proof.
  intros Hv Hop Hkb Hkey Hsg. unfold step.
  destruct (apply_op c kt r o k sg) as [[x1 r1]|e1|] eqn:E; cbn [snd]; try exact Hv.
  eapply apply_op_valid; eauto.
Qed.

Definition call_ok (x : op * skey * signer) : Prop :=
  let '(o, k, sg) := x in op_ok o /\ key_bytes_ok k /\ KeyOk c kt k /\ GoodSigner c k sg.

(* every prefix of every history: by induction over the list of calls *)
Theorem history_valid h : forall r, Valid c kt r -> Forall call_ok h -> Valid c kt (run c kt r h).
Proof.
  induction h as [|[[o k] sg] t IH]; intros r Hv Hall; cbn [run]; [exact Hv|].
  inversion Hall as [|? ? Hc Ht]; subst.
  change (op_ok o /\ key_bytes_ok k /\ KeyOk c kt k /\ GoodSigner c k sg) in Hc.
  destruct Hc as (Hop & Hkb & Hkey & Hsg).
  apply IH; [apply step_valid_any; assumption | exact Ht].
Qed.

Theorem history_valid_prefix h n r :
  Valid c kt r -> Forall call_ok h -> Valid c kt (run c kt r (firstn n h)).
Proof.
  intros Hv Hall. apply history_valid; [exact Hv|].
  rewrite <- (firstn_skipn n h) in Hall. apply Forall_app in Hall. tauto.
Qed.

End WithCrypto.

(* ---- the builder ---- *)
Lemma hdr_encode_len_small l n : n < 65536 -> lenN (hdr_encode l n) <= 3.
Proof.
  intros H. unfold hdr_encode. destruct (n <? 56); [cbn; lia|].
  rewrite lenN_cons. pose proof (be_trim_len_le n 2). rewrite pow256_2 in *. lia.
Qed.

Lemma enc_string_len_small s : lenN s < 65536 -> lenN (enc_string s) <= lenN s + 3.
Proof.
  intros H. unfold enc_string. destruct s as [|x [|y s']].
  - rewrite lenN_app. pose proof (hdr_encode_len_small false (lenN (@nil N))). lia.
  - destruct (x <? 128); [lia|]. rewrite lenN_app. pose proof (hdr_encode_len_small false 1). lia.
  - rewrite lenN_app. pose proof (hdr_encode_len_small false (lenN (x :: y :: s'))). lia.
Qed.

Lemma build_size_bound sg sq m :
  lenN (signed_payload_of sq m) + lenN sg + 8 <= MAX_ENR_SIZE ->
  lenN (enc_list (enc_string sg ++ payload_body sq m)) <= MAX_ENR_SIZE.
Proof.
  unfold signed_payload_of, enc_list, MAX_ENR_SIZE. rewrite !lenN_app. intros H.
  remember (payload_body sq m) as body eqn:Eb.
  assert (H1 : 1 <= lenN (hdr_encode true (lenN body))).
  { unfold hdr_encode. destruct (_ <? 56); [cbn; lia | rewrite lenN_cons; lia]. }
  pose proof (enc_string_len_small sg) as H2.
  pose proof (hdr_encode_len_small true (lenN (enc_string sg) + lenN body)) as H3.
  lia.
Qed.

Section Builder.
Variable c : crypto.
Variable kt : keytype.

Lemma bcall_raw_ok b m : bcall_ok b -> sm_sorted m -> Forall raw_ok m ->
  sm_sorted (apply_bcall m b) /\ Forall raw_ok (apply_bcall m b).
Proof.
  intros Hb Hs Hall. destruct b; cbn [apply_bcall bcall_ok] in *; (split; [apply sm_insert_sorted; exact Hs|]);
    apply sm_insert_Forall; try exact Hall; unfold raw_ok; cbn [fst snd].
  - destruct Hb as [Ha Hl]. split; [vm_compute; reflexivity | apply bytes_ok_enc_string; [exact Ha | rewrite Hl; pow64; lia]].
  - destruct Hb as [Ha Hl]. split; [vm_compute; reflexivity | apply bytes_ok_enc_string; [exact Ha | rewrite Hl; pow64; lia]].
  - split; [vm_compute; reflexivity | apply bytes_ok_enc_uint; pow64; lia].
  - split; [vm_compute; reflexivity | apply bytes_ok_enc_uint; pow64; lia].
  - split; [vm_compute; reflexivity | apply bytes_ok_enc_uint; pow64; lia].
  - split; [vm_compute; reflexivity | apply bytes_ok_enc_uint; pow64; lia].
  - split; [vm_compute; reflexivity | apply (bytes_ok_enc_tval (TList strs)); exact Hb].
  - destruct Hb as [Hl Hv]. split; [exact Hl | apply bytes_ok_enc_tval; exact Hv].
  - destruct Hb as [Hl Hv]. split; [exact Hl | exact Hv].
Qed.

Lemma bcalls_raw_ok calls : forall m, Forall bcall_ok calls -> sm_sorted m -> Forall raw_ok m ->
  sm_sorted (fold_left apply_bcall calls m) /\ Forall raw_ok (fold_left apply_bcall calls m).
Proof.
  induction calls as [|b t IH]; intros m Hc Hs Hall; cbn [fold_left]; [auto|].
  inversion Hc; subst. destruct (bcall_raw_ok b m) as [Hs' Hall']; auto.
Qed.

Lemma check_all_checked m : check_all c m = Ok tt -> Forall (checked c) m.
Proof.
  induction m as [|[key v] t IH]; cbn [check_all]; intros H; [constructor|].
  bind_inv H. destruct a. constructor; [exact Ha | apply IH; exact Hb].
Qed.

Lemma id_pair_ok : pair_ok (k_id, enc_string v4).
Proof. split; [vm_compute; reflexivity|]. unfold value_ok. cbn [fst snd]. change (bytes_eqb k_id k_id) with true. reflexivity. Qed.

Lemma pub_key_name_not_id k : k_id <> pub_key_name k.
Proof. unfold pub_key_name. destruct (pk_scheme (sk_pub k)); cbn [scheme_key]; intros E; vm_compute in E; discriminate. Qed.

Theorem build_valid sq calls k sg r :
  sq < 2 ^ 64 -> Forall bcall_ok calls -> key_bytes_ok k -> KeyOk c kt k -> GoodSigner c k sg ->
  build c kt sq calls k sg = Ok r -> Valid c kt r.
Proof.
  intros Hsq Hcalls Hkb Hkey Hsg H.
  destruct (build_ok c kt _ _ _ _ _ Hsq H) as (Hseq & Hnid & Hcont & Hchk & Hkeyed & Hsig & Hsz).
  destruct (bcalls_raw_ok calls [] Hcalls) as [Hs0 Hraw0]; [constructor | constructor|].
  assert (Hall0 : Forall pair_ok (fold_left apply_bcall calls [])).
  { pose proof (check_all_checked _ Hchk) as Hc. revert Hc Hraw0. generalize (fold_left apply_bcall calls []).
    intros l Hc Hr. induction l as [|kv t IH]; [constructor|].
    inversion Hc; subst. inversion Hr; subst. constructor; [apply checked_raw_ok with (c := c); assumption | apply IH; assumption]. }
  destruct (with_key_ok (sm_insert k_id (enc_string v4) (fold_left apply_bcall calls [])) k Hkb) as [Hs Hall].
  { apply sm_insert_sorted; exact Hs0. }
  { apply sm_insert_Forall; [exact id_pair_ok | exact Hall0]. }
  rewrite <- Hcont in Hs, Hall.
  apply (committed_valid c kt r k sg); try assumption.
  constructor; try assumption.
  - apply get_id_is_v4. rewrite Hcont. unfold with_key.
    rewrite sm_get_insert_other by apply pub_key_name_not_id. apply sm_get_insert_same.
  - unfold size, encode. apply build_size_bound. exact Hsz.
  - rewrite Hseq. exact Hsq.
Qed.

End Builder.

(* ---- what Valid means for the observer ---- *)
Section Observables.
Variable c : crypto.
Variable kt : keytype.

Theorem valid_observables r :
  Valid c kt r ->
  exists pk, public_key c kt r = Ok pk /\ verify c kt r = Ok true /\ id r = Some v4 /\
             nid r = node_id_of pk /\ size r <= MAX_ENR_SIZE /\ seq r < 2 ^ 64 /\
             decode c kt (encode r) = Ok (r, []).
Proof.
  intros Hv. pose proof (valid_redecodes c kt r [] Hv) as Hd. rewrite app_nil_r in Hd.
  destruct Hv as (pk & (_ & Hsz & Hq & Hs & Hall & Hid & Hpk & Hver) & Hnid).
  apply enr_to_public_iff in Hpk; [|exact Hall].
  pose proof (get_id_is_v4 r Hid) as Hid4.
  exists pk. unfold public_key, verify, public_key. rewrite Hpk. cbn [bind]. rewrite Hid4.
  unfold signed_payload. rewrite Hver. repeat split; auto.
  unfold id_is_v4 in Hid4. destruct (id r) as [b|]; [|discriminate]. apply bytes_eqb_eq in Hid4. subst. reflexivity.
Qed.

(* the toy scheme meets the hypotheses on keys and signers, for every 8-byte key and every padding *)
Lemma toy_key_ok (cc : crypto) b : KeyOk cc Toy {| sk_pub := {| pk_scheme := SToy; pk_enc := b; pk_unc := b |} |}.
Proof.
  intros m p Hp He. cbn [enr_to_public] in Hp. unfold toy_to_public in Hp.
  destruct (sm_get k_toy m); [|discriminate]. bind_inv Hp. destruct a as [x rest].
  destruct (lenN x =? 8); [|discriminate]. inv Hb. cbn [pk_enc sk_pub] in He. subst. reflexivity.
Qed.

Lemma toy_signer_good (cc : crypto) b pad : lenN b = 8 ->
  GoodSigner cc {| sk_pub := {| pk_scheme := SToy; pk_enc := b; pk_unc := b |} |}
             (fun msg => Some (b ++ toy_tag b msg ++ pad)).
Proof.
  intros Hl m s H. inv H. unfold verify_v4. cbn [pk_scheme sk_pub pk_enc]. unfold verify_toy.
  assert (Hb : length b = 8%nat) by (unfold lenN in Hl; lia).
  assert (Ht : length (toy_tag b m) = 8%nat).
  { unfold toy_tag. apply firstn_length_le. rewrite keccak256_length. lia. }
  apply andb_true_iff. split.
  - rewrite !lenN_app. unfold lenN. rewrite Hb, Ht. lia.
  - apply bytes_eqb_eq. rewrite app_assoc. rewrite firstn_app.
    replace (16 - length (b ++ toy_tag b m))%nat with 0%nat by (rewrite app_length; lia).
    rewrite firstn_all2 by (rewrite app_length; lia). cbn [firstn]. apply app_nil_r.
Qed.

End Observables.
