(* RefineLemmas.v — every successful update is the sorted-map specification of Spec.v:
   delete the named keys, write the named pairs, write the signer's key; returns are the previous
   values. Also: what was written through the generic entry points passed check_reserved. *)
Require Import EnrProofs.Tactics EnrProofs.BytesLemmas EnrProofs.RlpLemmas EnrProofs.UpdateLemmas EnrProofs.SortedMapLemmas.
Require Import Enr.Consts Enr.Rlp Enr.SortedMap Enr.Keccak Enr.Record Enr.Update Enr.Spec.
Open Scope N_scope.

Section WithCrypto.
Variable c : crypto.
Variable kt : keytype.

Definition checked (kv : bytes * bytes) : Prop := check_reserved c (fst kv) (snd kv) = Ok tt.

Lemma remove_all_spec rm : forall m, remove_all rm m = (prev_removed rm m, remove_keys rm m).
Proof.
  induction rm as [|key t IH]; intros m; cbn [remove_all prev_removed remove_keys fold_left]; [reflexivity|].
  rewrite IH. reflexivity.
Qed.

Definition framed (kv : bytes * bytes) : bytes * bytes := (fst kv, enc_string (snd kv)).

Lemma insert_all_spec ins : forall m l m',
  insert_all c ins m = Ok (l, m') ->
  m' = insert_pairs (map framed ins) m /\ l = prev_inserted (map framed ins) m /\ Forall checked (map framed ins).
Proof.
  induction ins as [|[key raw] t IH]; intros m l m' H; cbn [insert_all] in H.
  - inv H. cbn. auto.
  - bind_inv H. destruct a. bind_inv Hb. destruct a as [l0 m0]. inv Hb0.
    destruct (IH _ _ _ Ha0) as (-> & -> & Hall).
    cbn [map framed fst snd insert_pairs fold_left prev_inserted]. repeat split; auto.
Qed.

Lemma ip_key_eq a : (if negb (lenN a =? 4) then k_ip6 else k_ip) = ip_key a.
Proof. unfold ip_key. destruct (lenN a =? 4); reflexivity. Qed.
Lemma udp_key_eq a : (if negb (lenN a =? 4) then k_udp6 else k_udp) = udp_key a.
Proof. unfold udp_key. destruct (lenN a =? 4); reflexivity. Qed.
Lemma tcp_key_eq a : (if negb (lenN a =? 4) then k_tcp6 else k_tcp) = tcp_key a.
Proof. unfold tcp_key. destruct (lenN a =? 4); reflexivity. Qed.

(* previous port / address as returned by the setters = the typed accessor before the call *)
Lemma prev_port_is_accessor r key :
  match get_raw r key with
  | Some v => match dec_uint 2 v with Ok (q, _) => Some q | _ => None end
  | None => None
  end = port r key.
Proof.
  unfold port, get_uint, ok_some. destruct (get_raw r key) as [v|]; cbn [option_map]; [|reflexivity].
  destruct (dec_uint 2 v) as [[q rest]|e|]; reflexivity.
Qed.

Lemma prev_ip4_is_accessor r :
  match get_raw r k_ip with
  | Some v => match dec_fixed 4 v with Ok (a, _) => Some a | _ => None end
  | None => None
  end = ip4 r.
Proof.
  unfold ip4, get_bytes, ok_some, dec_fixed. destruct (get_raw r k_ip) as [v|]; cbn [option_map]; [|reflexivity].
  destruct (dec_string v) as [[s rest]|e|]; cbn [bind]; try reflexivity.
  destruct (lenN s =? 4); reflexivity.
Qed.

Lemma prev_ip6_is_accessor r :
  match get_raw r k_ip6 with
  | Some v => match dec_fixed 16 v with Ok (a, _) => Some a | _ => None end
  | None => None
  end = ip6 r.
Proof.
  unfold ip6, get_bytes, ok_some, dec_fixed. destruct (get_raw r k_ip6) as [v|]; cbn [option_map]; [|reflexivity].
  destruct (dec_string v) as [[s rest]|e|]; cbn [bind]; try reflexivity.
  destruct (lenN s =? 16); reflexivity.
Qed.

Definition unchecked_op (o : op) : bool :=
  match o with OSetUdpSocket _ _ | OSetTcpSocket _ _ => true | _ => false end.

Theorem apply_op_spec r o k sg x r' :
  seq r < 2 ^ 64 -> (forall n, o = OSetSeq n -> n < 2 ^ 64) ->
  apply_op c kt r o k sg = Ok (x, r') ->
  content r' = spec_pairs o k (content r) /\ x = spec_ret o r /\
  (unchecked_op o = false -> Forall checked (inserts o)).
Proof.
  intros Hs Hn H. unfold spec_pairs.
  destruct o; cbn [apply_op] in H; unfold unit_ret in H; cbn [removes inserts spec_ret unchecked_op remove_keys insert_pairs fold_left fst snd].
  - (* set_seq *) bind_inv H. inv Hb. destruct (set_seq_ok c kt _ _ _ _ _ (Hn _ eq_refl) Ha) as (_ & Hc & _). auto.
  - (* insert *) bind_inv H. destruct a as [p r1]. inv Hb.
    destruct (insert_raw_ok c kt _ _ _ _ _ _ _ Hs Ha) as (Hchk & -> & _ & Hc & _). repeat split; auto.
  - (* insert_raw *) bind_inv H. destruct a as [p r1]. inv Hb.
    destruct (insert_raw_ok c kt _ _ _ _ _ _ _ Hs Ha) as (Hchk & -> & _ & Hc & _). repeat split; auto.
  - (* set_ip *) bind_inv H. destruct a as [p r1]. inv Hb. unfold set_ip in Ha. bind_inv Ha. destruct a as [prev r2]. inv Hb.
    rewrite ip_key_eq in Ha0.
    destruct (insert_raw_ok c kt _ _ _ _ _ _ _ Hs Ha0) as (Hchk & -> & _ & Hc & _).
    split; [exact Hc|]. split; [|intros _; constructor; [exact Hchk | constructor]].
    f_equal. unfold ip_key. destruct (lenN addr =? 4); cbn [negb];
      [apply prev_ip4_is_accessor | apply prev_ip6_is_accessor].
  - bind_inv H. destruct a as [q r1]. inv Hb. unfold set_port in Ha. bind_inv Ha. destruct a as [prev r2]. inv Hb.
    destruct (insert_raw_ok c kt _ _ _ _ _ _ _ Hs Ha0) as (Hchk & -> & _ & Hc & _).
    split; [exact Hc|]. split; [f_equal; apply prev_port_is_accessor | intros _; constructor; [exact Hchk | constructor]].
  - bind_inv H. destruct a as [q r1]. inv Hb. unfold set_port in Ha. bind_inv Ha. destruct a as [prev r2]. inv Hb.
    destruct (insert_raw_ok c kt _ _ _ _ _ _ _ Hs Ha0) as (Hchk & -> & _ & Hc & _).
    split; [exact Hc|]. split; [f_equal; apply prev_port_is_accessor | intros _; constructor; [exact Hchk | constructor]].
  - bind_inv H. destruct a as [q r1]. inv Hb. unfold set_port in Ha. bind_inv Ha. destruct a as [prev r2]. inv Hb.
    destruct (insert_raw_ok c kt _ _ _ _ _ _ _ Hs Ha0) as (Hchk & -> & _ & Hc & _).
    split; [exact Hc|]. split; [f_equal; apply prev_port_is_accessor | intros _; constructor; [exact Hchk | constructor]].
  - bind_inv H. destruct a as [q r1]. inv Hb. unfold set_port in Ha. bind_inv Ha. destruct a as [prev r2]. inv Hb.
    destruct (insert_raw_ok c kt _ _ _ _ _ _ _ Hs Ha0) as (Hchk & -> & _ & Hc & _).
    split; [exact Hc|]. split; [f_equal; apply prev_port_is_accessor | intros _; constructor; [exact Hchk | constructor]].
  - bind_inv H. inv Hb. destruct (remove_key_ok c kt _ _ _ _ _ Hs Ha) as (_ & Hc & _). auto.
  - bind_inv H. inv Hb. destruct (remove_key_ok c kt _ _ _ _ _ Hs Ha) as (_ & Hc & _). auto.
  - bind_inv H. inv Hb. destruct (remove_key_ok c kt _ _ _ _ _ Hs Ha) as (_ & Hc & _). auto.
  - bind_inv H. inv Hb. destruct (remove_key_ok c kt _ _ _ _ _ Hs Ha) as (_ & Hc & _). auto.
  - (* client info *) bind_inv H. inv Hb. unfold set_client_info in Ha. bind_inv Ha. destruct a as [prev r2]. inv Hb.
    destruct (insert_raw_ok c kt _ _ _ _ _ _ _ Hs Ha0) as (Hchk & _ & _ & Hc & _).
    split; [exact Hc|]. split; [reflexivity | intros _; constructor; [exact Hchk | constructor]].
  - (* udp socket *) bind_inv H. inv Hb. destruct (set_socket_ok c kt _ _ _ _ _ _ _ Hs Ha) as (_ & _ & Hc).
    cbv zeta in Hc. rewrite ip_key_eq, udp_key_eq in Hc. split; [exact Hc|]. split; [reflexivity | intros Hf; discriminate].
  - (* tcp socket *) bind_inv H. inv Hb. destruct (set_socket_ok c kt _ _ _ _ _ _ _ Hs Ha) as (_ & _ & Hc).
    cbv zeta in Hc. rewrite ip_key_eq, tcp_key_eq in Hc. split; [exact Hc|]. split; [reflexivity | intros Hf; discriminate].
  - bind_inv H. destruct a as [[rem ins0] r1]. inv Hb.
    destruct (remove_insert_ok c kt _ _ _ _ _ _ _ _ Hs Ha) as (_ & _ & m1 & m2 & Hr & Hi & Hc).
    rewrite remove_all_spec in Hr. inv Hr. cbn [insert_all] in Hi. inv Hi. auto.
  - bind_inv H. destruct a as [[rem ins0] r1]. inv Hb.
    destruct (remove_insert_ok c kt _ _ _ _ _ _ _ _ Hs Ha) as (_ & _ & m1 & m2 & Hr & Hi & Hc).
    rewrite remove_all_spec in Hr. inv Hr. cbn [insert_all] in Hi. inv Hi. auto.
  - bind_inv H. destruct a as [[rem ins0] r1]. inv Hb.
    destruct (remove_insert_ok c kt _ _ _ _ _ _ _ _ Hs Ha) as (_ & _ & m1 & m2 & Hr & Hi & Hc).
    rewrite remove_all_spec in Hr. inv Hr. cbn [insert_all] in Hi. inv Hi. auto.
  - bind_inv H. destruct a as [[rem ins0] r1]. inv Hb.
    destruct (remove_insert_ok c kt _ _ _ _ _ _ _ _ Hs Ha) as (_ & _ & m1 & m2 & Hr & Hi & Hc).
    rewrite remove_all_spec in Hr. inv Hr. cbn [insert_all] in Hi. inv Hi. auto.
  - bind_inv H. inv Hb. destruct (remove_key_ok c kt _ _ _ _ _ Hs Ha) as (_ & Hc & _). auto.
  - (* remove_insert *) bind_inv H. destruct a as [[rem ins0] r1]. inv Hb.
    destruct (remove_insert_ok c kt _ _ _ _ _ _ _ _ Hs Ha) as (_ & _ & m1 & m2 & Hr & Hi & Hc).
    rewrite remove_all_spec in Hr. inv Hr.
    destruct (insert_all_spec _ _ _ _ Hi) as (-> & -> & Hall).
    split; [exact Hc|]. split; [reflexivity | intros _; exact Hall].
  - (* set_public_key *) bind_inv H. inv Hb. unfold set_public_key in Ha. bind_inv Ha. destruct a as [prev r2]. inv Hb.
    destruct (insert_raw_ok c kt _ _ _ _ _ _ _ Hs Ha0) as (Hchk & _ & _ & Hc & _).
    split; [exact Hc|]. split; [reflexivity | intros _; constructor; [exact Hchk | constructor]].
Qed.

(* ---- a normal form: every operation is "check the written values, then commit the specified pairs" ---- *)
Fixpoint check_list (kvs : list (bytes * bytes)) : res unit :=
  match kvs with [] => Ok tt | kv :: t => check_reserved c (fst kv) (snd kv) ;; check_list t end.

(* whether the operation applies the size limit before incrementing the sequence number *)
Definition pre_check (o : op) : bool :=
  match o with
  | ORemoveUdp4 | ORemoveUdp6 | ORemoveTcp | ORemoveTcp6 | ORemoveKey _
  | ORemoveUdpSocket | ORemoveUdp6Socket | ORemoveTcpSocket | ORemoveTcp6Socket | ORemoveInsert _ _ => false
  | _ => true
  end.

Definition commit (r : record) (o : op) (k : skey) (sg : signer) : res record :=
  match o with
  | OSetSeq n => set_seq c kt r n k sg
  | _ => finish c kt (pre_check o) r (spec_pairs o k (content r)) k sg
  end.

Definition checked_inserts (o : op) : list (bytes * bytes) := if unchecked_op o then [] else inserts o.

Lemma insert_all_nf ins : forall m,
  insert_all c ins m =
  (check_list (map framed ins) ;; Ok (prev_inserted (map framed ins) m, insert_pairs (map framed ins) m)).
Proof.
  induction ins as [|[key raw] t IH]; intros m; cbn [insert_all map framed check_list fst snd prev_inserted insert_pairs fold_left]; [reflexivity|].
  destruct (check_reserved c key (enc_string raw)) as [[]|e|]; cbn [bind]; try reflexivity.
  rewrite IH. destruct (check_list (map framed t)) as [[]|e|]; reflexivity.
Qed.

Theorem apply_op_nf r o k sg :
  apply_op c kt r o k sg =
  (check_list (checked_inserts o) ;; do r' <- commit r o k sg; Ok (spec_ret o r, r')).
Proof.
  unfold checked_inserts, commit, spec_pairs.
  destruct o; cbn [apply_op unchecked_op inserts removes check_list pre_check spec_ret remove_keys insert_pairs fold_left fst snd bind];
    unfold unit_ret, set_ip, set_port, set_client_info, set_public_key, insert_raw, remove_key, set_socket, remove_insert.
  - destruct (set_seq c kt r n k sg); reflexivity.
  - destruct (check_reserved c key (enc_tval v)) as [[]|e|]; cbn [bind]; try reflexivity. destruct (finish _ _ _ _ _ _ _); reflexivity.
  - destruct (check_reserved c key value) as [[]|e|]; cbn [bind]; try reflexivity. destruct (finish _ _ _ _ _ _ _); reflexivity.
  - rewrite ip_key_eq. destruct (check_reserved c (ip_key addr) (enc_string addr)) as [[]|e|]; cbn [bind]; try reflexivity.
    destruct (finish _ _ _ _ _ _ _); cbn [bind]; try reflexivity.
    f_equal. f_equal. f_equal. unfold ip_key. destruct (lenN addr =? 4); cbn [negb];
      [apply prev_ip4_is_accessor | apply prev_ip6_is_accessor].
  - destruct (check_reserved c k_udp (enc_uint p)) as [[]|e|]; cbn [bind]; try reflexivity.
    destruct (finish _ _ _ _ _ _ _); cbn [bind]; try reflexivity. do 3 f_equal. apply prev_port_is_accessor.
  - destruct (check_reserved c k_udp6 (enc_uint p)) as [[]|e|]; cbn [bind]; try reflexivity.
    destruct (finish _ _ _ _ _ _ _); cbn [bind]; try reflexivity. do 3 f_equal. apply prev_port_is_accessor.
  - destruct (check_reserved c k_tcp (enc_uint p)) as [[]|e|]; cbn [bind]; try reflexivity.
    destruct (finish _ _ _ _ _ _ _); cbn [bind]; try reflexivity. do 3 f_equal. apply prev_port_is_accessor.
  - destruct (check_reserved c k_tcp6 (enc_uint p)) as [[]|e|]; cbn [bind]; try reflexivity.
    destruct (finish _ _ _ _ _ _ _); cbn [bind]; try reflexivity. do 3 f_equal. apply prev_port_is_accessor.
  - destruct (finish _ _ _ _ _ _ _); reflexivity.
  - destruct (finish _ _ _ _ _ _ _); reflexivity.
  - destruct (finish _ _ _ _ _ _ _); reflexivity.
  - destruct (finish _ _ _ _ _ _ _); reflexivity.
  - destruct (check_reserved c k_client (enc_strings strs)) as [[]|e|]; cbn [bind]; try reflexivity.
    destruct (finish _ _ _ _ _ _ _); reflexivity.
  - cbv zeta. rewrite ip_key_eq, udp_key_eq. destruct (finish _ _ _ _ _ _ _); reflexivity.
  - cbv zeta. rewrite ip_key_eq, tcp_key_eq. destruct (finish _ _ _ _ _ _ _); reflexivity.
  - cbn [remove_all insert_all bind]. destruct (finish _ _ _ _ _ _ _); reflexivity.
  - cbn [remove_all insert_all bind]. destruct (finish _ _ _ _ _ _ _); reflexivity.
  - cbn [remove_all insert_all bind]. destruct (finish _ _ _ _ _ _ _); reflexivity.
  - cbn [remove_all insert_all bind]. destruct (finish _ _ _ _ _ _ _); reflexivity.
  - destruct (finish _ _ _ _ _ _ _); reflexivity.
  - rewrite remove_all_spec. rewrite insert_all_nf.
    change (map (fun kv : bytes * bytes => (fst kv, enc_string (snd kv))) ins) with (map framed ins).
    destruct (check_list (map framed ins)) as [[]|e|]; cbn [bind]; try reflexivity.
    destruct (finish _ _ _ _ _ _ _); reflexivity.
  - destruct (check_reserved c (scheme_key (pk_scheme p)) (enc_string (pk_enc p))) as [[]|e|]; cbn [bind]; try reflexivity.
    destruct (finish _ _ _ _ _ _ _); reflexivity.
Qed.

End WithCrypto.
