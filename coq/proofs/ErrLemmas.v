(* ErrLemmas.v — which error values the decoders can produce (the alloy-rlp kinds and the crate's
   Custom messages, all reported as InvalidRlpData), used to match error kinds with their causes. *)
Require Import EnrProofs.Tactics.
Require Import Enr.Consts Enr.Rlp Enr.SortedMap Enr.Keccak Enr.Record Enr.Update.
Open Scope N_scope.

(* Error::InvalidRlpData(_) *)
Definition is_rlp_err (e : err) : bool :=
  match e with
  | EInputTooShort | ENonCanonicalSingleByte | ENonCanonicalSize | ELeadingZero | EOverflow
  | EUnexpectedList | EUnexpectedString | EUnexpectedLength | ECustom => true
  | _ => false
  end.

Lemma bind_err {A B} (x : res A) (f : A -> res B) e :
  bind x f = Err e -> x = Err e \/ exists a, x = Ok a /\ f a = Err e.
Proof. destruct x as [a|e1|]; cbn [bind]; intros H; [right; eauto | left; inv H; reflexivity | discriminate]. Qed.

Lemma hdr_long_err l ll t e : hdr_long l ll t = Err e -> is_rlp_err e = true.
Proof.
  unfold hdr_long. destruct (_ <? _); [intros H; inv H; reflexivity|]. destruct (8 <? _); [intros H; inv H; reflexivity|].
  destruct (takeN ll t); [intros H; inv H; reflexivity|]. destruct (_ =? 0); [intros H; inv H; reflexivity|].
  destruct (_ <? 56); [intros H; inv H; reflexivity|]. destruct (_ <? _); intros H; inv H; reflexivity.
Qed.

Lemma hdr_decode_err b e : hdr_decode b = Err e -> is_rlp_err e = true.
Proof.
  destruct b as [|x t]; [intros H; inv H; reflexivity|]. cbn [hdr_decode].
  destruct (x <? 128); [discriminate|]. destruct (x <? 184).
  - intros H. apply bind_err in H. destruct H as [H|(a & _ & H)].
    + destruct (_ =? 1); [|discriminate]. destruct t; [inv H; reflexivity|]. destruct (_ <? 128); inv H; reflexivity.
    + destruct (_ <? _); inv H; reflexivity.
  - destruct (x <? 192); [apply hdr_long_err|]. destruct (x <? 248); [|apply hdr_long_err].
    destruct (_ <? _); intros H; inv H; reflexivity.
Qed.

Lemma dec_payload_err w b e : dec_payload w b = Err e -> is_rlp_err e = true.
Proof.
  unfold dec_payload. intros H. apply bind_err in H. destruct H as [H|([[l n] p] & _ & H)]; [eapply hdr_decode_err; eauto|].
  destruct (Bool.eqb l w); [discriminate|]. destruct w; inv H; reflexivity.
Qed.

Lemma left_pad_val_err k s e : left_pad_val k s = Err e -> is_rlp_err e = true.
Proof.
  unfold left_pad_val. destruct (_ <? _); [intros H; inv H; reflexivity|]. destruct s; [discriminate|].
  destruct (_ =? 0); intros H; inv H; reflexivity.
Qed.

Lemma dec_uint_err k b e : dec_uint k b = Err e -> is_rlp_err e = true.
Proof.
  unfold dec_uint. intros H. apply bind_err in H. destruct H as [H|([s r] & _ & H)]; [eapply dec_payload_err; eauto|].
  apply bind_err in H. destruct H as [H|(v & _ & H)]; [eapply left_pad_val_err; eauto | discriminate].
Qed.

Lemma dec_fixed_err k b e : dec_fixed k b = Err e -> is_rlp_err e = true.
Proof.
  unfold dec_fixed. intros H. apply bind_err in H. destruct H as [H|([s r] & _ & H)]; [eapply dec_payload_err; eauto|].
  destruct (_ =? _); inv H; reflexivity.
Qed.

Lemma dec_item_err b e : dec_item b = Err e -> is_rlp_err e = true.
Proof.
  unfold dec_item. intros H. apply bind_err in H. destruct H as [H|([[l n] p] & _ & H)]; [eapply hdr_decode_err; eauto | discriminate].
Qed.

Section WithCrypto.
Variable c : crypto.
Variable kt : keytype.

(* an ill-typed or malformed value: InvalidRlpData, or UnsupportedIdentityScheme for an id other than v4 *)
Lemma check_reserved_err key v e :
  check_reserved c key v = Err e ->
  is_rlp_err e = true \/ (e = EUnsupportedIdentityScheme /\ key = k_id).
Proof.
  unfold check_reserved. intros H. apply bind_err in H. destruct H as [H|(rest & _ & H)].
  2:{ destruct (is_empty rest); inv H. left; reflexivity. }
  destruct (is_port_key key).
  { apply bind_err in H. destruct H as [H|([q r] & _ & H)]; [left; eapply dec_uint_err; eauto | discriminate]. }
  destruct (bytes_eqb key k_id) eqn:Eid.
  { apply bind_err in H. destruct H as [H|([s r] & _ & H)]; [left; eapply dec_payload_err; eauto|].
    destruct (bytes_eqb s v4); inv H. right. split; [reflexivity | apply bytes_eqb_eq; exact Eid]. }
  destruct (bytes_eqb key k_ip).
  { apply bind_err in H. destruct H as [H|([s r] & _ & H)]; [left; eapply dec_fixed_err; eauto | discriminate]. }
  destruct (bytes_eqb key k_ip6).
  { apply bind_err in H. destruct H as [H|([s r] & _ & H)]; [left; eapply dec_fixed_err; eauto | discriminate]. }
  destruct (bytes_eqb key k_secp).
  { apply bind_err in H. destruct H as [H|([s r] & _ & H)]; [left; eapply dec_payload_err; eauto|].
    destruct (secp_chk c s); inv H. left; reflexivity. }
  destruct (bytes_eqb key k_ed).
  { apply bind_err in H. destruct H as [H|([s r] & _ & H)]; [left; eapply dec_payload_err; eauto | discriminate]. }
  apply bind_err in H. destruct H as [H|([[l x] r] & _ & H)]; [left; eapply dec_item_err; eauto | discriminate].
Qed.

Lemma enr_to_public_err m e : enr_to_public c kt m = Err e -> is_rlp_err e = true.
Proof.
  assert (Hs : forall e0, secp_to_public c m = Err e0 -> is_rlp_err e0 = true).
  { unfold secp_to_public. intros e0 H. destruct (sm_get k_secp m) as [v0|]; [|inv H; reflexivity].
    apply bind_err in H. destruct H as [H|([b r] & _ & H)]; [eapply dec_payload_err; eauto|].
    destruct (secp_pk c b) as [[cp un]|]; inv H. reflexivity. }
  assert (Hd : forall e0, ed_to_public c m = Err e0 -> is_rlp_err e0 = true).
  { unfold ed_to_public. intros e0 H. destruct (sm_get k_ed m) as [v0|]; [|inv H; reflexivity].
    apply bind_err in H. destruct H as [H|([b r] & _ & H)]; [eapply dec_payload_err; eauto|].
    destruct (_ && _); inv H. reflexivity. }
  destruct kt; cbn [enr_to_public]; auto.
  - destruct (secp_to_public c m); auto; discriminate.
  - unfold toy_to_public. intros H. destruct (sm_get k_toy m) as [v0|]; [|inv H; reflexivity].
    apply bind_err in H. destruct H as [H|([b r] & _ & H)]; [eapply dec_payload_err; eauto|].
    destruct (_ =? 8); inv H. reflexivity.
Qed.

Lemma check_keyed_by_err m k e : check_keyed_by c kt m k = Err e -> is_rlp_err e = true.
Proof.
  unfold check_keyed_by. destruct (enr_to_public c kt m) as [p|e1|] eqn:E.
  - destruct (bytes_eqb _ _); intros H; inv H. reflexivity.
  - intros H; inv H. eapply enr_to_public_err; eauto.
  - discriminate.
Qed.

End WithCrypto.
