(* Thm_Backends.v — C11: CombinedKey accepts exactly what the secp256k1 types accept (for records whose
   secp256k1 entry is a valid key) and what the ed25519 type accepts (for the others), with the same result. *)
Require Import EnrProofs.Tactics EnrProofs.BytesLemmas EnrProofs.RlpLemmas EnrProofs.DecodeLemmas EnrProofs.Thm_Misc.
Require Import Enr.Consts Enr.Rlp Enr.SortedMap Enr.Keccak Enr.Record.
Open Scope N_scope.

Section WithCrypto.
Variable c : crypto.

(* the decoder depends on the key type only through enr_to_public at the parsed pairs *)
Definition parse_pairs (b : bytes) : res (bytes * N * smap * bytes) :=
  do (_, n, p) <- hdr_decode b;
  if MAX_ENR_SIZE <? (lenN b - lenN p) + n then Err ECustom else
  do (payload, rest) <- dec_list b;
  if is_empty payload then Err ECustom else
  do (sg, p1) <- dec_string payload;
  if is_empty p1 then Err ECustom else
  do (sq, p2) <- dec_uint 8 p1;
  do m <- dec_pairs (length p2) None p2;
  Ok (sg, sq, m, rest).

Definition finish_decode (kt : keytype) (x : bytes * N * smap * bytes) : res (record * bytes) :=
  let '(sg, sq, m, rest) := x in
  do pk <- enr_to_public c kt m;
  let r := {| seq := sq; nid := node_id_of pk; content := m; sig := sg |} in
  do ok <- verify c kt r;
  if ok then Ok (r, rest) else Err ECustom.

Lemma decode_split kt b : decode c kt b = (do x <- parse_pairs b; finish_decode kt x).
Proof.
  unfold decode, parse_pairs, finish_decode.
  destruct (hdr_decode b) as [[[l n] p]|e|]; cbn [bind]; try reflexivity.
  destruct (_ <? _); [reflexivity|].
  destruct (dec_list b) as [[payload rest]|e|]; cbn [bind]; try reflexivity.
  destruct (is_empty payload); [reflexivity|].
  destruct (dec_string payload) as [[sg p1]|e|]; cbn [bind]; try reflexivity.
  destruct (is_empty p1); [reflexivity|].
  destruct (dec_uint 8 p1) as [[sq p2]|e|]; cbn [bind]; try reflexivity.
  destruct (dec_pairs (length p2) None p2) as [m|e|]; cbn [bind]; reflexivity.
Qed.

Lemma finish_decode_ext kt1 kt2 sg sq m rest :
  enr_to_public c kt1 m = enr_to_public c kt2 m ->
  finish_decode kt1 (sg, sq, m, rest) = finish_decode kt2 (sg, sq, m, rest).
Proof.
  intros H. unfold finish_decode.
  assert (Hv : forall r, content r = m -> verify c kt1 r = verify c kt2 r)
    by (intros r Hr; apply verify_kt_ext; rewrite Hr; exact H).
  rewrite H. destruct (enr_to_public c kt2 m) as [pk|e|]; cbn [bind]; try reflexivity.
  rewrite Hv by reflexivity. reflexivity.
Qed.

Lemma finish_decode_content kt sg sq m rest r rest' :
  finish_decode kt (sg, sq, m, rest) = Ok (r, rest') -> content r = m.
Proof.
  unfold finish_decode. intros H. bind_inv H. bind_inv Hb. destruct a0; [|discriminate]. inv Hb0. reflexivity.
Qed.

(* what a secp256k1 key type accepts, CombinedKey accepts with the same record *)
Theorem decode_comb_of_k256 b x : decode c K256 b = Ok x -> decode c Comb b = Ok x.
Proof.
  rewrite !decode_split. destruct (parse_pairs b) as [[[[sg sq] m] rest]|e|]; cbn [bind]; try discriminate.
  intros H. rewrite <- H. apply finish_decode_ext.
  cbn [enr_to_public]. unfold finish_decode in H. cbn [enr_to_public] in H.
  destruct (secp_to_public c m) as [p|e|]; [reflexivity | discriminate | discriminate].
Qed.

(* what the ed25519 key type accepts, CombinedKey accepts with the same record, unless the record also
   carries a valid secp256k1 key (which then takes precedence) *)
Theorem decode_comb_of_ed b r rest :
  decode c Ed b = Ok (r, rest) -> (forall p, secp_to_public c (content r) <> Ok p) ->
  decode c Comb b = Ok (r, rest).
Proof.
  rewrite !decode_split. destruct (parse_pairs b) as [[[[sg sq] m] rest0]|e|]; cbn [bind]; try discriminate.
  intros H Hn. rewrite <- H. apply finish_decode_ext.
  rewrite (finish_decode_content _ _ _ _ _ _ _ H) in Hn. apply enr_to_public_comb_ed. exact Hn.
Qed.

(* and CombinedKey accepts nothing else *)
Theorem decode_comb_split b r rest :
  decode c Comb b = Ok (r, rest) ->
  (exists p, secp_to_public c (content r) = Ok p /\ decode c K256 b = Ok (r, rest) /\ decode c LibSecp b = Ok (r, rest)) \/
  ((forall p, secp_to_public c (content r) <> Ok p) /\ decode c Ed b = Ok (r, rest)).
Proof.
  rewrite !decode_split. destruct (parse_pairs b) as [[[[sg sq] m] rest0]|e|]; cbn [bind]; try discriminate.
  intros H. pose proof (finish_decode_content _ _ _ _ _ _ _ H) as Hc. rewrite Hc.
  destruct (secp_to_public c m) as [p|e|] eqn:Es.
  - left. exists p. split; [reflexivity|].
    assert (E : finish_decode K256 (sg, sq, m, rest0) = finish_decode Comb (sg, sq, m, rest0)).
    { apply finish_decode_ext. cbn [enr_to_public]. rewrite Es. reflexivity. }
    split; [rewrite E; exact H | change (finish_decode LibSecp (sg, sq, m, rest0)) with (finish_decode K256 (sg, sq, m, rest0)); rewrite E; exact H].
  - right. split; [intros p; discriminate|].
    rewrite <- H. apply finish_decode_ext. cbn [enr_to_public]. rewrite Es. reflexivity.
  - right. split; [intros p; discriminate|].
    rewrite <- H. apply finish_decode_ext. cbn [enr_to_public]. rewrite Es. reflexivity.
Qed.

(* a single-scheme key type never accepts a record that carries only the other scheme's key *)
Theorem isolation_secp b r rest :
  bytes_ok b -> decode c K256 b = Ok (r, rest) -> sm_get k_secp (content r) <> None.
Proof. intros Hok H. apply (decode_needs_own_key c K256 b r rest Hok H). Qed.
Theorem isolation_ed b r rest :
  bytes_ok b -> decode c Ed b = Ok (r, rest) -> sm_get k_ed (content r) <> None.
Proof. intros Hok H. apply (decode_needs_own_key c Ed b r rest Hok H). Qed.

End WithCrypto.
