(* Thm_Access2.v — C14 without side conditions on the record: what a typed accessor reports is determined by
   the stored raw value alone (it reports v exactly when the stored bytes BEGIN with the canonical encoding of
   v; on records handed out nothing follows it, Thm_Access), and everything a typed setter or a builder method
   stores reads back as the value set — with no premise on the resulting record. *)
Require Import EnrProofs.Tactics EnrProofs.BytesLemmas EnrProofs.RlpLemmas EnrProofs.DecodeLemmas
  EnrProofs.SortedMapLemmas EnrProofs.WellFormedLemmas EnrProofs.UpdateLemmas EnrProofs.RefineLemmas EnrProofs.Thm_Refine EnrProofs.Thm_Access.
Require Import Enr.Consts Enr.Rlp Enr.SortedMap Enr.Keccak Enr.Record Enr.Update Enr.Spec.
Open Scope N_scope.

(* ---- the accessor as a function of the stored bytes ---- *)
Theorem port_iff_prefix r k v p :
  sm_get k (content r) = Some v -> bytes_ok v ->
  (port r k = Some p <-> exists rest, v = enc_uint p ++ rest /\ p < 65536).
Proof.
  intros Hg Hok. unfold port, get_uint, get_raw. rewrite Hg. cbn [option_map]. split.
  - destruct (dec_uint 2 v) as [[x rest]|e|] eqn:E; cbn [bind ok_some]; try discriminate.
    intros H; inv H. destruct (dec_uint_canon 2 v p rest Hok E) as [Hv Hp]. exists rest. split; [exact Hv | rewrite <- pow256_2; exact Hp].
  - intros (rest & -> & Hp). rewrite dec_uint_enc; [reflexivity | lia | rewrite pow256_2; exact Hp].
Qed.

Theorem port_absent r k : sm_get k (content r) = None -> port r k = None.
Proof. intros Hg. unfold port, get_uint, get_raw. rewrite Hg. reflexivity. Qed.

Theorem ip4_iff_prefix r v a :
  sm_get k_ip (content r) = Some v -> bytes_ok v ->
  (ip4 r = Some a <-> exists rest, v = enc_string a ++ rest /\ lenN a = 4).
Proof.
  intros Hg Hok. unfold ip4, get_bytes, get_raw. rewrite Hg. cbn [option_map]. split.
  - destruct (dec_string v) as [[s rest]|e|] eqn:E; cbn [bind ok_some]; try discriminate.
    destruct (lenN s =? 4) eqn:El; [|discriminate]. intros H; inv H. exists rest. split; [apply dec_string_canon; assumption | lia].
  - intros (rest & -> & Hl). rewrite dec_string_enc by (pow64; lia). cbn [bind ok_some]. rewrite Hl. reflexivity.
Qed.

Theorem ip6_iff_prefix r v a :
  sm_get k_ip6 (content r) = Some v -> bytes_ok v ->
  (ip6 r = Some a <-> exists rest, v = enc_string a ++ rest /\ lenN a = 16).
Proof.
  intros Hg Hok. unfold ip6, get_bytes, get_raw. rewrite Hg. cbn [option_map]. split.
  - destruct (dec_string v) as [[s rest]|e|] eqn:E; cbn [bind ok_some]; try discriminate.
    destruct (lenN s =? 16) eqn:El; [|discriminate]. intros H; inv H. exists rest. split; [apply dec_string_canon; assumption | lia].
  - intros (rest & -> & Hl). rewrite dec_string_enc by (pow64; lia). cbn [bind ok_some]. rewrite Hl. reflexivity.
Qed.

Theorem client_info_iff_prefix r v l :
  sm_get k_client (content r) = Some v -> bytes_ok v ->
  Forall (fun s => lenN s < 2 ^ 64) l -> lenN (flat_map enc_string l) < 2 ^ 64 ->
  (client_info r = Some l <-> exists rest, v = enc_strings l ++ rest /\ (length l = 2 \/ length l = 3)%nat).
Proof.
  intros Hg Hok Hall Hl. unfold client_info, get_strings, get_raw. rewrite Hg. cbn [option_map]. split.
  - destruct (dec_vec_bytes v) as [[l' rest]|e|] eqn:E; cbn [bind ok_some]; try discriminate.
    destruct (Nat.eqb (length l') 2 || Nat.eqb (length l') 3) eqn:En; [|discriminate]. intros H; inv H.
    exists rest. split; [apply dec_vec_bytes_canon; assumption|].
    apply orb_true_iff in En. destruct En as [En|En]; apply Nat.eqb_eq in En; auto.
  - intros (rest & -> & Hn). rewrite dec_vec_bytes_enc by assumption. cbn [bind ok_some].
    unfold bytes in *. destruct Hn as [Hn|Hn]; rewrite Hn; reflexivity.
Qed.

(* ---- what is stored canonically reads back, whatever else the record holds ---- *)
Lemma port_of_stored r k p : p < 65536 -> sm_get k (content r) = Some (enc_uint p) -> port r k = Some p.
Proof.
  intros Hp Hg. unfold port, get_uint, get_raw. rewrite Hg. cbn [option_map].
  rewrite <- (app_nil_r (enc_uint p)). rewrite dec_uint_enc; [reflexivity | lia | rewrite pow256_2; exact Hp].
Qed.

Lemma ip4_of_stored r a : lenN a = 4 -> sm_get k_ip (content r) = Some (enc_string a) -> ip4 r = Some a.
Proof.
  intros Hl Hg. unfold ip4, get_bytes, get_raw. rewrite Hg. cbn [option_map].
  rewrite <- (app_nil_r (enc_string a)). rewrite dec_string_enc by (pow64; lia). cbn [bind ok_some]. rewrite Hl. reflexivity.
Qed.

Lemma ip6_of_stored r a : lenN a = 16 -> sm_get k_ip6 (content r) = Some (enc_string a) -> ip6 r = Some a.
Proof.
  intros Hl Hg. unfold ip6, get_bytes, get_raw. rewrite Hg. cbn [option_map].
  rewrite <- (app_nil_r (enc_string a)). rewrite dec_string_enc by (pow64; lia). cbn [bind ok_some]. rewrite Hl. reflexivity.
Qed.

Lemma client_of_stored r l :
  Forall (fun s => lenN s < 2 ^ 64) l -> lenN (flat_map enc_string l) < 2 ^ 64 -> (length l = 2 \/ length l = 3)%nat ->
  sm_get k_client (content r) = Some (enc_strings l) -> client_info r = Some l.
Proof.
  intros Hall Hl Hn Hg. unfold client_info, get_strings, get_raw. rewrite Hg. cbn [option_map].
  rewrite <- (app_nil_r (enc_strings l)). rewrite dec_vec_bytes_enc by assumption. cbn [bind ok_some].
  unfold bytes in *. destruct Hn as [Hn|Hn]; rewrite Hn; reflexivity.
Qed.

Section Setters.
Variable c : crypto.
Variable kt : keytype.

Lemma client_not_pub k : k_client <> pub_key_name k.
Proof. unfold pub_key_name. destruct (pk_scheme (sk_pub k)); cbn [scheme_key]; intros E; vm_compute in E; discriminate. Qed.

(* set_client_info stores the canonical list and client_info returns exactly the strings set *)
Theorem set_client_info_reads_back r k sg x r' l :
  seq r < 2 ^ 64 -> Forall (fun s => lenN s < 2 ^ 64) l -> lenN (flat_map enc_string l) < 2 ^ 64 ->
  (length l = 2 \/ length l = 3)%nat ->
  step c kt r (OSetClientInfo l) k sg = (Ok x, r') ->
  client_info r' = Some l /\ sm_get k_client (content r') = Some (enc_strings l).
Proof.
  intros Hs Hall Hl Hn H.
  pose proof (step_single_insert c kt r (OSetClientInfo l) k sg x r' _ _ Hs (fun n E => ltac:(discriminate E)) H eq_refl (client_not_pub k)) as Hg.
  split; [apply client_of_stored; assumption | exact Hg].
Qed.

(* typed port setters, with no premise on the result *)
Theorem set_port_reads_back_any r k sg p x r' :
  seq r < 2 ^ 64 -> p < 65536 ->
  (step c kt r (OSetUdp4 p) k sg = (Ok x, r') -> udp4 r' = Some p) /\
  (step c kt r (OSetUdp6 p) k sg = (Ok x, r') -> udp6 r' = Some p) /\
  (step c kt r (OSetTcp4 p) k sg = (Ok x, r') -> tcp4 r' = Some p) /\
  (step c kt r (OSetTcp6 p) k sg = (Ok x, r') -> tcp6 r' = Some p).
Proof.
  intros Hs Hp.
  assert (Hk : forall key, is_port_key key = true -> key <> pub_key_name k) by (intros key Hk; apply port_key_not_pub; exact Hk).
  repeat split; intros H.
  - apply port_of_stored; [exact Hp|].
    exact (step_single_insert c kt r (OSetUdp4 p) k sg x r' _ _ Hs (fun n E => ltac:(discriminate E)) H eq_refl (Hk k_udp eq_refl)).
  - apply port_of_stored; [exact Hp|].
    exact (step_single_insert c kt r (OSetUdp6 p) k sg x r' _ _ Hs (fun n E => ltac:(discriminate E)) H eq_refl (Hk k_udp6 eq_refl)).
  - apply port_of_stored; [exact Hp|].
    exact (step_single_insert c kt r (OSetTcp4 p) k sg x r' _ _ Hs (fun n E => ltac:(discriminate E)) H eq_refl (Hk k_tcp eq_refl)).
  - apply port_of_stored; [exact Hp|].
    exact (step_single_insert c kt r (OSetTcp6 p) k sg x r' _ _ Hs (fun n E => ltac:(discriminate E)) H eq_refl (Hk k_tcp6 eq_refl)).
Qed.

(* builder methods ip4 / ip6 / client_info: the last call on a key is what the built record reports *)
Theorem build_ip4_reads_back sq calls k sg r pre a post :
  sq < 2 ^ 64 -> build c kt sq calls k sg = Ok r -> calls = pre ++ BIp4 a :: post -> lenN a = 4 ->
  ~ In k_ip (map fst (map bcall_pair post)) -> ip4 r = Some a.
Proof.
  intros Hs H Hc Hl Hpost. apply ip4_of_stored; [exact Hl|].
  apply (build_last_write c kt sq calls k sg r pre (BIp4 a) post Hs H Hc Hpost).
  - intros E; vm_compute in E; discriminate.
  - cbn [bcall_pair fst]. unfold pub_key_name. destruct (pk_scheme (sk_pub k)); cbn [scheme_key]; intros E; vm_compute in E; discriminate.
Qed.

Theorem build_ip6_reads_back sq calls k sg r pre a post :
  sq < 2 ^ 64 -> build c kt sq calls k sg = Ok r -> calls = pre ++ BIp6 a :: post -> lenN a = 16 ->
  ~ In k_ip6 (map fst (map bcall_pair post)) -> ip6 r = Some a.
Proof.
  intros Hs H Hc Hl Hpost. apply ip6_of_stored; [exact Hl|].
  apply (build_last_write c kt sq calls k sg r pre (BIp6 a) post Hs H Hc Hpost).
  - intros E; vm_compute in E; discriminate.
  - cbn [bcall_pair fst]. unfold pub_key_name. destruct (pk_scheme (sk_pub k)); cbn [scheme_key]; intros E; vm_compute in E; discriminate.
Qed.

Theorem build_client_reads_back sq calls k sg r pre l post :
  sq < 2 ^ 64 -> build c kt sq calls k sg = Ok r -> calls = pre ++ BClient l :: post ->
  Forall (fun s => lenN s < 2 ^ 64) l -> lenN (flat_map enc_string l) < 2 ^ 64 -> (length l = 2 \/ length l = 3)%nat ->
  ~ In k_client (map fst (map bcall_pair post)) -> client_info r = Some l.
Proof.
  intros Hs H Hc Hall Hl Hn Hpost. apply client_of_stored; try assumption.
  apply (build_last_write c kt sq calls k sg r pre (BClient l) post Hs H Hc Hpost).
  - intros E; vm_compute in E; discriminate.
  - apply client_not_pub.
Qed.

End Setters.
