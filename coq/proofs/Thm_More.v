(* Thm_More.v — consequences of the canonical-form and validity theorems:
   C15 (content comparison is exact; equal records with different content are collisions),
   C13 (lists and streams of records), C03 (updates, builder and accessors never panic). *)
Require Import EnrProofs.Tactics EnrProofs.BytesLemmas EnrProofs.RlpLemmas EnrProofs.DecodeLemmas
  EnrProofs.SortedMapLemmas EnrProofs.WellFormedLemmas EnrProofs.UpdateLemmas EnrProofs.ErrLemmas
  EnrProofs.RefineLemmas EnrProofs.Thm_Misc EnrProofs.Thm_Valid EnrProofs.Thm_Access.
Require Import Enr.Consts Enr.Rlp Enr.SortedMap Enr.Keccak Enr.Record Enr.Update Enr.Spec.
Open Scope N_scope.

(* ---- the signed payload determines seq and pairs (self-delimiting items) ---- *)
Lemma flat_pairs_inj m1 m2 :
  strict_sorted (map fst m1) -> strict_sorted (map fst m2) -> Forall pair_ok m1 -> Forall pair_ok m2 ->
  flat_map enc_pair m1 = flat_map enc_pair m2 -> m1 = m2.
Proof.
  intros S1 S2 A1 A2 E.
  assert (D1 : dec_pairs (length m1 + length m2)%nat None (flat_map enc_pair m1) = Ok m1)
    by (apply dec_pairs_enc; [lia | apply sorted_from_None; assumption | assumption]).
  assert (D2 : dec_pairs (length m1 + length m2)%nat None (flat_map enc_pair m2) = Ok m2)
    by (apply dec_pairs_enc; [lia | apply sorted_from_None; assumption | assumption]).
  rewrite E in D1. rewrite D2 in D1. inv D1. reflexivity.
Qed.

Lemma payload_body_inj sq1 m1 sq2 m2 :
  sq1 < 2 ^ 64 -> sq2 < 2 ^ 64 ->
  strict_sorted (map fst m1) -> strict_sorted (map fst m2) -> Forall pair_ok m1 -> Forall pair_ok m2 ->
  payload_body sq1 m1 = payload_body sq2 m2 -> sq1 = sq2 /\ m1 = m2.
Proof.
  intros H1 H2 S1 S2 A1 A2 E. unfold payload_body in E.
  assert (D1 : dec_uint 8 (enc_uint sq1 ++ flat_map enc_pair m1) = Ok (sq1, flat_map enc_pair m1))
    by (apply dec_uint_enc; [lia | change (256 ^ 8) with (2 ^ 64); assumption]).
  assert (D2 : dec_uint 8 (enc_uint sq2 ++ flat_map enc_pair m2) = Ok (sq2, flat_map enc_pair m2))
    by (apply dec_uint_enc; [lia | change (256 ^ 8) with (2 ^ 64); assumption]).
  rewrite E in D1. rewrite D2 in D1. inv D1.
  split; [reflexivity | apply flat_pairs_inj; try assumption; symmetry; assumption].
Qed.

Lemma enc_list_inj a b : lenN a < 2 ^ 64 -> lenN b < 2 ^ 64 -> enc_list a = enc_list b -> a = b.
Proof.
  intros Ha Hb E. pose proof (dec_list_enc a [] Ha) as D1. pose proof (dec_list_enc b [] Hb) as D2.
  rewrite !app_nil_r in *. rewrite E in D1. rewrite D2 in D1. inv D1. reflexivity.
Qed.

Section WithCrypto.
Variable c : crypto.
Variable kt : keytype.

Lemma valid_parts r : Valid c kt r ->
  seq r < 2 ^ 64 /\ strict_sorted (map fst (content r)) /\ Forall pair_ok (content r) /\
  lenN (payload_body (seq r) (content r)) < 2 ^ 64.
Proof.
  intros (pk & (_ & Hsz & Hq & Hs & Hall & _) & _). repeat split; auto.
  unfold encode, enc_list in Hsz. rewrite !lenN_app in Hsz. pow64. lia.
Qed.

(* C15: content comparison is true exactly when seq and pairs coincide, whatever the signatures *)
Theorem compare_content_iff a b : Valid c kt a -> Valid c kt b ->
  (compare_content a b = true <-> seq a = seq b /\ content a = content b).
Proof.
  intros Va Vb. destruct (valid_parts a Va) as (Qa & Sa & Aa & La). destruct (valid_parts b Vb) as (Qb & Sb & Ab & Lb).
  rewrite compare_content_iff_payload. unfold signed_payload, signed_payload_of. split.
  - intros E. apply enc_list_inj in E; [|assumption..]. apply payload_body_inj; assumption.
  - intros [-> ->]. reflexivity.
Qed.

(* C15: equal records encode identically, unless a signature / hash collision is exhibited *)
Theorem eq_same_content_or_collision a b : Valid c kt a -> Valid c kt b -> rec_eqb a b = true ->
  encode a = encode b \/
  (exists pa pb, enr_to_public c kt (content a) = Ok pa /\ enr_to_public c kt (content b) = Ok pb /\
                 keccak256 (pk_unc pa) = keccak256 (pk_unc pb) /\
                 signed_payload a <> signed_payload b /\
                 verify_v4 c pa (signed_payload a) (sig a) = true /\ verify_v4 c pb (signed_payload b) (sig a) = true).
Proof.
  intros Va Vb E. apply rec_eqb_iff in E. destruct E as (Es & En & Eg).
  destruct (bytes_eqb (signed_payload a) (signed_payload b)) eqn:Ep.
  - left. apply bytes_eqb_eq in Ep. assert (Hc : compare_content a b = true) by (apply compare_content_iff_payload; exact Ep).
    apply (compare_content_iff a b Va Vb) in Hc. destruct Hc as [_ Hc]. unfold encode. rewrite Es, Hc, Eg. reflexivity.
  - right. apply bytes_eqb_neq in Ep.
    destruct Va as (pa & (_ & _ & _ & _ & Aa & _ & Pa & Ha) & Na). destruct Vb as (pb & (_ & _ & _ & _ & Ab & _ & Pb & Hb) & Nb).
    exists pa, pb. apply enr_to_public_iff in Pa; [|assumption]. apply enr_to_public_iff in Pb; [|assumption].
    repeat split; auto.
    + unfold node_id_of in Na, Nb. rewrite <- Na, <- Nb. exact En.
    + rewrite Eg. exact Hb.
Qed.

(* C13: a list of records, and records back to back, decode to the same records as individually *)
Lemma dec_records_ok rs : forall fuel,
  Forall (Valid c kt) rs -> (length rs <= fuel)%nat -> dec_records c kt fuel (flat_map encode rs) = Ok rs.
Proof.
  induction rs as [|r t IH]; intros fuel Hall Hf; cbn [flat_map].
  - destruct fuel; reflexivity.
  - destruct fuel as [|f]; [cbn [length] in Hf; lia|]. inversion Hall; subst.
    assert (Hne : encode r ++ flat_map encode t <> []).
    { unfold encode, enc_list, hdr_encode. destruct (_ <? 56); discriminate. }
    cbn [dec_records]. destruct (encode r ++ flat_map encode t) eqn:E; [congruence|]. rewrite <- E.
    rewrite valid_redecodes by assumption. cbn [bind]. rewrite IH; [reflexivity | assumption | cbn [length] in Hf; lia].
Qed.

Lemma length_flat_encode (rs : list record) : (length rs <= length (flat_map encode rs))%nat.
Proof.
  induction rs as [|r t IH]; cbn [flat_map length]; [lia|]. rewrite app_length.
  assert (1 <= length (encode r))%nat.
  { unfold encode, enc_list, hdr_encode. destruct (_ <? 56); cbn [app length]; lia. }
  lia.
Qed.

Theorem decode_vec_ok rs rest :
  Forall (Valid c kt) rs -> lenN (flat_map encode rs) < 2 ^ 64 ->
  decode_vec c kt (enc_list (flat_map encode rs) ++ rest) = Ok (rs, rest).
Proof.
  intros Hall Hl. unfold decode_vec. rewrite dec_list_enc by exact Hl. cbn [bind].
  rewrite dec_records_ok; [reflexivity | exact Hall | apply length_flat_encode].
Qed.

(* a stream: decoding the concatenation yields the first record and leaves the rest of the stream *)
Theorem decode_stream r rs rest :
  Valid c kt r -> decode c kt (encode r ++ flat_map encode rs ++ rest) = Ok (r, flat_map encode rs ++ rest).
Proof. intros Hv. apply valid_redecodes. exact Hv. Qed.

(* ---- C03: updates and the builder never panic; accessors never panic on records handed out ---- *)
Lemma check_reserved_no_panic key v : check_reserved c key v <> Panic.
Proof.
  unfold check_reserved. apply bind_not_panic; [|intros rest; destruct (is_empty rest); discriminate].
  destruct (is_port_key key).
  { apply bind_not_panic; [apply dec_uint_no_panic | intros [q r]; discriminate]. }
  destruct (bytes_eqb key k_id).
  { apply bind_not_panic; [apply dec_payload_no_panic | intros [s r]; destruct (bytes_eqb s v4); discriminate]. }
  destruct (bytes_eqb key k_ip).
  { apply bind_not_panic; [apply dec_fixed_no_panic | intros [s r]; discriminate]. }
  destruct (bytes_eqb key k_ip6).
  { apply bind_not_panic; [apply dec_fixed_no_panic | intros [s r]; discriminate]. }
  destruct (bytes_eqb key k_secp).
  { apply bind_not_panic; [apply dec_payload_no_panic | intros [s r]; destruct (secp_chk c s); discriminate]. }
  destruct (bytes_eqb key k_ed).
  { apply bind_not_panic; [apply dec_payload_no_panic | intros [s r]; discriminate]. }
  apply bind_not_panic; [apply dec_item_no_panic | intros [[l x] r]; discriminate].
Qed.

Lemma check_keyed_by_no_panic m k : check_keyed_by c kt m k <> Panic.
Proof.
  unfold check_keyed_by. pose proof (enr_to_public_no_panic c kt m).
  destruct (enr_to_public c kt m) as [p|e|]; [destruct (bytes_eqb _ _); discriminate | discriminate | congruence].
Qed.

Lemma compute_signature_no_panic r sg : compute_signature r sg <> Panic.
Proof. unfold compute_signature. destruct (id_is_v4 r); [destruct (sg _); discriminate | discriminate]. Qed.

Lemma finish_no_panic pre r m k sg : finish c kt pre r m k sg <> Panic.
Proof.
  unfold finish. apply bind_not_panic; [apply check_keyed_by_no_panic|]. intros _.
  apply bind_not_panic; [destruct (_ && _); discriminate|]. intros _.
  apply bind_not_panic; [unfold checked_succ; destruct (_ =? _); discriminate|]. intros sq.
  apply bind_not_panic; [apply compute_signature_no_panic|]. intros s. destruct (_ <? _); discriminate.
Qed.

Lemma set_seq_no_panic r n k sg : set_seq c kt r n k sg <> Panic.
Proof.
  unfold set_seq. apply bind_not_panic; [apply check_keyed_by_no_panic|]. intros _.
  apply bind_not_panic; [apply compute_signature_no_panic|]. intros s. destruct (_ <? _); discriminate.
Qed.

Lemma check_list_no_panic kvs : check_list c kvs <> Panic.
Proof.
  induction kvs as [|kv t IH]; cbn [check_list]; [discriminate|].
  apply bind_not_panic; [apply check_reserved_no_panic | intros _; exact IH].
Qed.

Theorem apply_op_no_panic r o k sg : apply_op c kt r o k sg <> Panic.
Proof.
  rewrite apply_op_nf. apply bind_not_panic; [apply check_list_no_panic|]. intros _.
  apply bind_not_panic; [|intros r'; discriminate].
  unfold commit. destruct o; try apply finish_no_panic. apply set_seq_no_panic.
Qed.

Theorem step_no_panic r o k sg : fst (step c kt r o k sg) <> Panic.
Proof.
  unfold step. pose proof (apply_op_no_panic r o k sg).
  destruct (apply_op c kt r o k sg) as [[x r1]|e|]; cbn [fst]; [discriminate | discriminate | congruence].
Qed.

Theorem build_no_panic sq calls k sg : build c kt sq calls k sg <> Panic.
Proof.
  unfold build. apply bind_not_panic.
  - generalize (fold_left apply_bcall calls []). intros m. induction m as [|[key v] t IH]; cbn [check_all]; [discriminate|].
    apply bind_not_panic; [apply check_reserved_no_panic | intros _; exact IH].
  - intros _. apply bind_not_panic; [apply check_keyed_by_no_panic|]. intros _.
    apply bind_not_panic; [destruct (sg _); discriminate|]. intros s. destruct (_ <? _); discriminate.
Qed.

(* accessors on a record whose stored values are single items (every record handed out) *)
Theorem get_total r k x : Forall pair_ok (content r) -> get r k = Some x -> exists v, x = Ok v.
Proof.
  intros Hall. unfold get, get_raw. destruct (sm_get k (content r)) as [v|] eqn:Eg; [|discriminate].
  destruct (stored_single r Hall _ _ Eg) as (l & p & Hp & ->). intros H. inv H.
  pose proof (dec_item_reframe l p [] Hp) as D. rewrite app_nil_r in D. unfold dec_item in D.
  destruct (hdr_decode (reframe l p)) as [[[l0 n0] p0]|e|]; cbn [bind] in D; try discriminate. eauto.
Qed.

Theorem valid_accessors_total r : Valid c kt r ->
  (exists pk, public_key c kt r = Ok pk) /\ verify c kt r = Ok true /\
  (forall k x, get r k = Some x -> exists v, x = Ok v).
Proof.
  intros Hv. destruct (valid_observables c kt r Hv) as (pk & Hp & Hver & _).
  split; [eauto|]. split; [exact Hver|]. intros k x. apply get_total. apply (valid_content c kt r Hv).
Qed.

End WithCrypto.
