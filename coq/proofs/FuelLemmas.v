(* FuelLemmas.v — the fuelled loops of the model never run out of fuel: every iteration consumes at least one
   byte of the payload, so fuel = payload length suffices. This is the termination argument for the Rust
   `while !payload.is_empty()` loops (decode's pair loop, Vec<Enr>, Vec<Bytes>) as modelled: the model's
   out-of-fuel error value is unreachable, for ALL inputs (no bytes_ok needed). *)
Require Import EnrProofs.Tactics EnrProofs.BytesLemmas EnrProofs.RlpLemmas EnrProofs.DecodeLemmas EnrProofs.ErrLemmas.
Require Import Enr.Consts Enr.Rlp Enr.SortedMap Enr.Keccak Enr.Record.
Open Scope N_scope.

Lemma skipn_length_le {A} n (l : list A) : (length (skipn n l) <= length l)%nat.
Proof. rewrite skipn_length. lia. Qed.

(* a header, when it decodes, leaves a buffer that is no longer than the input; strictly shorter unless the
   single-byte case, where the payload length is 1 *)
Lemma hdr_long_shrinks lst ll t l n p : hdr_long lst ll t = Ok (l, n, p) -> (length p <= length t)%nat.
Proof.
  unfold hdr_long. destruct (_ <? _); [discriminate|]. destruct (8 <? _); [discriminate|].
  destruct (takeN ll t); [discriminate|]. destruct (_ =? 0); [discriminate|].
  destruct (_ <? 56); [discriminate|]. destruct (_ <? _); [discriminate|]. intros H; inv H.
  unfold dropN. apply skipn_length_le.
Qed.

Lemma hdr_decode_shrinks b l n p : hdr_decode b = Ok (l, n, p) ->
  (p = b /\ n = 1 /\ b <> []) \/ (length p < length b)%nat.
Proof.
  destruct b as [|x t]; [discriminate|]. cbn [hdr_decode].
  destruct (x <? 128). { intros H; inv H. left. repeat split. discriminate. }
  destruct (x <? 184).
  { intros H. bind_inv H. destruct (_ <? _); [discriminate|]. inv Hb. right. cbn [length]. lia. }
  destruct (x <? 192). { intros H. apply hdr_long_shrinks in H. right. cbn [length]. lia. }
  destruct (x <? 248).
  { destruct (_ <? _); [discriminate|]. intros H; inv H. right. cbn [length]. lia. }
  intros H. apply hdr_long_shrinks in H. right. cbn [length]. lia.
Qed.

(* reading one item (of either kind) consumes at least one byte *)
Lemma dec_payload_consumes w b s rest : dec_payload w b = Ok (s, rest) -> (length rest < length b)%nat.
Proof.
  unfold dec_payload. intros H. bind_inv H. destruct a as [[l n] p]. destruct (Bool.eqb l w); [|discriminate]. inv Hb.
  destruct (hdr_decode_shrinks _ _ _ _ Ha) as [(-> & -> & Hne) | Hlt].
  - unfold dropN. change (N.to_nat 1) with 1%nat. destruct b; [congruence|]. cbn [skipn length]. lia.
  - unfold dropN. pose proof (skipn_length_le (N.to_nat n) p). lia.
Qed.

Lemma dec_item_consumes b l v rest : dec_item b = Ok (l, v, rest) -> (length rest < length b)%nat.
Proof.
  unfold dec_item. intros H. bind_inv H. destruct a as [[l' n] p]. inv Hb.
  destruct (hdr_decode_shrinks _ _ _ _ Ha) as [(-> & -> & Hne) | Hlt].
  - unfold dropN. change (N.to_nat 1) with 1%nat. destruct b; [congruence|]. cbn [skipn length]. lia.
  - unfold dropN. pose proof (skipn_length_le (N.to_nat n) p). lia.
Qed.

Lemma dec_value_consumes key p v rest : dec_value key p = Ok (v, rest) -> (length rest < length p)%nat.
Proof.
  unfold dec_value, dec_uint, dec_fixed. intros H.
  destruct (bytes_eqb key k_id).
  { bind_inv H. destruct a as [s r]. destruct (bytes_eqb s v4); [|discriminate]. inv Hb. eapply dec_payload_consumes; eauto. }
  destruct (is_port_key key).
  { bind_inv H. destruct a as [q r]. inv Hb. bind_inv Ha. destruct a as [s r']. bind_inv Hb. inv Hb0. eapply dec_payload_consumes; eauto. }
  destruct (bytes_eqb key k_ip).
  { bind_inv H. destruct a as [s r]. inv Hb. bind_inv Ha. destruct a as [s' r']. destruct (_ =? _); [|discriminate]. inv Hb. eapply dec_payload_consumes; eauto. }
  destruct (bytes_eqb key k_ip6).
  { bind_inv H. destruct a as [s r]. inv Hb. bind_inv Ha. destruct a as [s' r']. destruct (_ =? _); [|discriminate]. inv Hb. eapply dec_payload_consumes; eauto. }
  destruct (bytes_eqb key k_secp || bytes_eqb key k_ed).
  { bind_inv H. destruct a as [s r]. inv Hb. eapply dec_payload_consumes; eauto. }
  bind_inv H. destruct a as [[l x] r]. inv Hb. eapply dec_item_consumes; eauto.
Qed.

Lemma dec_value_err key p e : dec_value key p = Err e -> is_rlp_err e = true.
Proof.
  unfold dec_value. intros H.
  destruct (bytes_eqb key k_id).
  { apply bind_err in H. destruct H as [H|([s r] & _ & H)]; [eapply dec_payload_err; eauto|]. destruct (bytes_eqb s v4); inv H. reflexivity. }
  destruct (is_port_key key).
  { apply bind_err in H. destruct H as [H|([q r] & _ & H)]; [eapply dec_uint_err; eauto | discriminate]. }
  destruct (bytes_eqb key k_ip).
  { apply bind_err in H. destruct H as [H|([s r] & _ & H)]; [eapply dec_fixed_err; eauto | discriminate]. }
  destruct (bytes_eqb key k_ip6).
  { apply bind_err in H. destruct H as [H|([s r] & _ & H)]; [eapply dec_fixed_err; eauto | discriminate]. }
  destruct (bytes_eqb key k_secp || bytes_eqb key k_ed).
  { apply bind_err in H. destruct H as [H|([s r] & _ & H)]; [eapply dec_payload_err; eauto | discriminate]. }
  apply bind_err in H. destruct H as [H|([[l x] r] & _ & H)]; [eapply dec_item_err; eauto | discriminate].
Qed.

Lemma dec_payload_err_not_fuel w b : dec_payload w b = Err EFuel -> False.
Proof. intros H. apply dec_payload_err in H. discriminate. Qed.
Lemma dec_value_err_not_fuel key p : dec_value key p = Err EFuel -> False.
Proof. intros H. apply dec_value_err in H. discriminate. Qed.

(* the pair loop never runs out of fuel *)
Lemma dec_pairs_no_fuel fuel : forall prev p, (length p <= fuel)%nat -> dec_pairs fuel prev p <> Err EFuel.
Proof.
  induction fuel as [|f IH]; intros prev p Hl.
  - destruct p; [cbn [dec_pairs]; discriminate | cbn [length] in Hl; lia].
  - destruct p as [|b0 p0]; [cbn [dec_pairs]; discriminate|].
    rewrite dec_pairs_S by discriminate. remember (b0 :: p0) as p eqn:Ep.
    destruct (dec_string p) as [[key p1]|e|] eqn:Ek; cbn [bind]; [| intros H; inv H; exact (dec_payload_err_not_fuel _ _ Ek) | discriminate].
    destruct (match prev with Some pk => negb (bytes_ltb pk key) | None => false end); [discriminate|].
    pose proof (dec_payload_consumes _ _ _ _ Ek) as L1.
    destruct (dec_value key p1) as [[v p2]|e|] eqn:Ev; cbn [bind]; [| intros H; inv H; exact (dec_value_err_not_fuel _ _ Ev) | discriminate].
    pose proof (dec_value_consumes _ _ _ _ Ev) as L2.
    specialize (IH (Some key) p2 ltac:(lia)).
    destruct (dec_pairs f (Some key) p2) as [rest|e|]; cbn [bind]; [discriminate | intros H; inv H; apply IH; reflexivity | discriminate].
Qed.

Section WithCrypto.
Variable c : crypto.

(* decode's error value is never the model-only out-of-fuel marker *)
Theorem decode_never_out_of_fuel kt b : decode c kt b <> Err EFuel.
Proof.
  unfold decode. intros H.
  apply bind_err in H. destruct H as [H|([[l n] p] & _ & H)]; [apply hdr_decode_err in H; discriminate|].
  destruct (_ <? _); [discriminate|].
  apply bind_err in H. destruct H as [H|([payload rest] & _ & H)]; [apply dec_payload_err in H; discriminate|].
  destruct (is_empty payload); [discriminate|].
  apply bind_err in H. destruct H as [H|([sg p1] & _ & H)]; [apply dec_payload_err in H; discriminate|].
  destruct (is_empty p1); [discriminate|].
  apply bind_err in H. destruct H as [H|([sq p2] & _ & H)]; [apply dec_uint_err in H; discriminate|].
  apply bind_err in H. destruct H as [H|(m & _ & H)]; [exact (dec_pairs_no_fuel _ _ _ (Nat.le_refl _) H)|].
  apply bind_err in H. destruct H as [H|(pk & _ & H)]; [apply enr_to_public_err in H; discriminate|].
  apply bind_err in H. destruct H as [H|(ok & _ & H)].
  - unfold verify in H. apply bind_err in H. destruct H as [H|(q & _ & H)]; [|discriminate].
    unfold public_key in H. destruct (enr_to_public c kt _); discriminate.
  - destruct ok; discriminate.
Qed.

(* the loops over records and over strings likewise *)
Lemma decode_consumes kt b r rest : decode c kt b = Ok (r, rest) -> (length rest < length b)%nat.
Proof.
  unfold decode. intros H. bind_inv H. destruct a as [[l n] p]. destruct (_ <? _); [discriminate|].
  bind_inv Hb. destruct a as [payload rest']. destruct (is_empty payload); [discriminate|].
  bind_inv Hb0. destruct a as [sg p1]. destruct (is_empty p1); [discriminate|].
  bind_inv Hb. destruct a as [sq p2]. bind_inv Hb0. bind_inv Hb. bind_inv Hb0. destruct a1; [|discriminate]. inv Hb.
  eapply dec_payload_consumes. exact Ha0.
Qed.

Lemma dec_records_no_fuel kt fuel : forall p, (length p <= fuel)%nat -> dec_records c kt fuel p <> Err EFuel.
Proof.
  induction fuel as [|f IH]; intros p Hl.
  - destruct p; [cbn [dec_records]; discriminate | cbn [length] in Hl; lia].
  - destruct p as [|b0 p0]; [cbn [dec_records]; discriminate|]. cbn [dec_records]. remember (b0 :: p0) as p eqn:Ep.
    destruct (decode c kt p) as [[r rest]|e|] eqn:Ed; cbn [bind]; [| intros H; inv H; exact (decode_never_out_of_fuel kt _ Ed) | discriminate].
    pose proof (decode_consumes _ _ _ _ Ed) as L. specialize (IH rest ltac:(lia)).
    destruct (dec_records c kt f rest) as [l|e|]; cbn [bind]; [discriminate | intros H; inv H; apply IH; reflexivity | discriminate].
Qed.

Theorem decode_vec_never_out_of_fuel kt b : decode_vec c kt b <> Err EFuel.
Proof.
  unfold decode_vec. intros H.
  apply bind_err in H. destruct H as [H|([payload rest] & _ & H)]; [apply dec_payload_err in H; discriminate|].
  apply bind_err in H. destruct H as [H|(l & _ & H)]; [exact (dec_records_no_fuel kt _ _ (Nat.le_refl _) H) | discriminate].
Qed.

End WithCrypto.
