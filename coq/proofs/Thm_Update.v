(* Thm_Update.v — property-level statements about builder and updates (C06, C07, C09, C10 parts). *)
Require Import EnrProofs.Tactics EnrProofs.BytesLemmas EnrProofs.RlpLemmas EnrProofs.UpdateLemmas.
Require Import Enr.Consts Enr.Rlp Enr.SortedMap Enr.Keccak Enr.Record Enr.Update.
Open Scope N_scope.

Section WithCrypto.
Variable c : crypto.
Variable kt : keytype.

(* ---- C06: a failed update leaves the record untouched ---- *)
Lemma step_err_unchanged r o k sg e r' : step c kt r o k sg = (Err e, r') -> r' = r.
Proof. unfold step. destruct (apply_op c kt r o k sg) as [[x r1]|e1|]; intros H; inv H; reflexivity. Qed.

Lemma step_not_ok_unchanged r o k sg : is_ok (fst (step c kt r o k sg)) = false -> snd (step c kt r o k sg) = r.
Proof. unfold step. destruct (apply_op c kt r o k sg) as [[x r1]|e1|]; cbn; intros H; [discriminate | reflexivity | reflexivity]. Qed.

Lemma err_observably_identical r o k sg e r' :
  step c kt r o k sg = (Err e, r') ->
  seq r' = seq r /\ nid r' = nid r /\ sig r' = sig r /\ content r' = content r /\
  encode r' = encode r /\ verify c kt r' = verify c kt r.
Proof. intros H. rewrite (step_err_unchanged _ _ _ _ _ _ H). repeat split. Qed.

(* a signer that fails makes every update fail (with an error value) and changes nothing *)
Lemma signer_fault r o k sg :
  seq r < 2 ^ 64 -> (forall n, o = OSetSeq n -> n < 2 ^ 64) ->
  (forall m, sg m = None) ->
  (forall x r', apply_op c kt r o k sg <> Ok (x, r')) /\ snd (step c kt r o k sg) = r.
Proof.
  intros Hs Hn Hsg.
  assert (Hno : forall x r', apply_op c kt r o k sg <> Ok (x, r')).
  { intros x r' H. destruct (apply_op_ok c kt _ _ _ _ _ _ Hs Hn H) as [Hc _].
    pose proof (cm_sig _ _ _ _ _ Hc) as Hx. rewrite Hsg in Hx. discriminate. }
  split; [exact Hno|]. unfold step. destruct (apply_op c kt r o k sg) as [[x r1]|e1|] eqn:E; cbn; auto.
  exfalso. eapply Hno; eauto.
Qed.

(* ---- C07: sequence-number discipline ---- *)
Lemma step_seq r o k sg x r' :
  seq r < 2 ^ 64 -> (forall n, o = OSetSeq n -> n < 2 ^ 64) ->
  step c kt r o k sg = (Ok x, r') ->
  seq r' = (match o with OSetSeq n => n | _ => seq r + 1 end) /\ seq r' < 2 ^ 64.
Proof.
  intros Hs Hn H. unfold step in H. destruct (apply_op c kt r o k sg) as [[x1 r1]|e1|] eqn:E; inv H.
  destruct (apply_op_ok c kt _ _ _ _ _ _ Hs Hn E) as [Hc Hq]. split; [exact Hq | apply (cm_seq _ _ _ _ _ Hc)].
Qed.

Lemma no_wrap r o k sg :
  seq r = U64_MAX -> (forall n, o <> OSetSeq n) ->
  forall x r', step c kt r o k sg <> (Ok x, r').
Proof.
  intros Hmax Hno x r' H.
  assert (Hs : seq r < 2 ^ 64) by (rewrite Hmax; unfold U64_MAX; pow64; lia).
  destruct (step_seq r o k sg x r' Hs) as [Hq Hlt]; [intros n E; elim (Hno n E) | exact H |].
  destruct o; try (elim (Hno n eq_refl)); rewrite Hq, Hmax in Hlt; unfold U64_MAX in Hlt; pow64; lia.
Qed.

(* at 2^64-1 the error is the sequence-number error unless an earlier cause applies *)
Lemma finish_at_max pre r m k sg :
  seq r = U64_MAX ->
  check_keyed_by c kt m k = Ok tt ->
  (pre && (MAX_ENR_SIZE <? size {| seq := seq r; nid := nid r; content := m; sig := sig r |})) = false ->
  finish c kt pre r m k sg = Err ESequenceNumberTooHigh.
Proof.
  intros Hmax Hk Hsz. unfold finish. rewrite Hk. cbn [bind]. rewrite Hsz. cbn [bind].
  unfold checked_succ. rewrite Hmax, N.eqb_refl. reflexivity.
Qed.

(* ---- C09 (updates): nothing above 300 bytes is ever committed ---- *)
Lemma step_size r o k sg x r' :
  seq r < 2 ^ 64 -> (forall n, o = OSetSeq n -> n < 2 ^ 64) ->
  step c kt r o k sg = (Ok x, r') -> size r' <= MAX_ENR_SIZE.
Proof.
  intros Hs Hn H. unfold step in H. destruct (apply_op c kt r o k sg) as [[x1 r1]|e1|] eqn:E; inv H.
  destruct (apply_op_ok c kt _ _ _ _ _ _ Hs Hn E) as [Hc _]. apply (cm_size _ _ _ _ _ Hc).
Qed.

(* ---- C10 (updates): the node id is the hash of the signer's public key ---- *)
Lemma step_nid r o k sg x r' :
  seq r < 2 ^ 64 -> (forall n, o = OSetSeq n -> n < 2 ^ 64) ->
  step c kt r o k sg = (Ok x, r') -> nid r' = keccak256 (pk_unc (sk_pub k)).
Proof.
  intros Hs Hn H. unfold step in H. destruct (apply_op c kt r o k sg) as [[x1 r1]|e1|] eqn:E; inv H.
  destruct (apply_op_ok c kt _ _ _ _ _ _ Hs Hn E) as [Hc _]. apply (cm_nid _ _ _ _ _ Hc).
Qed.

Lemma build_nid sq calls k sg r :
  sq < 2 ^ 64 -> build c kt sq calls k sg = Ok r -> nid r = keccak256 (pk_unc (sk_pub k)).
Proof. intros Hs H. apply (build_ok c kt _ _ _ _ _ Hs H). Qed.

(* the effective public key of a committed record is the signer's (same encoded bytes) *)
Lemma keyed_by_pk m k : check_keyed_by c kt m k = Ok tt ->
  exists p, enr_to_public c kt m = Ok p /\ pk_enc p = pk_enc (sk_pub k).
Proof.
  unfold check_keyed_by. destruct (enr_to_public c kt m) as [p|e|]; try discriminate.
  destruct (bytes_eqb (pk_enc p) (pk_enc (sk_pub k))) eqn:E; [|discriminate].
  intros _. exists p. split; [reflexivity | apply bytes_eqb_eq; exact E].
Qed.

Lemma step_rekeys r o k sg x r' :
  seq r < 2 ^ 64 -> (forall n, o = OSetSeq n -> n < 2 ^ 64) ->
  step c kt r o k sg = (Ok x, r') ->
  exists p, enr_to_public c kt (content r') = Ok p /\ pk_enc p = pk_enc (sk_pub k) /\
            nid r' = node_id_of (sk_pub k) /\ sg (signed_payload r') = Some (sig r').
Proof.
  intros Hs Hn H. unfold step in H. destruct (apply_op c kt r o k sg) as [[x1 r1]|e1|] eqn:E; inv H.
  destruct (apply_op_ok c kt _ _ _ _ _ _ Hs Hn E) as [Hc _].
  destruct (keyed_by_pk _ _ (cm_keyed _ _ _ _ _ Hc)) as (p & Hp & He).
  exists p. repeat split; auto; [apply (cm_nid _ _ _ _ _ Hc) | apply (cm_sig _ _ _ _ _ Hc)].
Qed.

End WithCrypto.
