(* KeccakLemmas.v — shape facts about the Gallina keccak256: the digest is 32 bytes, each below 256. *)
Require Import EnrProofs.Tactics.
Require Import Enr.Keccak.
Open Scope N_scope.

Lemma iota_length rc st : length (iota rc st) = length st.
Proof. destruct st; reflexivity. Qed.

Lemma kround_length st rc : length (kround st rc) = 25%nat.
Proof. unfold kround. rewrite iota_length. unfold chi. rewrite map_length. reflexivity. Qed.

Lemma keccak_f_length st : length st = 25%nat -> length (keccak_f st) = 25%nat.
Proof.
  unfold keccak_f. generalize rcs. intros l. revert st. induction l as [|rc t IH]; intros st H; cbn [fold_left]; [exact H|].
  apply IH. apply kround_length.
Qed.

Lemma xor_lanes_length st : forall blk, length (xor_lanes st blk) = length st.
Proof. induction st as [|a s IH]; intros [|b blk]; cbn [xor_lanes length]; auto. Qed.

Lemma absorb_length fuel : forall st b, length st = 25%nat -> length (absorb fuel st b) = 25%nat.
Proof.
  induction fuel as [|f IH]; intros st b H; cbn [absorb]; [exact H|]. destruct b; [exact H|].
  apply IH. apply keccak_f_length. rewrite xor_lanes_length. exact H.
Qed.

Lemma le_bytes_length k n : length (le_bytes k n) = k.
Proof. revert n. induction k as [|k IH]; intros n; cbn [le_bytes length]; [reflexivity | rewrite IH; reflexivity]. Qed.

Lemma flat_le_bytes_length st : length (flat_map (le_bytes 8) st) = (8 * length st)%nat.
Proof. induction st as [|x t IH]; [reflexivity|]. cbn [flat_map]. rewrite app_length, IH, le_bytes_length. cbn [length]. lia. Qed.

Theorem keccak256_length m : length (keccak256 m) = 32%nat.
Proof.
  unfold keccak256. rewrite flat_le_bytes_length, firstn_length.
  rewrite absorb_length by (rewrite repeat_length; reflexivity). reflexivity.
Qed.

Lemma le_bytes_ok k : forall n, bytes_ok (le_bytes k n).
Proof. induction k as [|k IH]; intros n; cbn [le_bytes]; [constructor|]. apply bytes_ok_cons. split; [lia | apply IH]. Qed.

Theorem keccak256_bytes_ok m : bytes_ok (keccak256 m).
Proof.
  unfold keccak256. generalize (firstn 4 (absorb (S (length (kpad m) / rate)) (repeat 0 25) (kpad m))).
  intros l. induction l as [|x t IH]; cbn [flat_map]; [constructor|]. apply bytes_ok_app. split; [apply le_bytes_ok | exact IH].
Qed.

(* the fuel of the absorbing loop never decides: any amount above length/rate gives the same state, i.e. the loop
   always ends because the input is exhausted (one 136-byte block per iteration), not because the fuel is *)
Lemma absorb_fuel_irrelevant : forall f1 f2 st b,
  (length b / rate < f1)%nat -> (length b / rate < f2)%nat -> absorb f1 st b = absorb f2 st b.
Proof.
  induction f1 as [|f1 IH]; intros f2 st b H1 H2; [exfalso; exact (Nat.nlt_0_r _ H1)|].
  destruct f2 as [|f2]; [exfalso; exact (Nat.nlt_0_r _ H2)|].
  destruct b as [|x t]; [reflexivity|].
  cbn [absorb]. remember (x :: t) as b eqn:Eb.
  assert (Hr : (0 < rate)%nat) by (unfold rate; lia).
  destruct (Nat.lt_ge_cases (length b) rate) as [Hlt|Hge].
  - (* last block: nothing left afterwards *)
    assert (Hs : skipn rate b = []) by (apply skipn_all2; lia). rewrite Hs.
    destruct f1, f2; reflexivity.
  - assert (Hlen : length (skipn rate b) = (length b - rate)%nat) by apply skipn_length.
    assert (Hdiv : (length b / rate = (length b - rate) / rate + 1)%nat).
    { replace (length b) with ((length b - rate) + 1 * rate)%nat at 1 by lia. rewrite Nat.div_add by lia. reflexivity. }
    apply IH; rewrite Hlen; lia.
Qed.

Theorem keccak256_fuel_never_decides m extra :
  keccak256 m =
  flat_map (le_bytes 8) (firstn 4 (absorb (S (length (kpad m) / rate) + extra) (repeat 0 25%nat) (kpad m))).
Proof.
  unfold keccak256. f_equal. f_equal. apply absorb_fuel_irrelevant; lia.
Qed.
