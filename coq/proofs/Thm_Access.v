(* Thm_Access.v — C14: the typed accessors agree with the raw content for every value. *)
Require Import EnrProofs.Tactics EnrProofs.BytesLemmas EnrProofs.RlpLemmas EnrProofs.DecodeLemmas
  EnrProofs.SortedMapLemmas EnrProofs.WellFormedLemmas EnrProofs.UpdateLemmas EnrProofs.RefineLemmas EnrProofs.Thm_Refine.
Require Import Enr.Consts Enr.Rlp Enr.SortedMap Enr.Keccak Enr.Record Enr.Update Enr.Spec.
Open Scope N_scope.

(* ---- lists of strings ---- *)
Lemma dec_strings_S f p : p <> [] ->
  dec_strings (S f) p = (do (s, rest) <- dec_string p; do l <- dec_strings f rest; Ok (s :: l)).
Proof. destruct p; [congruence | reflexivity]. Qed.

Lemma dec_strings_canon fuel : forall p l, bytes_ok p -> dec_strings fuel p = Ok l -> p = flat_map enc_string l.
Proof.
  induction fuel as [|f IH]; intros p l Hok H.
  - destruct p; cbn [dec_strings] in H; [inv H; reflexivity | discriminate].
  - destruct p as [|b0 p0]; [cbn [dec_strings] in H; inv H; reflexivity|].
    rewrite dec_strings_S in H by discriminate. remember (b0 :: p0) as p eqn:Ep.
    bind_inv H. destruct a as [s rest]. bind_inv Hb. inv Hb0.
    pose proof (dec_string_canon _ _ _ Hok Ha) as Hs.
    destruct (dec_string_len _ _ _ Hok Ha) as (_ & _ & Hokr).
    cbn [flat_map]. rewrite Hs at 1. f_equal. eapply IH; eauto.
Qed.

Lemma dec_strings_enc l : forall fuel,
  Forall (fun s => lenN s < 2 ^ 64) l -> (length l <= fuel)%nat -> dec_strings fuel (flat_map enc_string l) = Ok l.
Proof.
  induction l as [|s t IH]; intros fuel Hall Hf; cbn [flat_map].
  - destruct fuel; reflexivity.
  - destruct fuel as [|f]; [cbn [length] in Hf; lia|]. inversion Hall; subst.
    rewrite dec_strings_S.
    2:{ intros E. apply app_eq_nil in E. destruct E as [E _]. apply enc_string_nonempty in E. exact E. }
    rewrite dec_string_enc by assumption. cbn [bind]. rewrite IH; [reflexivity | assumption | cbn [length] in Hf; lia].
Qed.

Lemma length_flat_enc_string l : (length l <= length (flat_map enc_string l))%nat.
Proof.
  induction l as [|s t IH]; cbn [flat_map length]; [lia|]. rewrite app_length.
  pose proof (enc_string_nonempty s). destruct (enc_string s); [congruence | cbn [length]; lia].
Qed.

Lemma dec_vec_bytes_canon v l rest : bytes_ok v -> dec_vec_bytes v = Ok (l, rest) -> v = enc_strings l ++ rest.
Proof.
  unfold dec_vec_bytes. intros Hok H. bind_inv H. destruct a as [payload r]. bind_inv Hb. inv Hb0.
  destruct (dec_list_canon _ _ _ Hok Ha) as [Hv _]. rewrite Hv. unfold enc_strings. f_equal. f_equal.
  apply (dec_strings_canon _ _ _) in Ha0; [exact Ha0|].
  rewrite Hv in Hok. apply bytes_ok_app in Hok. destruct Hok as [Hok _]. unfold enc_list in Hok. eapply bytes_ok_split; eauto.
Qed.

Lemma dec_vec_bytes_enc l rest :
  Forall (fun s => lenN s < 2 ^ 64) l -> lenN (flat_map enc_string l) < 2 ^ 64 ->
  dec_vec_bytes (enc_strings l ++ rest) = Ok (l, rest).
Proof.
  intros Hall Hl. unfold dec_vec_bytes, enc_strings. rewrite dec_list_enc by exact Hl. cbn [bind].
  rewrite dec_strings_enc; [reflexivity | exact Hall | apply length_flat_enc_string].
Qed.

(* every well-typed stored value is exactly one RLP item *)
Lemma value_ok_single kv : value_ok kv -> exists l p, lenN p < 2 ^ 64 /\ snd kv = reframe l p.
Proof.
  unfold value_ok. destruct kv as [k v]. cbn [fst snd].
  destruct (bytes_eqb k k_id); [intros ->; exists false, v4; split; [vm_compute; reflexivity | reflexivity]|].
  destruct (is_port_key k).
  { intros (p & Hp & ->). exists false, (be_trim p). split; [|reflexivity].
    pose proof (be_trim_len_le p 2). rewrite pow256_2 in H. pow64. lia. }
  destruct (bytes_eqb k k_ip); [intros (a & Ha & ->); exists false, a; split; [rewrite Ha; pow64; lia | reflexivity]|].
  destruct (bytes_eqb k k_ip6); [intros (a & Ha & ->); exists false, a; split; [rewrite Ha; pow64; lia | reflexivity]|].
  destruct (bytes_eqb k k_secp || bytes_eqb k k_ed); [intros (s & Hs & ->); exists false, s; auto|].
  auto.
Qed.

Section Accessors.
Variable r : record.
Hypothesis Hall : Forall pair_ok (content r).

Lemma stored_single k v : sm_get k (content r) = Some v -> exists l p, lenN p < 2 ^ 64 /\ v = reframe l p.
Proof. intros Hg. destruct (sm_get_Forall _ _ _ _ Hall Hg) as [_ Hv]. apply (value_ok_single (k, v)). exact Hv. Qed.

(* byte strings (get_decodable::<Bytes>, and the basis of id / ip4 / ip6) *)
Theorem get_bytes_iff k s : lenN s < 2 ^ 64 ->
  (get_bytes r k = Some (Ok s) <-> sm_get k (content r) = Some (enc_string s)).
Proof.
  intros Hs. unfold get_bytes, get_raw. split.
  - destruct (sm_get k (content r)) as [v|] eqn:Eg; cbn [option_map]; [|discriminate].
    destruct (stored_single _ _ Eg) as (l & p & Hp & ->). intros H.
    destruct (dec_string (reframe l p)) as [[s' rest]|e|] eqn:Ed; cbn [bind] in H; try discriminate.
    destruct (reframe_dec_string _ _ _ _ Hp Ed) as (-> & -> & ->). inv H. reflexivity.
  - intros Hg. rewrite Hg. cbn [option_map]. rewrite dec_string_whole by exact Hs. reflexivity.
Qed.

(* what get_bytes reports is always short enough to be an RLP string *)
Lemma get_bytes_len k s : get_bytes r k = Some (Ok s) -> lenN s < 2 ^ 64.
Proof.
  unfold get_bytes, get_raw. destruct (sm_get k (content r)) as [v|] eqn:Eg; cbn [option_map]; [|discriminate].
  destruct (stored_single _ _ Eg) as (l & p & Hp & ->). intros H.
  destruct (dec_string (reframe l p)) as [[s' rest]|e|] eqn:Ed; cbn [bind] in H; try discriminate.
  destruct (reframe_dec_string _ _ _ _ Hp Ed) as (-> & -> & ->). inv H. exact Hp.
Qed.

Theorem id_iff s : lenN s < 2 ^ 64 -> (id r = Some s <-> sm_get k_id (content r) = Some (enc_string s)).
Proof.
  intros Hs. unfold id, ok_some. rewrite <- (get_bytes_iff k_id s Hs).
  destruct (get_bytes r k_id) as [[b|e|]|]; split; intros H; inv H; reflexivity.
Qed.

Theorem ip4_iff a : ip4 r = Some a <-> sm_get k_ip (content r) = Some (enc_string a) /\ lenN a = 4.
Proof.
  unfold ip4, ok_some. split.
  - destruct (get_bytes r k_ip) as [[b|e|]|] eqn:Eg; try discriminate.
    destruct (lenN b =? 4) eqn:E; [|discriminate]. intros H; inv H.
    split; [apply get_bytes_iff; [apply (get_bytes_len k_ip); exact Eg | exact Eg] | lia].
  - intros [Hg Hl]. apply get_bytes_iff in Hg; [|rewrite Hl; pow64; lia]. rewrite Hg, Hl. reflexivity.
Qed.

Theorem ip6_iff a : ip6 r = Some a <-> sm_get k_ip6 (content r) = Some (enc_string a) /\ lenN a = 16.
Proof.
  unfold ip6, ok_some. split.
  - destruct (get_bytes r k_ip6) as [[b|e|]|] eqn:Eg; try discriminate.
    destruct (lenN b =? 16) eqn:E; [|discriminate]. intros H; inv H.
    split; [apply get_bytes_iff; [apply (get_bytes_len k_ip6); exact Eg | exact Eg] | lia].
  - intros [Hg Hl]. apply get_bytes_iff in Hg; [|rewrite Hl; pow64; lia]. rewrite Hg, Hl. reflexivity.
Qed.

(* integers (get_decodable::<u16/u64>, and the four ports): for ALL values, by arithmetic *)
Theorem get_uint_iff w k n : w <= 8 ->
  (forall v, sm_get k (content r) = Some v -> bytes_ok v) ->
  (get_uint w r k = Some (Ok n) <-> sm_get k (content r) = Some (enc_uint n) /\ n < 256 ^ w).
Proof.
  intros Hw Hb. unfold get_uint, get_raw. split.
  - destruct (sm_get k (content r)) as [v|] eqn:Eg; cbn [option_map]; [|discriminate].
    destruct (stored_single _ _ Eg) as (l & p & Hp & Hv). intros H.
    destruct (dec_uint w v) as [[n' rest]|e|] eqn:Ed; cbn [bind] in H; try discriminate. inv H.
    destruct (dec_uint_canon _ _ _ _ (Hb _ eq_refl) Ed) as [Hc Hn]. split; [|exact Hn].
    (* a single item: nothing follows the integer *)
    assert (rest = []).
    { unfold dec_uint in Ed. bind_inv Ed. destruct a as [s r0]. bind_inv Hb0. inv Hb1.
      destruct (reframe_dec_string _ _ _ _ Hp Ha) as (_ & _ & ->). reflexivity. }
    subst rest. rewrite app_nil_r in Hc. rewrite Hc. reflexivity.
  - intros [Hg Hn]. rewrite Hg. cbn [option_map].
    rewrite <- (app_nil_r (enc_uint n)). rewrite dec_uint_enc by assumption. reflexivity.
Qed.

Theorem port_iff k p : is_port_key k = true ->
  (port r k = Some p <-> sm_get k (content r) = Some (enc_uint p) /\ p < 65536).
Proof.
  intros Hk. unfold port, ok_some, get_uint, get_raw. split.
  - destruct (sm_get k (content r)) as [v|] eqn:Eg; cbn [option_map]; [|discriminate].
    destruct (sm_get_Forall _ _ _ _ Hall Eg) as [_ Hv]. unfold value_ok in Hv. cbn [fst snd] in Hv.
    destruct (bytes_eqb k k_id) eqn:E; [apply bytes_eqb_eq in E; subst; discriminate|]. rewrite Hk in Hv.
    destruct Hv as (q & Hq & ->). rewrite <- (app_nil_r (enc_uint q)).
    rewrite dec_uint_enc; [|lia|rewrite pow256_2; exact Hq]. cbn [bind]. intros H; inv H. rewrite app_nil_r. auto.
  - intros [Hg Hp]. rewrite Hg. cbn [option_map]. rewrite <- (app_nil_r (enc_uint p)).
    rewrite dec_uint_enc; [reflexivity | lia | rewrite pow256_2; exact Hp].
Qed.

Theorem tcp4_iff p : tcp4 r = Some p <-> sm_get k_tcp (content r) = Some (enc_uint p) /\ p < 65536.
Proof. apply port_iff. reflexivity. Qed.
Theorem tcp6_iff p : tcp6 r = Some p <-> sm_get k_tcp6 (content r) = Some (enc_uint p) /\ p < 65536.
Proof. apply port_iff. reflexivity. Qed.
Theorem udp4_iff p : udp4 r = Some p <-> sm_get k_udp (content r) = Some (enc_uint p) /\ p < 65536.
Proof. apply port_iff. reflexivity. Qed.
Theorem udp6_iff p : udp6 r = Some p <-> sm_get k_udp6 (content r) = Some (enc_uint p) /\ p < 65536.
Proof. apply port_iff. reflexivity. Qed.

(* lists of strings (get_decodable::<Vec<Bytes>>) and client_info *)
Theorem get_strings_iff k l :
  (forall v, sm_get k (content r) = Some v -> bytes_ok v) ->
  Forall (fun s => lenN s < 2 ^ 64) l -> lenN (flat_map enc_string l) < 2 ^ 64 ->
  (get_strings r k = Some (Ok l) <-> sm_get k (content r) = Some (enc_strings l)).
Proof.
  intros Hb Hl Hl2. unfold get_strings, get_raw. split.
  - destruct (sm_get k (content r)) as [v|] eqn:Eg; cbn [option_map]; [|discriminate].
    destruct (stored_single _ _ Eg) as (fl & p & Hp & Hv). intros H.
    destruct (dec_vec_bytes v) as [[l' rest]|e|] eqn:Ed; cbn [bind] in H; try discriminate. inv H.
    pose proof (dec_vec_bytes_canon _ _ _ (Hb _ eq_refl) Ed) as Hc.
    assert (rest = []).
    { unfold dec_vec_bytes in Ed. bind_inv Ed. destruct a as [pl r0]. bind_inv Hb0. inv Hb1.
      destruct fl; unfold reframe in *.
      - fold (enc_list p) in Ha. rewrite <- (app_nil_r (enc_list p)) in Ha. rewrite dec_list_enc in Ha by exact Hp. inv Ha. reflexivity.
      - exfalso. unfold dec_list, dec_payload in Ha.
        pose proof (dec_string_whole p Hp) as Hd. unfold dec_string, dec_payload in Hd.
        destruct (hdr_decode (enc_string p)) as [[[l0 n0] p0]|e|]; cbn [bind] in *; try discriminate.
        destruct l0; cbn [Bool.eqb] in *; discriminate. }
    subst rest. rewrite app_nil_r in Hc. rewrite Hc. reflexivity.
  - intros Hg. rewrite Hg. cbn [option_map]. rewrite <- (app_nil_r (enc_strings l)).
    rewrite dec_vec_bytes_enc by assumption. reflexivity.
Qed.

Theorem client_info_iff l :
  (forall v, sm_get k_client (content r) = Some v -> bytes_ok v) ->
  Forall (fun s => lenN s < 2 ^ 64) l -> lenN (flat_map enc_string l) < 2 ^ 64 ->
  (client_info r = Some l <-> sm_get k_client (content r) = Some (enc_strings l) /\ (length l = 2 \/ length l = 3)%nat).
Proof.
  intros Hb Hl Hl2. unfold client_info, ok_some. rewrite <- (get_strings_iff k_client l Hb Hl Hl2).
  destruct (get_strings r k_client) as [[l'|e|]|].
  - destruct (Nat.eqb (length l') 2 || Nat.eqb (length l') 3) eqn:E; split.
    + intros H; inv H. split; [reflexivity|]. apply orb_true_iff in E. destruct E as [E|E]; apply Nat.eqb_eq in E; auto.
    + intros [H _]; inv H. reflexivity.
    + discriminate.
    + intros [H Hn]; inv H. apply orb_false_iff in E. destruct E as [E1 E2].
      apply Nat.eqb_neq in E1. apply Nat.eqb_neq in E2. exfalso. unfold bytes in *. destruct Hn; congruence.
  - split; [discriminate | intros [H _]; discriminate].
  - split; [discriminate | intros [H _]; discriminate].
  - split; [discriminate | intros [H _]; discriminate].
Qed.

End Accessors.

(* sockets are the product of the same family's ip and port accessors; reachability their disjunction *)
Theorem socket_is_product r :
  udp4_socket r = (match ip4 r, udp4 r with Some a, Some p => Some (a, p) | _, _ => None end) /\
  udp6_socket r = (match ip6 r, udp6 r with Some a, Some p => Some (a, p) | _, _ => None end) /\
  tcp4_socket r = (match ip4 r, tcp4 r with Some a, Some p => Some (a, p) | _, _ => None end) /\
  tcp6_socket r = (match ip6 r, tcp6 r with Some a, Some p => Some (a, p) | _, _ => None end).
Proof. repeat split. Qed.

Theorem reachable_is_disjunction r :
  (is_udp_reachable r = true <-> (exists s, udp4_socket r = Some s) \/ (exists s, udp6_socket r = Some s)) /\
  (is_tcp_reachable r = true <-> (exists s, tcp4_socket r = Some s) \/ (exists s, tcp6_socket r = Some s)).
Proof.
  unfold is_udp_reachable, is_tcp_reachable, is_some. split.
  - destruct (udp4_socket r), (udp6_socket r); cbn [orb]; split; intros H; eauto; try discriminate;
      destruct H as [[s H]|[s H]]; discriminate.
  - destruct (tcp4_socket r), (tcp6_socket r); cbn [orb]; split; intros H; eauto; try discriminate;
      destruct H as [[s H]|[s H]]; discriminate.
Qed.

(* canonical integers have no leading zero byte *)
Theorem enc_uint_no_leading_zero n : n <> 0 -> exists x t, be_trim n = x :: t /\ x <> 0.
Proof. apply be_trim_head. Qed.
Theorem enc_uint_zero : enc_uint 0 = [0x80].
Proof. reflexivity. Qed.

(* ---- what the typed setters store reads back as the value set ---- *)
Section Setters.
Variable c : crypto.
Variable kt : keytype.

Lemma port_key_not_pub key k : is_port_key key = true -> key <> pub_key_name k.
Proof. intros H E. subst. unfold pub_key_name in H. destruct (pk_scheme (sk_pub k)); discriminate. Qed.

Lemma set_port_generic r o key k sg x r' p :
  seq r < 2 ^ 64 -> p < 65536 -> Forall pair_ok (content r') ->
  inserts o = [(key, enc_uint p)] -> is_port_key key = true -> (forall n, o <> OSetSeq n) ->
  step c kt r o k sg = (Ok x, r') ->
  port r' key = Some p /\ sm_get key (content r') = Some (enc_uint p).
Proof.
  intros Hs Hp Hall Hi Hk Hn H.
  assert (Hg : sm_get key (content r') = Some (enc_uint p)).
  { eapply step_single_insert; eauto. intros n E. elim (Hn n E). apply port_key_not_pub. exact Hk. }
  split; [apply (port_iff r' Hall); [exact Hk | split; [exact Hg | exact Hp]] | exact Hg].
Qed.

Theorem set_port_reads_back r k sg p :
  seq r < 2 ^ 64 -> p < 65536 ->
  (forall x r', Forall pair_ok (content r') -> step c kt r (OSetUdp4 p) k sg = (Ok x, r') ->
                udp4 r' = Some p /\ sm_get k_udp (content r') = Some (enc_uint p)) /\
  (forall x r', Forall pair_ok (content r') -> step c kt r (OSetUdp6 p) k sg = (Ok x, r') ->
                udp6 r' = Some p /\ sm_get k_udp6 (content r') = Some (enc_uint p)) /\
  (forall x r', Forall pair_ok (content r') -> step c kt r (OSetTcp4 p) k sg = (Ok x, r') ->
                tcp4 r' = Some p /\ sm_get k_tcp (content r') = Some (enc_uint p)) /\
  (forall x r', Forall pair_ok (content r') -> step c kt r (OSetTcp6 p) k sg = (Ok x, r') ->
                tcp6 r' = Some p /\ sm_get k_tcp6 (content r') = Some (enc_uint p)).
Proof.
  intros Hs Hp. split; [|split; [|split]]; intros x r' Hall H.
  - apply (set_port_generic r (OSetUdp4 p) k_udp k sg x r' p Hs Hp Hall eq_refl eq_refl); [intros n E; discriminate | exact H].
  - apply (set_port_generic r (OSetUdp6 p) k_udp6 k sg x r' p Hs Hp Hall eq_refl eq_refl); [intros n E; discriminate | exact H].
  - apply (set_port_generic r (OSetTcp4 p) k_tcp k sg x r' p Hs Hp Hall eq_refl eq_refl); [intros n E; discriminate | exact H].
  - apply (set_port_generic r (OSetTcp6 p) k_tcp6 k sg x r' p Hs Hp Hall eq_refl eq_refl); [intros n E; discriminate | exact H].
Qed.

Theorem set_ip_reads_back r k sg x r' a :
  seq r < 2 ^ 64 -> lenN a = 4 \/ lenN a = 16 -> Forall pair_ok (content r') ->
  step c kt r (OSetIp a) k sg = (Ok x, r') ->
  (if lenN a =? 4 then ip4 r' else ip6 r') = Some a.
Proof.
  intros Hs Hl Hall H.
  assert (Hk : ip_key a <> pub_key_name k).
  { unfold ip_key, pub_key_name. destruct (lenN a =? 4), (pk_scheme (sk_pub k)); cbn [scheme_key]; intros E; vm_compute in E; discriminate. }
  pose proof (step_single_insert c kt r (OSetIp a) k sg x r' _ _ Hs (fun n E => ltac:(discriminate E)) H eq_refl Hk) as Hg.
  unfold ip_key in Hg. destruct Hl as [Hl|Hl]; rewrite Hl in *; cbn [N.eqb] in *.
  - change (4 =? 4) with true in *. cbv iota in *. apply (ip4_iff r' Hall). auto.
  - change (16 =? 4) with false in *. cbv iota in *. apply (ip6_iff r' Hall). auto.
Qed.

(* socket setters store both canonical values and both read back *)
Theorem set_socket_reads_back r k sg x r' a p (tcp : bool) :
  seq r < 2 ^ 64 -> lenN a = 4 \/ lenN a = 16 -> p < 65536 -> Forall pair_ok (content r') ->
  step c kt r (if tcp then OSetTcpSocket a p else OSetUdpSocket a p) k sg = (Ok x, r') ->
  (if lenN a =? 4 then ip4 r' else ip6 r') = Some a /\
  (if tcp then (if lenN a =? 4 then tcp4 r' else tcp6 r') else (if lenN a =? 4 then udp4 r' else udp6 r')) = Some p.
Proof.
  intros Hs Hl Hp Hall H.
  assert (Hn : forall n, (if tcp then OSetTcpSocket a p else OSetUdpSocket a p) = OSetSeq n -> n < 2 ^ 64)
    by (intros n E; destruct tcp; discriminate).
  assert (Hk1 : ip_key a <> pub_key_name k).
  { unfold ip_key, pub_key_name. destruct (lenN a =? 4), (pk_scheme (sk_pub k)); cbn [scheme_key]; intros E; vm_compute in E; discriminate. }
  assert (Hip : sm_get (ip_key a) (content r') = Some (enc_string a)).
  { destruct tcp.
    - apply (step_last_write c kt r _ k sg x r' [] (ip_key a) (enc_string a) [(tcp_key a, enc_uint p)] Hs Hn H eq_refl); [|exact Hk1].
      cbn [map fst In]. unfold tcp_key, ip_key. destruct (lenN a =? 4); intros [E|[]]; vm_compute in E; discriminate.
    - apply (step_last_write c kt r _ k sg x r' [] (ip_key a) (enc_string a) [(udp_key a, enc_uint p)] Hs Hn H eq_refl); [|exact Hk1].
      cbn [map fst In]. unfold udp_key, ip_key. destruct (lenN a =? 4); intros [E|[]]; vm_compute in E; discriminate. }
  assert (Hport : sm_get (if tcp then tcp_key a else udp_key a) (content r') = Some (enc_uint p)).
  { destruct tcp.
    - apply (step_last_write c kt r _ k sg x r' [(ip_key a, enc_string a)] (tcp_key a) (enc_uint p) [] Hs Hn H eq_refl); [intros []|].
      apply port_key_not_pub. unfold tcp_key. destruct (lenN a =? 4); reflexivity.
    - apply (step_last_write c kt r _ k sg x r' [(ip_key a, enc_string a)] (udp_key a) (enc_uint p) [] Hs Hn H eq_refl); [intros []|].
      apply port_key_not_pub. unfold udp_key. destruct (lenN a =? 4); reflexivity. }
  unfold ip_key, tcp_key, udp_key in *. destruct Hl as [Hl|Hl]; rewrite Hl in *.
  - change (4 =? 4) with true in *. cbv iota in *. split; [apply (ip4_iff r' Hall); auto|].
    destruct tcp; [apply (tcp4_iff r' Hall) | apply (udp4_iff r' Hall)]; auto.
  - change (16 =? 4) with false in *. cbv iota in *. split; [apply (ip6_iff r' Hall); auto|].
    destruct tcp; [apply (tcp6_iff r' Hall) | apply (udp6_iff r' Hall)]; auto.
Qed.

(* builder methods store canonical values that read back *)
Theorem build_port_reads_back sq calls k sg r pre b post p :
  sq < 2 ^ 64 -> build c kt sq calls k sg = Ok r -> Forall pair_ok (content r) ->
  calls = pre ++ b :: post -> p < 65536 ->
  is_port_key (fst (bcall_pair b)) = true -> snd (bcall_pair b) = enc_uint p ->
  ~ In (fst (bcall_pair b)) (map fst (map bcall_pair post)) ->
  port r (fst (bcall_pair b)) = Some p.
Proof.
  intros Hs H Hall Hc Hp Hk Hv Hpost.
  apply (port_iff r Hall); [exact Hk|]. split; [|exact Hp]. rewrite <- Hv.
  eapply build_last_write; eauto.
  - intros E. rewrite E in Hk. discriminate.
  - apply port_key_not_pub. exact Hk.
Qed.

End Setters.
