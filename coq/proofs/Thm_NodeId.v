(* Thm_NodeId.v — C16 (NodeId value type) and C17 (CombinedKey secret import/export). *)
Require Import EnrProofs.Tactics EnrProofs.BytesLemmas.
Require Import Enr.Record Enr.NodeId Enr.CombinedKey.
Open Scope N_scope.

Lemma parse_iff x i : nodeid_parse x = Some i <-> lenN x = 32 /\ i = x.
Proof.
  unfold nodeid_parse. destruct (lenN x =? 32) eqn:E; split; intros H.
  - inv H. split; [lia | reflexivity].
  - destruct H as [_ ->]. reflexivity.
  - discriminate.
  - destruct H. lia.
Qed.

Lemma hex_val_digit v : v < 16 -> hex_val (hex_digit v) = Some v.
Proof.
  intros H. unfold hex_val, hex_digit. destruct (v <? 10) eqn:E.
  - replace ((48 <=? 48 + v) && (48 + v <=? 57)) with true by lia. f_equal. lia.
  - replace ((48 <=? 97 + (v - 10)) && (97 + (v - 10) <=? 57)) with false by lia.
    replace ((97 <=? 97 + (v - 10)) && (97 + (v - 10) <=? 102)) with true by lia. f_equal. lia.
Qed.

Lemma hex_val_range ch v : hex_val ch = Some v -> v < 16 /\ ch <> 120.
Proof.
  unfold hex_val. intros H.
  destruct ((48 <=? ch) && (ch <=? 57)) eqn:E1; [inv H; lia|].
  destruct ((97 <=? ch) && (ch <=? 102)) eqn:E2; [inv H; lia|].
  destruct ((65 <=? ch) && (ch <=? 70)) eqn:E3; [inv H; lia|]. discriminate.
Qed.

Lemma hex_roundtrip x : bytes_ok x -> hex_decode (hex_encode x) = Some x.
Proof.
  induction 1 as [|b x Hb Hx IH]; [reflexivity|].
  cbn [hex_encode hex_decode]. rewrite !hex_val_digit by lia. rewrite IH. f_equal. f_equal. lia.
Qed.

Lemma hex_encode_len x : lenN (hex_encode x) = 2 * lenN x.
Proof. induction x as [|b x IH]; [reflexivity|]. cbn [hex_encode]. rewrite !lenN_cons, IH. lia. Qed.

(* two-step induction *)
Lemma list_ind2 {A} (P : list A -> Prop) :
  P [] -> (forall x, P [x]) -> (forall x y t, P t -> P (x :: y :: t)) -> forall l, P l.
Proof.
  intros H0 H1 H2. fix F 1. intros [|x [|y t]]; [exact H0 | apply H1 | apply H2, F].
Qed.

Lemma hex_decode_ok s x : hex_decode s = Some x -> lenN s = 2 * lenN x /\ bytes_ok x /\ nth 1 s 0 <> 120.
Proof.
  revert x. induction s as [| c | h l t IH] using list_ind2; intros x H.
  - inv H. repeat split; [constructor | cbn; lia].
  - discriminate.
  - cbn [hex_decode] in H. destruct (hex_val h) as [a|] eqn:Ea; [|discriminate].
    destruct (hex_val l) as [b|] eqn:Eb; [|discriminate].
    destruct (hex_decode t) as [r|] eqn:Er; [|discriminate]. inv H.
    destruct (IH r eq_refl) as (Hl & Hok & _).
    destruct (hex_val_range _ _ Ea), (hex_val_range _ _ Eb).
    rewrite !lenN_cons, Hl. repeat split; [lia | apply bytes_ok_cons; split; [lia | exact Hok] | cbn [nth]; assumption].
Qed.

Lemma hex_encode_no_x x : firstn 2 (hex_encode x) <> prefix_0x.
Proof.
  destruct x as [|b x]; [discriminate|]. cbn [hex_encode firstn]. unfold prefix_0x, hex_digit. intros H. inv H.
  destruct (b mod 16 <? 10); lia.
Qed.

Lemma ser_def x : nodeid_ser x = [48; 120] ++ hex_encode x.
Proof. reflexivity. Qed.

Lemma deser_ser x : bytes_ok x -> lenN x = 32 -> nodeid_deser (nodeid_ser x) = Some x.
Proof.
  intros Hok Hl. unfold nodeid_deser, nodeid_ser, prefix_0x. cbn [app firstn skipn bytes_eqb].
  rewrite !N.eqb_refl. cbn [andb]. rewrite hex_encode_len, Hl. cbn. apply hex_roundtrip; exact Hok.
Qed.

Lemma deser_plain x : bytes_ok x -> lenN x = 32 -> nodeid_deser (hex_encode x) = Some x.
Proof.
  intros Hok Hl. unfold nodeid_deser.
  destruct (bytes_eqb (firstn 2 (hex_encode x)) prefix_0x) eqn:E.
  - apply bytes_eqb_eq in E. elim (hex_encode_no_x x E).
  - rewrite hex_encode_len, Hl. cbn. apply hex_roundtrip; exact Hok.
Qed.

(* exactly 64 hex digits (either case), with or without one 0x prefix *)
Lemma deser_iff s i :
  nodeid_deser s = Some i <->
  exists body, (s = body \/ s = prefix_0x ++ body) /\ lenN body = 64 /\ hex_decode body = Some i.
Proof.
  unfold nodeid_deser. split.
  - intros H. destruct (bytes_eqb (firstn 2 s) prefix_0x) eqn:E.
    + apply bytes_eqb_eq in E. exists (skipn 2 s).
      destruct (lenN (skipn 2 s) =? 64) eqn:El; [|discriminate].
      split; [right; rewrite <- E; symmetry; apply firstn_skipn|]. split; [lia | exact H].
    + exists s. destruct (lenN s =? 64) eqn:El; [|discriminate]. split; [left; reflexivity|]. split; [lia | exact H].
  - intros (body & Hs & Hl & Hd). destruct (hex_decode_ok _ _ Hd) as (_ & _ & Hx).
    destruct Hs as [->| ->].
    + assert (E : bytes_eqb (firstn 2 body) prefix_0x = false).
      { apply bytes_eqb_neq. intros E. destruct body as [|a [|b t]]; try discriminate.
        cbn [firstn] in E. unfold prefix_0x in E. inv E. cbn [nth] in Hx. congruence. }
      rewrite E. replace (lenN body =? 64) with true by lia. exact Hd.
    + unfold prefix_0x. cbn [app firstn skipn bytes_eqb]. rewrite !N.eqb_refl. cbn [andb].
      replace (lenN body =? 64) with true by lia. exact Hd.
Qed.

Lemma deser_result_len s i : nodeid_deser s = Some i -> lenN i = 32 /\ bytes_ok i.
Proof.
  intros H. apply deser_iff in H. destruct H as (body & _ & Hl & Hd).
  destruct (hex_decode_ok _ _ Hd) as (Hl2 & Hok & _). split; [lia | exact Hok].
Qed.

Lemma debug_def x : nodeid_debug x = [48; 120] ++ hex_encode x.
Proof. reflexivity. Qed.

Lemma hex_encode_firstn k : forall x, firstn (2 * k) (hex_encode x) = hex_encode (firstn k x).
Proof.
  induction k as [|k IH]; intros x; [reflexivity|].
  destruct x as [|b x]; [reflexivity|].
  replace (2 * S k)%nat with (S (S (2 * k))) by lia. cbn [hex_encode firstn]. rewrite IH. reflexivity.
Qed.
Lemma hex_encode_skipn k : forall x, skipn (2 * k) (hex_encode x) = hex_encode (skipn k x).
Proof.
  induction k as [|k IH]; intros x; [reflexivity|].
  destruct x as [|b x]; [reflexivity|].
  replace (2 * S k)%nat with (S (S (2 * k))) by lia. cbn [hex_encode skipn]. apply IH.
Qed.

Lemma display_def x : lenN x = 32 ->
  nodeid_display x = [48; 120] ++ hex_encode (firstn 2 x) ++ [46; 46] ++ hex_encode (skipn 30 x).
Proof.
  intros Hl. unfold nodeid_display, prefix_0x.
  assert (H64 : length (hex_encode x) = 64%nat).
  { pose proof (hex_encode_len x) as H. unfold lenN in H, Hl. lia. }
  rewrite H64. change (64 - 4)%nat with (2 * 30)%nat. change 4%nat with (2 * 2)%nat.
  rewrite hex_encode_firstn, hex_encode_skipn. reflexivity.
Qed.

(* ---- C17 ---- *)
Lemma be_pad_val x : bytes_ok x -> be_pad (length x) (be_val x) = x.
Proof.
  induction 1 as [|h x Hh Hx IH]; [reflexivity|].
  destruct (N.eq_dec h 0) as [->|Hne].
  - rewrite be_val_cons. replace (0 * 256 ^ lenN x + be_val x) with (be_val x) by lia.
    unfold be_pad in *. cbn [length].
    pose proof (be_trim_len_le (be_val x) (lenN x) (be_val_bound x Hx)) as Hl. unfold lenN in Hl.
    replace (S (length x) - length (be_trim (be_val x)))%nat with (S (length x - length (be_trim (be_val x)))) by lia.
    cbn [repeat app]. rewrite IH. reflexivity.
  - unfold be_pad. rewrite be_trim_digits; [|apply bytes_ok_cons; auto|exact Hne].
    rewrite Nat.sub_diag. reflexivity.
Qed.

Lemma import_secp_iff x : lenN x = 32 ->
  (imp_ok (import_secp x) <> None <-> 0 < be_val x < secp_n).
Proof.
  intros Hl. unfold import_secp. rewrite Hl.
  destruct ((0 <? be_val x) && (be_val x <? secp_n)) eqn:E; cbn [andb N.leb imp_ok].
  - replace ((24 <=? 32) && (32 <=? 32)) with true by reflexivity. cbn [andb]. rewrite E. cbn [imp_ok].
    split; [intros _; lia | discriminate].
  - replace ((24 <=? 32) && (32 <=? 32)) with true by reflexivity. cbn [andb].
    destruct (0 <? be_val x) eqn:E1; cbn [andb] in *; rewrite ?E; cbn [imp_ok]; split; try congruence; lia.
Qed.

Lemma import_secp_export x e : bytes_ok x -> lenN x = 32 -> imp_ok (import_secp x) = Some e -> e = x.
Proof.
  intros Hok Hl. unfold import_secp.
  destruct (((24 <=? lenN x) && (lenN x <=? 32)) && (0 <? be_val x) && (be_val x <? secp_n)); cbn [imp_ok]; [|discriminate].
  intros H; inv H. replace 32%nat with (length x) by (unfold lenN in Hl; lia). apply be_pad_val; exact Hok.
Qed.

Lemma import_secp_wipes x e : imp_ok (import_secp x) = Some e -> imp_buf (import_secp x) = repeat 0 (length x).
Proof.
  unfold import_secp.
  destruct (((24 <=? lenN x) && (lenN x <=? 32)) && (0 <? be_val x) && (be_val x <? secp_n)); cbn [imp_ok imp_buf]; [reflexivity | discriminate].
Qed.

Lemma import_secp_fail_keeps x : imp_ok (import_secp x) = None -> imp_buf (import_secp x) = x.
Proof.
  unfold import_secp.
  destruct (((24 <=? lenN x) && (lenN x <=? 32)) && (0 <? be_val x) && (be_val x <? secp_n)); cbn [imp_ok imp_buf]; [discriminate | reflexivity].
Qed.

Lemma import_ed_iff x : imp_ok (import_ed x) <> None <-> lenN x = 32.
Proof. unfold import_ed. destruct (lenN x =? 32) eqn:E; cbn [imp_ok]; split; intros H; try congruence; try lia. Qed.

Lemma import_ed_export x e : imp_ok (import_ed x) = Some e -> e = x /\ imp_buf (import_ed x) = repeat 0 (length x).
Proof. unfold import_ed. destruct (lenN x =? 32); cbn [imp_ok imp_buf]; [intros H; inv H; auto | discriminate]. Qed.

Lemma import_ed_fail_keeps x : imp_ok (import_ed x) = None -> imp_buf (import_ed x) = x.
Proof. unfold import_ed. destruct (lenN x =? 32); cbn [imp_ok imp_buf]; [discriminate | reflexivity]. Qed.
