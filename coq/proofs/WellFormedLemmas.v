(* WellFormedLemmas.v — the decoder accepts exactly the declarative grammar of Spec.v:
   both directions, for all byte strings and all behaviours of the crypto cores. *)
Require Import EnrProofs.Tactics EnrProofs.BytesLemmas EnrProofs.RlpLemmas EnrProofs.DecodeLemmas EnrProofs.SortedMapLemmas.
Require Import Enr.Consts Enr.Rlp Enr.SortedMap Enr.Keccak Enr.Record Enr.Update Enr.Spec.
Open Scope N_scope.

(* ---- small facts ---- *)
Lemma bind_Ok {A B} (x : A) (f : A -> res B) : bind (Ok x) f = f x.
Proof. reflexivity. Qed.

Lemma pow256_2 : 256 ^ 2 = 65536. Proof. reflexivity. Qed.

Lemma lenN_enc_string_ge s : lenN s <= lenN (enc_string s).
Proof.
  unfold enc_string. destruct s as [|x [|y s']].
  - rewrite lenN_app. lia.
  - destruct (x <? 128); [lia | rewrite lenN_app; lia].
  - rewrite lenN_app. lia.
Qed.

Lemma enc_pair_nonempty kv : enc_pair kv <> [].
Proof.
  unfold enc_pair. destruct (enc_string (fst kv)) eqn:E; [apply enc_string_nonempty in E; destruct E | discriminate].
Qed.

Lemma length_flat_map_enc_pair ps : (length ps <= length (flat_map enc_pair ps))%nat.
Proof.
  induction ps as [|kv t IH]; cbn [flat_map length]; [lia|].
  rewrite app_length. pose proof (enc_pair_nonempty kv). destruct (enc_pair kv); [congruence | cbn [length]; lia].
Qed.

(* ---- sorted_from is strict sortedness ---- *)
Lemma sorted_from_iff ks : forall prev,
  sorted_from prev ks <->
  (match prev, ks with Some p, k :: _ => bytes_ltb p k = true | _, _ => True end) /\ strict_sortedb ks = true.
Proof.
  induction ks as [|k t IH]; intros prev.
  - split; [intros _; destruct prev; auto | constructor].
  - split.
    + intros H. inversion H as [|? ? ? Hp Hs]; subst. apply IH in Hs. destruct Hs as [Hh Hs].
      split; [destruct prev; auto|]. cbn [strict_sortedb]. destruct t; [reflexivity|].
      apply andb_true_iff. auto.
    + intros [Hp Hs]. constructor; [destruct prev; auto|]. apply IH.
      cbn [strict_sortedb] in Hs. destruct t; [auto|]. apply andb_true_iff in Hs. tauto.
Qed.

Lemma sorted_from_None ks : sorted_from None ks <-> strict_sorted ks.
Proof. unfold strict_sorted. rewrite sorted_from_iff. tauto. Qed.

(* ---- one value ---- *)
Lemma dec_value_ok key p v rest :
  bytes_ok p -> dec_value key p = Ok (v, rest) -> value_ok (key, v).
Proof.
  intros Hok H. unfold dec_value in H. unfold value_ok. cbn [fst snd].
  destruct (bytes_eqb key k_id).
  { bind_inv H. destruct a as [s r]. destruct (bytes_eqb s v4) eqn:E; [|discriminate]. inv Hb.
    apply bytes_eqb_eq in E. subst. reflexivity. }
  destruct (is_port_key key).
  { bind_inv H. destruct a as [q r]. inv Hb. destruct (dec_uint_canon 2 _ _ _ Hok Ha) as [_ Hq].
    exists q. rewrite pow256_2 in Hq. auto. }
  destruct (bytes_eqb key k_ip).
  { bind_inv H. destruct a as [s r]. inv Hb. destruct (dec_fixed_canon 4 _ _ _ Hok Ha) as [_ Hl]. exists s. auto. }
  destruct (bytes_eqb key k_ip6).
  { bind_inv H. destruct a as [s r]. inv Hb. destruct (dec_fixed_canon 16 _ _ _ Hok Ha) as [_ Hl]. exists s. auto. }
  destruct (bytes_eqb key k_secp || bytes_eqb key k_ed).
  { bind_inv H. destruct a as [s r]. inv Hb. destruct (dec_string_len _ _ _ Hok Ha) as [Hl _]. exists s. auto. }
  bind_inv H. destruct a as [[l x] r]. inv Hb. destruct (dec_item_canon _ _ _ _ Hok Ha) as [_ Hl]. exists l, x. auto.
Qed.

Lemma dec_value_enc key v rest :
  value_ok (key, v) -> dec_value key (v ++ rest) = Ok (v, rest).
Proof.
  unfold value_ok, dec_value. cbn [fst snd]. intros H.
  destruct (bytes_eqb key k_id).
  { subst v. rewrite dec_string_enc by (vm_compute; reflexivity). cbn [bind]. rewrite bytes_eqb_refl. reflexivity. }
  destruct (is_port_key key).
  { destruct H as (p & Hp & ->). rewrite dec_uint_enc; [reflexivity | lia | rewrite pow256_2; exact Hp]. }
  destruct (bytes_eqb key k_ip).
  { destruct H as (a & Ha & ->). unfold dec_fixed. rewrite dec_string_enc by (rewrite Ha; pow64; lia).
    cbn [bind]. rewrite Ha. reflexivity. }
  destruct (bytes_eqb key k_ip6).
  { destruct H as (a & Ha & ->). unfold dec_fixed. rewrite dec_string_enc by (rewrite Ha; pow64; lia).
    cbn [bind]. rewrite Ha. reflexivity. }
  destruct (bytes_eqb key k_secp || bytes_eqb key k_ed).
  { destruct H as (s & Hs & ->). rewrite dec_string_enc by exact Hs. reflexivity. }
  destruct H as (l & p & Hp & ->). rewrite dec_item_reframe by exact Hp. reflexivity.
Qed.

(* ---- the pair list ---- *)
Lemma dec_pairs_ok fuel : forall prev p m,
  bytes_ok p -> dec_pairs fuel prev p = Ok m -> Forall pair_ok m.
Proof.
  induction fuel as [|f IH]; intros prev p m Hok H.
  - destruct p; cbn [dec_pairs] in H; [inv H; constructor | discriminate].
  - destruct p as [|b0 p0]; [cbn [dec_pairs] in H; inv H; constructor|].
    rewrite dec_pairs_S in H by discriminate. remember (b0 :: p0) as p eqn:Ep.
    bind_inv H. destruct a as [key p1].
    destruct (match prev with Some pk => negb (bytes_ltb pk key) | None => false end); [discriminate|].
    bind_inv Hb. destruct a as [v p2]. bind_inv Hb0. inv Hb.
    pose proof (dec_string_canon _ _ _ Hok Ha) as Hk.
    destruct (dec_string_len _ _ _ Hok Ha) as (Hkl & _ & Hok1).
    pose proof (dec_value_canon _ _ _ _ Hok1 Ha0) as Hv.
    assert (Hok2 : bytes_ok p2) by (rewrite Hv in Hok1; eapply bytes_ok_split; eauto).
    constructor; [|eapply IH; eauto].
    split; [exact Hkl | eapply dec_value_ok; [exact Hok1 | exact Ha0]].
Qed.

Lemma dec_pairs_enc ps : forall prev fuel,
  (length ps <= fuel)%nat -> sorted_from prev (map fst ps) -> Forall pair_ok ps ->
  dec_pairs fuel prev (flat_map enc_pair ps) = Ok ps.
Proof.
  induction ps as [|[k v] t IH]; intros prev fuel Hf Hs Hall.
  - cbn [flat_map]. destruct fuel; reflexivity.
  - destruct fuel as [|f]; [cbn [length] in Hf; lia|].
    cbn [flat_map]. rewrite dec_pairs_S.
    2:{ intros E. apply app_eq_nil in E. destruct E as [E _]. apply enc_pair_nonempty in E. exact E. }
    inversion Hall as [|? ? [Hkl Hv] Hall']; subst. cbn [fst] in Hkl.
    inversion Hs as [|? ? ? Hp Hs']; subst.
    unfold enc_pair at 1. cbn [fst snd]. rewrite <- !app_assoc.
    rewrite dec_string_enc by exact Hkl. cbn [bind].
    replace (match prev with Some pk => negb (bytes_ltb pk k) | None => false end) with false
      by (destruct prev; [rewrite Hp; reflexivity | reflexivity]).
    rewrite dec_value_enc by exact Hv. cbn [bind].
    rewrite IH; [reflexivity | cbn [length] in Hf; lia | exact Hs' | exact Hall'].
Qed.

(* ---- the effective public key ---- *)
Section WithCrypto.
Variable c : crypto.

Lemma value_ok_secp v : value_ok (k_secp, v) -> exists s, lenN s < 2 ^ 64 /\ v = enc_string s.
Proof. unfold value_ok. cbn [fst snd]. change (bytes_eqb k_secp k_id) with false. change (is_port_key k_secp) with false.
  change (bytes_eqb k_secp k_ip) with false. change (bytes_eqb k_secp k_ip6) with false.
  change (bytes_eqb k_secp k_secp || bytes_eqb k_secp k_ed) with true. auto. Qed.
Lemma value_ok_ed v : value_ok (k_ed, v) -> exists s, lenN s < 2 ^ 64 /\ v = enc_string s.
Proof. unfold value_ok. cbn [fst snd]. change (bytes_eqb k_ed k_id) with false. change (is_port_key k_ed) with false.
  change (bytes_eqb k_ed k_ip) with false. change (bytes_eqb k_ed k_ip6) with false.
  change (bytes_eqb k_ed k_secp || bytes_eqb k_ed k_ed) with true. auto. Qed.
Lemma value_ok_toy v : value_ok (k_toy, v) -> exists l p, lenN p < 2 ^ 64 /\ v = reframe l p.
Proof. unfold value_ok. cbn [fst snd]. change (bytes_eqb k_toy k_id) with false. change (is_port_key k_toy) with false.
  change (bytes_eqb k_toy k_ip) with false. change (bytes_eqb k_toy k_ip6) with false.
  change (bytes_eqb k_toy k_secp || bytes_eqb k_toy k_ed) with false. auto. Qed.
Lemma value_ok_id v : value_ok (k_id, v) -> v = enc_string v4.
Proof. unfold value_ok. cbn [fst snd]. change (bytes_eqb k_id k_id) with true. auto. Qed.

Lemma dec_string_whole s : lenN s < 2 ^ 64 -> dec_string (enc_string s) = Ok (s, []).
Proof. intros H. rewrite <- (app_nil_r (enc_string s)). apply dec_string_enc. exact H. Qed.

(* a stored value that decodes as a byte string and is a single item is that string's encoding *)
Lemma reframe_dec_string l p b rest :
  lenN p < 2 ^ 64 -> dec_string (reframe l p) = Ok (b, rest) -> l = false /\ b = p /\ rest = [].
Proof.
  intros Hp H. destruct l; unfold reframe in H.
  - destruct (dec_string_enc_list p [] Hp) as [e He]. unfold enc_list in He. rewrite app_nil_r in He. congruence.
  - rewrite dec_string_whole in H by exact Hp. inv H. auto.
Qed.

Lemma secp_to_public_iff ps p :
  Forall pair_ok ps -> (secp_to_public c ps = Ok p <-> entry_pubkey c SSecp ps p).
Proof.
  intros Hall. unfold secp_to_public, entry_pubkey. split.
  - destruct (sm_get k_secp ps) as [v|] eqn:Eg; [|discriminate]. intros H.
    destruct (sm_get_Forall _ _ _ _ Hall Eg) as [_ Hv]. apply value_ok_secp in Hv. destruct Hv as (s & Hs & ->).
    rewrite dec_string_whole in H by exact Hs. cbn [bind] in H.
    destruct (secp_pk c s) as [[cp un]|] eqn:Ep; [|discriminate]. inv H. exists s, cp, un. auto.
  - intros (b & cp & un & Hg & Hb & Hp & ->). rewrite Hg.
    rewrite dec_string_whole by exact Hb. cbn [bind]. rewrite Hp. reflexivity.
Qed.

Lemma ed_to_public_iff ps p :
  Forall pair_ok ps -> (ed_to_public c ps = Ok p <-> entry_pubkey c SEd ps p).
Proof.
  intros Hall. unfold ed_to_public, entry_pubkey. split.
  - destruct (sm_get k_ed ps) as [v|] eqn:Eg; [|discriminate]. intros H.
    destruct (sm_get_Forall _ _ _ _ Hall Eg) as [_ Hv]. apply value_ok_ed in Hv. destruct Hv as (s & Hs & ->).
    rewrite dec_string_whole in H by exact Hs. cbn [bind] in H.
    destruct ((lenN s =? 32) && ed_pk_ok c s) eqn:E; [|discriminate]. inv H.
    apply andb_true_iff in E. destruct E as [E1 E2]. exists s. repeat split; auto. lia.
  - intros (b & Hg & Hl & Hk & ->). rewrite Hg.
    rewrite dec_string_whole by (rewrite Hl; pow64; lia). cbn [bind].
    rewrite Hl, Hk. reflexivity.
Qed.

Lemma toy_to_public_iff ps p :
  Forall pair_ok ps -> (toy_to_public ps = Ok p <-> entry_pubkey c SToy ps p).
Proof.
  intros Hall. unfold toy_to_public, entry_pubkey. split.
  - destruct (sm_get k_toy ps) as [v|] eqn:Eg; [|discriminate]. intros H.
    destruct (sm_get_Forall _ _ _ _ Hall Eg) as [_ Hv]. apply value_ok_toy in Hv. destruct Hv as (l & q & Hq & ->).
    bind_inv H. destruct a as [b rest]. destruct (reframe_dec_string _ _ _ _ Hq Ha) as (-> & -> & ->).
    destruct (lenN q =? 8) eqn:E; [|discriminate]. inv Hb. exists q. unfold reframe. repeat split; auto. lia.
  - intros (b & Hg & Hl & ->). rewrite Hg.
    rewrite dec_string_whole by (rewrite Hl; pow64; lia). cbn [bind]. rewrite Hl. reflexivity.
Qed.

Lemma enr_to_public_iff kt ps p :
  Forall pair_ok ps -> (enr_to_public c kt ps = Ok p <-> effective_pubkey c kt ps p).
Proof.
  intros Hall. destruct kt; cbn [enr_to_public effective_pubkey].
  - apply secp_to_public_iff; assumption.
  - apply secp_to_public_iff; assumption.
  - apply ed_to_public_iff; assumption.
  - split.
    + destruct (secp_to_public c ps) as [q|e|] eqn:Es.
      * intros H; inv H. left. apply secp_to_public_iff; assumption.
      * intros H. right. split; [|apply ed_to_public_iff; assumption].
        intros q Hq. apply secp_to_public_iff in Hq; [|assumption]. congruence.
      * intros H. right. split; [|apply ed_to_public_iff; assumption].
        intros q Hq. apply secp_to_public_iff in Hq; [|assumption]. congruence.
    + intros [H | [Hn H]].
      * apply secp_to_public_iff in H; [|assumption]. rewrite H. reflexivity.
      * destruct (secp_to_public c ps) as [q|e|] eqn:Es.
        -- exfalso. apply (Hn q). apply secp_to_public_iff; assumption.
        -- apply ed_to_public_iff; assumption.
        -- apply ed_to_public_iff; assumption.
  - apply toy_to_public_iff; assumption.
Qed.

(* ---- decode: forward ---- *)
Lemma decode_pairs_ok kt b r rest :
  bytes_ok b -> decode c kt b = Ok (r, rest) -> Forall pair_ok (content r).
Proof.
  intros Hok H. unfold decode in H.
  bind_inv H. destruct a as [[l0 n] p].
  destruct (MAX_ENR_SIZE <? lenN b - lenN p + n) eqn:Egate; [discriminate|].
  bind_inv Hb. destruct a as [payload rest'].
  destruct (is_empty payload) eqn:Ee1; [discriminate|].
  bind_inv Hb0. destruct a as [sg p1].
  destruct (is_empty p1) eqn:Ee2; [discriminate|].
  bind_inv Hb. destruct a as [sq p2].
  bind_inv Hb0. rename a into m.
  bind_inv Hb. rename a into pk.
  bind_inv Hb0. destruct a as [|]; [|discriminate]. inv Hb.
  destruct (dec_list_canon _ _ _ Hok Ha0) as [Hlist Hl64].
  assert (Hokp : bytes_ok payload).
  { rewrite Hlist in Hok. apply bytes_ok_app in Hok. destruct Hok as [Hok _]. unfold enc_list in Hok.
    eapply bytes_ok_split; eauto. }
  pose proof (dec_string_canon _ _ _ Hokp Ha1) as Hsig.
  assert (Hok1 : bytes_ok p1) by (rewrite Hsig in Hokp; eapply bytes_ok_split; eauto).
  destruct (dec_uint_canon _ _ _ _ Hok1 Ha2) as [Hseq Hsq].
  assert (Hok2 : bytes_ok p2) by (rewrite Hseq in Hok1; eapply bytes_ok_split; eauto).
  cbn [content]. eapply dec_pairs_ok; eauto.
Qed.

Lemma id_is_v4_get r : id_is_v4 r = true -> Forall pair_ok (content r) -> sm_get k_id (content r) = Some (enc_string v4).
Proof.
  unfold id_is_v4, id, get_bytes, get_raw. intros H Hall.
  destruct (sm_get k_id (content r)) as [v|] eqn:Eg; [|discriminate].
  destruct (sm_get_Forall _ _ _ _ Hall Eg) as [_ Hv]. apply value_ok_id in Hv. subst. reflexivity.
Qed.

Lemma get_id_is_v4 r : sm_get k_id (content r) = Some (enc_string v4) -> id_is_v4 r = true.
Proof. unfold id_is_v4, id, get_bytes, get_raw. intros ->. vm_compute. reflexivity. Qed.

Theorem decode_wellformed kt b r rest :
  bytes_ok b -> decode c kt b = Ok (r, rest) ->
  b = encode r ++ rest /\ Valid c kt r.
Proof.
  intros Hok H.
  destruct (decode_shape c kt b r rest Hok H) as (Hb & Hsz & Hseq & Hsorted & pk & Hpk & Hnid & Hid & Hv).
  pose proof (decode_pairs_ok kt b r rest Hok H) as Hall.
  split; [exact Hb|]. exists pk. split; [|exact Hnid].
  unfold WellFormedAs. repeat split.
  - unfold MAX_ENR_SIZE in Hsz. exact Hsz.
  - exact Hseq.
  - apply sorted_from_None. exact Hsorted.
  - exact Hall.
  - apply id_is_v4_get; assumption.
  - apply enr_to_public_iff; assumption.
  - exact Hv.
Qed.

(* ---- decode: reverse ---- *)
Theorem wellformed_decodes kt item sg sq ps pk rest :
  WellFormedAs c kt item sg sq ps pk ->
  decode c kt (item ++ rest) = Ok ({| seq := sq; nid := node_id_of pk; content := ps; sig := sg |}, rest).
Proof.
  intros (Hitem & Hlen & Hsq & Hsorted & Hall & Hid & Hpk & Hv).
  remember (enc_string sg ++ enc_uint sq ++ flat_map enc_pair ps) as payload eqn:Epl.
  assert (Hl : lenN item = lenN (hdr_encode true (lenN payload)) + lenN payload).
  { rewrite Hitem. unfold enc_list. apply lenN_app. }
  assert (Hp64 : lenN payload < 2 ^ 64) by (pow64; lia).
  assert (Hsg64 : lenN sg < 2 ^ 64).
  { pose proof (lenN_enc_string_ge sg). rewrite Epl in Hl. rewrite !lenN_app in Hl. pow64. lia. }
  unfold decode. rewrite Hitem. unfold enc_list at 1. rewrite <- app_assoc.
  rewrite hdr_decode_encode; [|exact Hp64|rewrite lenN_app; lia|intros Hf; discriminate].
  rewrite bind_Ok.
  replace (MAX_ENR_SIZE <? lenN (enc_list payload ++ rest) - lenN (payload ++ rest) + lenN payload) with false.
  2:{ unfold enc_list. rewrite !lenN_app. unfold MAX_ENR_SIZE. lia. }
  rewrite dec_list_enc by exact Hp64. rewrite bind_Ok.
  assert (Hne : is_empty payload = false).
  { rewrite Epl. destruct (enc_string sg) eqn:E; [apply enc_string_nonempty in E; destruct E | reflexivity]. }
  rewrite Hne. rewrite Epl. rewrite dec_string_enc by exact Hsg64. rewrite bind_Ok.
  assert (Hne2 : is_empty (enc_uint sq ++ flat_map enc_pair ps) = false).
  { unfold enc_uint. destruct (enc_string (be_trim sq)) eqn:E; [apply enc_string_nonempty in E; destruct E | reflexivity]. }
  rewrite Hne2. rewrite dec_uint_enc; [|lia|change (256 ^ 8) with (2 ^ 64); exact Hsq]. rewrite bind_Ok.
  rewrite dec_pairs_enc; [|apply length_flat_map_enc_pair|apply sorted_from_None; exact Hsorted|exact Hall].
  rewrite bind_Ok.
  apply enr_to_public_iff in Hpk; [|exact Hall]. rewrite Hpk. rewrite bind_Ok.
  unfold verify, public_key. cbn [content]. rewrite Hpk. rewrite bind_Ok.
  rewrite (get_id_is_v4 {| seq := sq; nid := node_id_of pk; content := ps; sig := sg |} Hid).
  unfold signed_payload.
  cbn [seq content sig].
  rewrite Hv.
  reflexivity.
Qed.

(* ---- the property's sentence ---- *)
Theorem decode_iff_wellformed kt b rest :
  bytes_ok b ->
  ((exists r, decode c kt b = Ok (r, rest)) <-> (exists item, b = item ++ rest /\ WellFormed c kt item)).
Proof.
  intros Hok. split.
  - intros [r H]. destruct (decode_wellformed kt b r rest Hok H) as [Hb (pk & Hw & _)].
    exists (encode r). split; [exact Hb|]. exists (sig r), (seq r), (content r), pk. exact Hw.
  - intros (item & -> & sg & sq & ps & pk & Hw). eexists. apply wellformed_decodes. exact Hw.
Qed.

(* an accepted input determines the parse: the record reports exactly the grammar's components *)
Theorem decode_reports_components kt item sg sq ps pk rest r rest' :
  WellFormedAs c kt item sg sq ps pk -> decode c kt (item ++ rest) = Ok (r, rest') ->
  sig r = sg /\ seq r = sq /\ content r = ps /\ nid r = node_id_of pk /\ rest' = rest.
Proof.
  intros Hw H. rewrite (wellformed_decodes kt _ _ _ _ _ rest Hw) in H. inv H. cbn [sig seq content nid]. auto.
Qed.

(* Valid records are accepted back, with any suffix, as themselves *)
Theorem valid_redecodes kt r rest : Valid c kt r -> decode c kt (encode r ++ rest) = Ok (r, rest).
Proof.
  intros (pk & Hw & Hnid). rewrite (wellformed_decodes kt _ _ _ _ _ rest Hw).
  destruct r as [sq nd ct sg]. cbn [seq nid content sig] in *. rewrite Hnid. reflexivity.
Qed.

Theorem decode_valid kt b r rest : bytes_ok b -> decode c kt b = Ok (r, rest) -> Valid c kt r.
Proof. intros Hok H. apply (decode_wellformed kt b r rest Hok H). Qed.

End WithCrypto.
