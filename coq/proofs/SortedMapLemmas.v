(* SortedMapLemmas.v — the order on byte strings is a strict total order; the association-list
   operations behave like a finite map and keep the key list strictly sorted. *)
Require Import EnrProofs.Tactics.
Require Import Enr.SortedMap.
From Coq Require Import Sorting.Sorted.
Open Scope N_scope.

Definition blt (a b : bytes) : Prop := bytes_ltb a b = true.

Lemma ltb_irrefl a : bytes_ltb a a = false.
Proof.
  induction a as [|x a IH]; cbn [bytes_ltb]; [reflexivity|].
  rewrite N.ltb_irrefl. exact IH.
Qed.

Lemma ltb_trans a : forall b d, bytes_ltb a b = true -> bytes_ltb b d = true -> bytes_ltb a d = true.
Proof.
  induction a as [|x a IH]; intros [|y b] [|z d]; cbn [bytes_ltb]; intros H1 H2; try discriminate; auto.
  destruct (x <? y) eqn:E1.
  - destruct (y <? z) eqn:E2.
    + replace (x <? z) with true by lia. reflexivity.
    + destruct (z <? y) eqn:E3; [discriminate|]. replace (x <? z) with true by lia. reflexivity.
  - destruct (y <? x) eqn:E2; [discriminate|].
    destruct (y <? z) eqn:E3.
    + replace (x <? z) with true by lia. reflexivity.
    + destruct (z <? y) eqn:E4; [discriminate|].
      replace (x <? z) with false by lia. replace (z <? x) with false by lia. eapply IH; eauto.
Qed.

Lemma ltb_trichotomy a : forall b, bytes_ltb a b = false -> bytes_eqb a b = false -> bytes_ltb b a = true.
Proof.
  induction a as [|x a IH]; intros [|y b]; cbn [bytes_ltb bytes_eqb]; intros H1 H2; try discriminate; auto.
  destruct (x <? y) eqn:E1; [discriminate|].
  destruct (y <? x) eqn:E2; [reflexivity|].
  replace (x =? y) with true in H2 by lia. cbn [andb] in H2. apply IH; assumption.
Qed.

Lemma ltb_asym a b : bytes_ltb a b = true -> bytes_ltb b a = false.
Proof.
  intros H. destruct (bytes_ltb b a) eqn:E; [|reflexivity].
  pose proof (ltb_trans _ _ _ H E) as T. rewrite ltb_irrefl in T. discriminate.
Qed.

Lemma ltb_neq a b : bytes_ltb a b = true -> bytes_eqb a b = false.
Proof.
  intros H. apply bytes_eqb_neq. intros ->. rewrite ltb_irrefl in H. discriminate.
Qed.

Lemma bytes_eqb_sym a b : bytes_eqb a b = bytes_eqb b a.
Proof.
  destruct (bytes_eqb a b) eqn:E.
  - apply bytes_eqb_eq in E. subst. symmetry. apply bytes_eqb_refl.
  - symmetry. apply bytes_eqb_neq. apply bytes_eqb_neq in E. congruence.
Qed.

(* ---- sortedness ---- *)
Definition SSorted (ks : list bytes) : Prop := StronglySorted blt ks.
Definition sm_sorted (m : smap) : Prop := SSorted (map fst m).

Lemma strict_sortedb_SSorted ks : strict_sortedb ks = true <-> SSorted ks.
Proof.
  unfold SSorted. induction ks as [|k t IH].
  - split; [constructor | reflexivity].
  - cbn [strict_sortedb]. destruct t as [|k' t'].
    + split; intros _; [constructor; constructor | reflexivity].
    + split.
      * intros H. apply andb_true_iff in H. destruct H as [H1 H2]. apply IH in H2.
        constructor; [exact H2|]. constructor; [exact H1|].
        inversion H2 as [|? ? _ Hall]; subst.
        eapply Forall_impl; [|exact Hall]. intros a Ha. unfold blt in *. eapply ltb_trans; eauto.
      * intros H. inversion H as [|? ? Hs Hall]; subst. apply andb_true_iff. split.
        -- inversion Hall; subst. assumption.
        -- apply IH. exact Hs.
Qed.

Lemma SSorted_cons_inv k t : SSorted (k :: t) -> SSorted t /\ Forall (blt k) t.
Proof. intros H. inversion H; subst. auto. Qed.

(* a key below every key of a map is not in it *)
Lemma sm_get_below k (m : smap) : Forall (blt k) (map fst m) -> sm_get k m = None.
Proof.
  induction m as [|[k' v'] t IH]; cbn [sm_get map fst]; intros H; [reflexivity|].
  inversion H; subst. rewrite (ltb_neq _ _ H2). apply IH. assumption.
Qed.

(* ---- get after insert / remove ---- *)
Lemma sm_get_insert_same k v m : sm_get k (sm_insert k v m) = Some v.
Proof.
  induction m as [|[k' v'] t IH]; cbn [sm_insert sm_get].
  - rewrite bytes_eqb_refl. reflexivity.
  - destruct (bytes_ltb k k') eqn:E1; [cbn [sm_get]; rewrite bytes_eqb_refl; reflexivity|].
    destruct (bytes_eqb k k') eqn:E2; cbn [sm_get]; [rewrite bytes_eqb_refl; reflexivity|].
    rewrite E2. exact IH.
Qed.

Lemma sm_get_insert_other k k' v m : k' <> k -> sm_get k' (sm_insert k v m) = sm_get k' m.
Proof.
  intros Hne. apply bytes_eqb_neq in Hne.
  induction m as [|[k1 v1] t IH]; cbn [sm_insert sm_get].
  - rewrite Hne. reflexivity.
  - destruct (bytes_ltb k k1) eqn:E1; [cbn [sm_get]; rewrite Hne; reflexivity|].
    destruct (bytes_eqb k k1) eqn:E2; cbn [sm_get].
    + apply bytes_eqb_eq in E2. subst k1. rewrite Hne. reflexivity.
    + destruct (bytes_eqb k' k1); [reflexivity | exact IH].
Qed.

Lemma sm_get_remove_other k k' m : k' <> k -> sm_get k' (sm_remove k m) = sm_get k' m.
Proof.
  intros Hne. apply bytes_eqb_neq in Hne.
  induction m as [|[k1 v1] t IH]; cbn [sm_remove sm_get]; [reflexivity|].
  destruct (bytes_eqb k k1) eqn:E2; cbn [sm_get].
  - apply bytes_eqb_eq in E2. subst k1. rewrite Hne. reflexivity.
  - destruct (bytes_eqb k' k1); [reflexivity | exact IH].
Qed.

Lemma sm_get_remove_same k m : sm_sorted m -> sm_get k (sm_remove k m) = None.
Proof.
  unfold sm_sorted. induction m as [|[k1 v1] t IH]; cbn [sm_remove sm_get map fst]; intros Hs; [reflexivity|].
  apply SSorted_cons_inv in Hs. destruct Hs as [Hs Hall].
  destruct (bytes_eqb k k1) eqn:E2; cbn [sm_get].
  - apply bytes_eqb_eq in E2. subst k1. apply sm_get_below. exact Hall.
  - rewrite E2. apply IH. exact Hs.
Qed.

(* ---- keys after insert / remove ---- *)
Lemma in_keys_insert k v m x : In x (map fst (sm_insert k v m)) -> x = k \/ In x (map fst m).
Proof.
  induction m as [|[k1 v1] t IH]; cbn [sm_insert map fst In].
  - intros [H|[]]; auto.
  - destruct (bytes_ltb k k1); [cbn [map fst In]; intros [H|[H|H]]; auto|].
    destruct (bytes_eqb k k1); cbn [map fst In]; intros [H|H]; auto.
    destruct (IH H); auto.
Qed.

Lemma in_keys_remove k m x : In x (map fst (sm_remove k m)) -> In x (map fst m).
Proof.
  induction m as [|[k1 v1] t IH]; cbn [sm_remove map fst In]; [auto|].
  destruct (bytes_eqb k k1); cbn [map fst In]; intros H; auto. destruct H; auto.
Qed.

Lemma sm_insert_sorted k v m : sm_sorted m -> sm_sorted (sm_insert k v m).
Proof.
  unfold sm_sorted, SSorted. induction m as [|[k1 v1] t IH]; cbn [sm_insert map fst]; intros Hs.
  - constructor; constructor.
  - inversion Hs as [|? ? Hs' Hall]; subst.
    destruct (bytes_ltb k k1) eqn:E1.
    + cbn [map fst]. constructor; [exact Hs|]. constructor; [exact E1|].
      eapply Forall_impl; [|exact Hall]. intros a Ha. unfold blt in *. eapply ltb_trans; eauto.
    + destruct (bytes_eqb k k1) eqn:E2.
      * apply bytes_eqb_eq in E2. subst k1. cbn [map fst]. constructor; assumption.
      * cbn [map fst]. constructor; [apply IH; exact Hs'|].
        apply Forall_forall. intros x Hx. apply in_keys_insert in Hx. destruct Hx as [->|Hx].
        -- unfold blt. apply ltb_trichotomy; [exact E1 | exact E2].
        -- rewrite Forall_forall in Hall. apply Hall. exact Hx.
Qed.

Lemma sm_remove_sorted k m : sm_sorted m -> sm_sorted (sm_remove k m).
Proof.
  unfold sm_sorted, SSorted. induction m as [|[k1 v1] t IH]; cbn [sm_remove map fst]; intros Hs; [constructor|].
  inversion Hs as [|? ? Hs' Hall]; subst.
  destruct (bytes_eqb k k1); [exact Hs'|].
  cbn [map fst]. constructor; [apply IH; exact Hs'|].
  apply Forall_forall. intros x Hx. apply in_keys_remove in Hx.
  rewrite Forall_forall in Hall. apply Hall. exact Hx.
Qed.

(* ---- Forall over the pairs ---- *)
Lemma sm_insert_Forall (P : bytes * bytes -> Prop) k v m : P (k, v) -> Forall P m -> Forall P (sm_insert k v m).
Proof.
  intros Hp. induction m as [|[k1 v1] t IH]; cbn [sm_insert]; intros H.
  - constructor; [exact Hp | constructor].
  - inversion H; subst. destruct (bytes_ltb k k1); [constructor; assumption|].
    destruct (bytes_eqb k k1); constructor; auto.
Qed.

Lemma sm_remove_Forall (P : bytes * bytes -> Prop) k m : Forall P m -> Forall P (sm_remove k m).
Proof.
  induction m as [|[k1 v1] t IH]; cbn [sm_remove]; intros H; [constructor|].
  inversion H; subst. destruct (bytes_eqb k k1); [assumption | constructor; auto].
Qed.

Lemma sm_get_In k v m : sm_get k m = Some v -> In (k, v) m.
Proof.
  induction m as [|[k1 v1] t IH]; cbn [sm_get]; [discriminate|].
  destruct (bytes_eqb k k1) eqn:E.
  - apply bytes_eqb_eq in E. subst. intros H; inv H. left; reflexivity.
  - intros H. right. apply IH. exact H.
Qed.

Lemma sm_get_Forall (P : bytes * bytes -> Prop) k v m : Forall P m -> sm_get k m = Some v -> P (k, v).
Proof. intros H G. rewrite Forall_forall in H. apply H. apply sm_get_In. exact G. Qed.

Lemma In_sm_get k v m : sm_sorted m -> In (k, v) m -> sm_get k m = Some v.
Proof.
  unfold sm_sorted. induction m as [|[k1 v1] t IH]; cbn [map fst]; intros Hs Hin; [destruct Hin|].
  apply SSorted_cons_inv in Hs. destruct Hs as [Hs Hall]. cbn [sm_get].
  destruct Hin as [E|Hin].
  - inv E. rewrite bytes_eqb_refl. reflexivity.
  - assert (Hlt : blt k1 k).
    { rewrite Forall_forall in Hall. apply Hall. apply (in_map fst) in Hin. exact Hin. }
    unfold blt in Hlt. apply ltb_neq in Hlt. rewrite bytes_eqb_sym, Hlt. apply IH; assumption.
Qed.

(* ---- extensionality: a sorted map is determined by its lookup function ---- *)
Lemma sm_ext m1 : forall m2, sm_sorted m1 -> sm_sorted m2 ->
  (forall k, sm_get k m1 = sm_get k m2) -> m1 = m2.
Proof.
  unfold sm_sorted. induction m1 as [|[k1 v1] t1 IH]; intros [|[k2 v2] t2] S1 S2 E.
  - reflexivity.
  - specialize (E k2). cbn [sm_get] in E. rewrite bytes_eqb_refl in E. discriminate.
  - specialize (E k1). cbn [sm_get] in E. rewrite bytes_eqb_refl in E. discriminate.
  - cbn [map fst] in S1, S2. apply SSorted_cons_inv in S1, S2. destruct S1 as [S1 A1], S2 as [S2 A2].
    assert (Hk : k1 = k2).
    { pose proof (E k1) as E1. pose proof (E k2) as E2. cbn [sm_get] in E1, E2.
      rewrite bytes_eqb_refl in E1, E2.
      destruct (bytes_eqb k1 k2) eqn:Ek; [apply bytes_eqb_eq; exact Ek|].
      rewrite bytes_eqb_sym, Ek in E2.
      (* k1 is in t2, so k2 < k1; k2 is in t1, so k1 < k2 *)
      symmetry in E1. apply sm_get_In in E1. apply (in_map fst) in E1. cbn [fst] in E1.
      apply sm_get_In in E2. apply (in_map fst) in E2. cbn [fst] in E2.
      rewrite Forall_forall in A1, A2.
      pose proof (A2 _ E1) as L1. pose proof (A1 _ E2) as L2. unfold blt in *.
      rewrite (ltb_asym _ _ L1) in L2. discriminate. }
    subst k2.
    assert (Hv : v1 = v2).
    { specialize (E k1). cbn [sm_get] in E. rewrite bytes_eqb_refl in E. inv E. reflexivity. }
    subst v2. f_equal. apply IH; try assumption.
    intros k. specialize (E k). cbn [sm_get] in E. destruct (bytes_eqb k k1) eqn:Ek; [|exact E].
    apply bytes_eqb_eq in Ek. subst k. rewrite (sm_get_below k1 t1 A1), (sm_get_below k1 t2 A2). reflexivity.
Qed.

(* writing the value a key already has changes nothing *)
Lemma sm_insert_idem k v m : sm_sorted m -> sm_get k m = Some v -> sm_insert k v m = m.
Proof.
  unfold sm_sorted. induction m as [|[k1 v1] t IH]; cbn [sm_get sm_insert map fst]; intros Hs Hg; [discriminate|].
  apply SSorted_cons_inv in Hs. destruct Hs as [Hs Hall].
  destruct (bytes_eqb k k1) eqn:E.
  - apply bytes_eqb_eq in E. subst k1. inv Hg. rewrite ltb_irrefl. reflexivity.
  - assert (Hlt : blt k1 k).
    { rewrite Forall_forall in Hall. apply Hall. apply sm_get_In in Hg. apply (in_map fst) in Hg. exact Hg. }
    unfold blt in Hlt. rewrite (ltb_asym _ _ Hlt). f_equal. apply IH; assumption.
Qed.
