(* Thm_PrefixVec.v — C13 for RLP lists of records: decoding a list of records is prefix-local too. *)
Require Import EnrProofs.Tactics EnrProofs.BytesLemmas EnrProofs.RlpLemmas EnrProofs.DecodeLemmas EnrProofs.Thm_Prefix.
Require Import Enr.Consts Enr.Rlp Enr.SortedMap Enr.Keccak Enr.Record.
Open Scope N_scope.

Section WithCrypto.
Variable c : crypto.

Definition lift_suffix_vec (x : res (list record * bytes)) (s : bytes) : res (list record * bytes) :=
  match x with Ok (l, rest) => Ok (l, rest ++ s) | Err e => Err e | Panic => Panic end.

Theorem decode_vec_prefix_local kt item s :
  complete_item item -> decode_vec c kt (item ++ s) = lift_suffix_vec (decode_vec c kt item) s.
Proof.
  intros (l & n & p & Hh & Hn). unfold decode_vec, dec_list, dec_payload.
  rewrite (hdr_decode_app _ s _ _ _ Hh), Hh. cbn [bind].
  destruct (Bool.eqb l true); [|reflexivity].
  rewrite takeN_app_le, dropN_app_le by lia.
  assert (Hd : dropN n p = []).
  { unfold dropN. apply skipn_all2. unfold lenN in Hn. lia. }
  rewrite Hd. cbn [bind app].
  destruct (dec_records c kt (length (takeN n p)) (takeN n p)) as [rs|e|]; cbn [bind lift_suffix_vec]; reflexivity.
Qed.

End WithCrypto.
