(* Thm_Sites.v — C03: the guards of the Rust's slice / expect sites hold whenever the site is reached.
   The model writes slices as takeN/dropN (which truncate silently) and conversions as total functions; these
   theorems show that at every such site the truncation never happens / the conversion's length condition holds,
   so the total model and the panicking Rust agree there. Sites (repo HEAD):
     lib.rs:292  get():   raw_data[..header.payload_length]          -> slice_in_bounds
     lib.rs:1175 decode:  payload[..other_header.payload_length]     -> slice_in_bounds
     node_id.rs:58        keccak output .try_into::<[u8;32]>().expect -> node_id_len
     node_id.rs:98-99     hex_encode[0..4], hex_encode[len-4..]       -> display_slices_in_bounds
     lib.rs:362-376       client_list[0..2] under `match len`         -> pattern matching in the model (no index)
   k256_key.rs:84-98 (unreachable!/unwrap on affine coordinates) is inside the key library's own types: not modelled. *)
Require Import EnrProofs.Tactics EnrProofs.BytesLemmas EnrProofs.RlpLemmas EnrProofs.KeccakLemmas EnrProofs.Thm_NodeId.
Require Import Enr.Consts Enr.Rlp Enr.SortedMap Enr.Keccak Enr.Record Enr.NodeId.
Open Scope N_scope.

Theorem slice_in_bounds b l n p : bytes_ok b -> hdr_decode b = Ok (l, n, p) -> n <= lenN p /\ lenN (takeN n p) = n.
Proof.
  intros Hok H. assert (Hn : n <= lenN p).
  { destruct (hdr_decode_canon b l n p Hok H) as [(x & t & -> & _ & _ & -> & ->) | (_ & Hn & _)]; [|exact Hn].
    unfold lenN. cbn [length]. lia. }
  split; [exact Hn|]. unfold takeN, lenN in *. rewrite firstn_length. lia.
Qed.

Theorem node_id_len pk : lenN (node_id_of pk) = 32.
Proof. unfold node_id_of, lenN. rewrite keccak256_length. reflexivity. Qed.

Theorem display_slices_in_bounds x : lenN x = 32 ->
  lenN (hex_encode x) = 64 /\ lenN (firstn 4 (hex_encode x)) = 4 /\
  lenN (skipn (length (hex_encode x) - 4) (hex_encode x)) = 4.
Proof.
  intros Hl. pose proof (hex_encode_len x) as H. rewrite Hl in H. split; [exact H|].
  unfold lenN in *. rewrite firstn_length, skipn_length. lia.
Qed.
