(* Tactics.v — common setup for proof files. *)
From Coq Require Export List NArith Bool Lia ZArith.
From Coq Require Export ZifyBool ZifyN ZifyNat.
Require Export Enr.Bytes.
Export ListNotations.
Ltac Zify.zify_post_hook ::= Z.div_mod_to_equations.
Open Scope N_scope.

(* inversion of monadic binds *)
Lemma bind_ok {A B} (x : res A) (f : A -> res B) (b : B) :
  bind x f = Ok b -> exists a, x = Ok a /\ f a = Ok b.
Proof. destruct x as [a|e|]; cbn; intros H; try discriminate. exists a; auto. Qed.

Lemma bind_not_panic {A B} (x : res A) (f : A -> res B) :
  x <> Panic -> (forall a, f a <> Panic) -> bind x f <> Panic.
Proof. destruct x as [a|e|]; cbn; intros H1 H2; auto. discriminate. Qed.

Ltac inv H := inversion H; subst; clear H.

Ltac bind_inv H :=
  let a := fresh "a" in let Ha := fresh "Ha" in let Hb := fresh "Hb" in
  apply bind_ok in H; destruct H as [a [Ha Hb]].

Lemma lenN_app {A} (a b : list A) : lenN (a ++ b) = lenN a + lenN b.
Proof. unfold lenN. rewrite app_length. lia. Qed.
Lemma lenN_cons {A} (x : A) (l : list A) : lenN (x :: l) = 1 + lenN l.
Proof. unfold lenN. cbn [length]. lia. Qed.
Lemma lenN_nil {A} : lenN (@nil A) = 0.
Proof. reflexivity. Qed.

Lemma take_drop {A} n (p : list A) : n <= lenN p -> p = takeN n p ++ dropN n p /\ lenN (takeN n p) = n.
Proof.
  intros H. unfold takeN, dropN, lenN in *. split; [symmetry; apply firstn_skipn|].
  rewrite firstn_length_le by lia. lia.
Qed.

Lemma takeN_app {A} (a b : list A) : takeN (lenN a) (a ++ b) = a.
Proof.
  unfold takeN, lenN. rewrite Nat2N.id. rewrite firstn_app, Nat.sub_diag, firstn_all. cbn. apply app_nil_r.
Qed.
Lemma dropN_app {A} (a b : list A) : dropN (lenN a) (a ++ b) = b.
Proof.
  unfold dropN, lenN. rewrite Nat2N.id. rewrite skipn_app, Nat.sub_diag, skipn_all. reflexivity.
Qed.

Lemma bytes_ok_app a b : bytes_ok (a ++ b) <-> bytes_ok a /\ bytes_ok b.
Proof. unfold bytes_ok. apply Forall_app. Qed.
Lemma bytes_ok_cons x b : bytes_ok (x :: b) <-> x < 256 /\ bytes_ok b.
Proof. unfold bytes_ok. split; intros H; [inversion H; auto | constructor; tauto]. Qed.
Lemma bytes_ok_takeN n b : bytes_ok b -> bytes_ok (takeN n b).
Proof. unfold takeN. intros H. rewrite <- (firstn_skipn (N.to_nat n) b) in H. apply bytes_ok_app in H. tauto. Qed.
Lemma bytes_ok_dropN n b : bytes_ok b -> bytes_ok (dropN n b).
Proof. unfold dropN. intros H. rewrite <- (firstn_skipn (N.to_nat n) b) in H. apply bytes_ok_app in H. tauto. Qed.

Lemma bytes_eqb_eq a b : bytes_eqb a b = true <-> a = b.
Proof.
  revert b; induction a as [|x a IH]; intros [|y b]; cbn [bytes_eqb]; split; intros H; try discriminate; auto.
  - apply andb_true_iff in H. destruct H as [H1 H2]. apply N.eqb_eq in H1. apply IH in H2. subst; auto.
  - inv H. rewrite N.eqb_refl. cbn. apply IH. auto.
Qed.
Lemma bytes_eqb_refl a : bytes_eqb a a = true.
Proof. apply bytes_eqb_eq; auto. Qed.
Lemma bytes_eqb_neq a b : bytes_eqb a b = false <-> a <> b.
Proof. split; intros H. - intros E. apply bytes_eqb_eq in E. congruence. - destruct (bytes_eqb a b) eqn:E; auto. apply bytes_eqb_eq in E. contradiction. Qed.

Ltac pow64 := change (2 ^ 64) with 18446744073709551616 in *.
Lemma lenN_1 {A} (x : A) : lenN [x] = 1.
Proof. reflexivity. Qed.
