(* Thm_Misc.v — C03 (totality of the decoder and parsers), C11 (back-ends), C15 (equality). *)
Require Import EnrProofs.Tactics EnrProofs.BytesLemmas EnrProofs.RlpLemmas EnrProofs.DecodeLemmas EnrProofs.Thm_Decode.
Require Import Enr.Consts Enr.Rlp Enr.SortedMap Enr.Keccak Enr.Record Enr.Text.
Open Scope N_scope.

(* ---- no panic in the RLP layer ---- *)
Lemma dec_uint_no_panic k b : dec_uint k b <> Panic.
Proof.
  unfold dec_uint. apply bind_not_panic; [apply dec_payload_no_panic|]. intros [s r].
  apply bind_not_panic; [|discriminate]. unfold left_pad_val. destruct (_ <? _); [discriminate|].
  destruct s; [discriminate|]. destruct (_ =? 0); discriminate.
Qed.
Lemma dec_fixed_no_panic k b : dec_fixed k b <> Panic.
Proof. unfold dec_fixed. apply bind_not_panic; [apply dec_payload_no_panic|]. intros [s r]. destruct (_ =? _); discriminate. Qed.
Lemma dec_item_no_panic b : dec_item b <> Panic.
Proof. unfold dec_item. apply bind_not_panic; [apply hdr_decode_no_panic|]. intros [[l n] p]. discriminate. Qed.

Lemma dec_value_no_panic key p : dec_value key p <> Panic.
Proof.
  unfold dec_value.
  destruct (bytes_eqb key k_id).
  { apply bind_not_panic; [apply dec_payload_no_panic|]. intros [s r]. destruct (bytes_eqb s v4); discriminate. }
  destruct (is_port_key key).
  { apply bind_not_panic; [apply dec_uint_no_panic|]. intros [s r]. discriminate. }
  destruct (bytes_eqb key k_ip).
  { apply bind_not_panic; [apply dec_fixed_no_panic|]. intros [s r]. discriminate. }
  destruct (bytes_eqb key k_ip6).
  { apply bind_not_panic; [apply dec_fixed_no_panic|]. intros [s r]. discriminate. }
  destruct (bytes_eqb key k_secp || bytes_eqb key k_ed).
  { apply bind_not_panic; [apply dec_payload_no_panic|]. intros [s r]. discriminate. }
  apply bind_not_panic; [apply dec_item_no_panic|]. intros [[l x] r]. discriminate.
Qed.

Lemma dec_pairs_no_panic fuel : forall prev p, dec_pairs fuel prev p <> Panic.
Proof.
  induction fuel as [|f IH]; intros prev p; destruct p as [|b0 p0]; cbn [dec_pairs]; try discriminate.
  apply bind_not_panic; [apply dec_payload_no_panic|]. intros [key p1].
  destruct (match prev with Some pk => negb (bytes_ltb pk key) | None => false end); [discriminate|].
  apply bind_not_panic; [apply dec_value_no_panic|]. intros [v p2].
  apply bind_not_panic; [apply IH|]. discriminate.
Qed.

Section WithCrypto.
Variable c : crypto.

Lemma enr_to_public_no_panic kt m : enr_to_public c kt m <> Panic.
Proof.
  assert (Hs : forall m, secp_to_public c m <> Panic).
  { intros m0. unfold secp_to_public. destruct (sm_get k_secp m0); [|discriminate].
    apply bind_not_panic; [apply dec_payload_no_panic|]. intros [b1 r1]. destruct (secp_pk c b1) as [[? ?]|]; discriminate. }
  assert (He : forall m, ed_to_public c m <> Panic).
  { intros m0. unfold ed_to_public. destruct (sm_get k_ed m0); [|discriminate].
    apply bind_not_panic; [apply dec_payload_no_panic|]. intros [b1 r1]. destruct (_ && _); discriminate. }
  destruct kt; cbn [enr_to_public]; auto.
  - destruct (secp_to_public c m); [discriminate | apply He | apply He].
  - unfold toy_to_public. destruct (sm_get k_toy m); [|discriminate].
    apply bind_not_panic; [apply dec_payload_no_panic|]. intros [b1 r1]. destruct (_ =? _); discriminate.
Qed.

(* the decoder returns a record or an error value for EVERY input: it has no panic outcome *)
Lemma decode_no_panic kt b : decode c kt b <> Panic.
Proof.
  unfold decode. apply bind_not_panic; [apply hdr_decode_no_panic|]. intros [[l n] p].
  destruct (_ <? _); [discriminate|].
  apply bind_not_panic; [apply dec_payload_no_panic|]. intros [payload rest].
  destruct (is_empty payload); [discriminate|].
  apply bind_not_panic; [apply dec_payload_no_panic|]. intros [sg p1].
  destruct (is_empty p1); [discriminate|].
  apply bind_not_panic; [apply dec_uint_no_panic|]. intros [sq p2].
  apply bind_not_panic; [apply dec_pairs_no_panic|]. intros m.
  destruct (enr_to_public c kt m) as [pk|e|] eqn:Epk; cbn [bind]; try discriminate.
  - unfold verify, public_key. cbn [content]. rewrite Epk. cbn [bind]. destruct (_ && _); discriminate.
  - elim (enr_to_public_no_panic kt m Epk).
Qed.

Lemma dec_records_no_panic kt fuel : forall p, dec_records c kt fuel p <> Panic.
Proof.
  induction fuel as [|f IH]; intros p; destruct p as [|b0 p0]; cbn [dec_records]; try discriminate.
  apply bind_not_panic; [apply decode_no_panic|]. intros [r rest].
  apply bind_not_panic; [apply IH|]. discriminate.
Qed.

Lemma decode_vec_no_panic kt b : decode_vec c kt b <> Panic.
Proof.
  unfold decode_vec. apply bind_not_panic; [apply dec_payload_no_panic|]. intros [payload rest].
  apply bind_not_panic; [apply dec_records_no_panic|]. discriminate.
Qed.

Lemma from_str_no_panic kt s : from_str c kt s <> Panic.
Proof.
  unfold from_str. destruct (_ <? 4); [discriminate|]. destruct (b64_decode _); [|discriminate].
  apply bind_not_panic; [apply decode_no_panic|]. intros [r rest]. destruct (is_empty rest); discriminate.
Qed.

Lemma from_json_no_panic kt s x : from_json c kt s = Some x -> x <> Panic.
Proof.
  unfold from_json. destruct s as [|q t]; [discriminate|].
  destruct (q =? 34); [|discriminate]. destruct (rev t) as [|q2 rb]; [discriminate|].
  destruct (q2 =? 34); [|discriminate]. cbv zeta.
  destruct (forallb plain_json_char (rev rb)); [|discriminate]. intros H; inv H. apply from_str_no_panic.
Qed.

(* every accessor of a record whose values are single RLP items and whose key decodes: no panic *)
Lemma get_no_panic r k x : get r k = Some x ->
  (forall v, sm_get k (content r) = Some v -> exists l n p, hdr_decode v = Ok (l, n, p)) -> x <> Panic.
Proof.
  unfold get, get_raw. destruct (sm_get k (content r)) as [v|]; [|discriminate].
  intros H Hv. inv H. destruct (Hv v eq_refl) as (l & n & p & ->). discriminate.
Qed.

Lemma verify_no_panic kt r : (exists p, enr_to_public c kt (content r) = Ok p) -> verify c kt r <> Panic.
Proof. intros [p Hp]. unfold verify, public_key. rewrite Hp. discriminate. Qed.

(* ---- C11: back-ends ---- *)
Lemma decode_k256_libsecp b : decode c K256 b = decode c LibSecp b.
Proof. reflexivity. Qed.

(* CombinedKey with a valid secp256k1 entry behaves as the secp256k1 type; otherwise as ed25519 *)
Lemma enr_to_public_comb_secp m p : secp_to_public c m = Ok p -> enr_to_public c Comb m = enr_to_public c K256 m.
Proof. intros H. cbn [enr_to_public]. rewrite H. reflexivity. Qed.
Lemma enr_to_public_comb_ed m : (forall p, secp_to_public c m <> Ok p) -> enr_to_public c Comb m = enr_to_public c Ed m.
Proof. intros H. cbn [enr_to_public]. destruct (secp_to_public c m) as [p|e|]; [elim (H p); reflexivity | reflexivity | reflexivity]. Qed.

Lemma verify_kt_ext kt1 kt2 r :
  enr_to_public c kt1 (content r) = enr_to_public c kt2 (content r) -> verify c kt1 r = verify c kt2 r.
Proof. intros H. unfold verify, public_key. rewrite H. reflexivity. Qed.

Lemma decode_kt_ext kt1 kt2 b :
  (forall m, enr_to_public c kt1 m = enr_to_public c kt2 m) -> decode c kt1 b = decode c kt2 b.
Proof.
  intros H. unfold decode.
  destruct (hdr_decode b) as [[[l n] p]|e|]; cbn [bind]; try reflexivity.
  destruct (_ <? _); [reflexivity|].
  destruct (dec_list b) as [[payload rest]|e|]; cbn [bind]; try reflexivity.
  destruct (is_empty payload); [reflexivity|].
  destruct (dec_string payload) as [[sg p1]|e|]; cbn [bind]; try reflexivity.
  destruct (is_empty p1); [reflexivity|].
  destruct (dec_uint 8 p1) as [[sq p2]|e|]; cbn [bind]; try reflexivity.
  destruct (dec_pairs (length p2) None p2) as [m|e|]; cbn [bind]; try reflexivity.
  rewrite H. destruct (enr_to_public c kt2 m) as [pk|e|]; cbn [bind]; try reflexivity.
  rewrite (verify_kt_ext kt1 kt2) by (cbn [content]; apply H). reflexivity.
Qed.

(* isolation: a single-scheme type rejects a record that has no entry of its scheme *)
Lemma decode_needs_own_key kt b r rest :
  bytes_ok b -> decode c kt b = Ok (r, rest) ->
  match kt with
  | K256 | LibSecp => sm_get k_secp (content r) <> None
  | Ed => sm_get k_ed (content r) <> None
  | Toy => sm_get k_toy (content r) <> None
  | Comb => sm_get k_secp (content r) <> None \/ sm_get k_ed (content r) <> None
  end.
Proof.
  intros Hok H. destruct (decode_shape c kt b r rest Hok H) as (_ & _ & _ & _ & pk & Hpk & _).
  destruct kt; cbn [enr_to_public] in Hpk.
  - unfold secp_to_public in Hpk. destruct (sm_get k_secp (content r)); [discriminate | discriminate Hpk].
  - unfold secp_to_public in Hpk. destruct (sm_get k_secp (content r)); [discriminate | discriminate Hpk].
  - unfold ed_to_public in Hpk. destruct (sm_get k_ed (content r)); [discriminate | discriminate Hpk].
  - unfold secp_to_public, ed_to_public in Hpk. destruct (sm_get k_secp (content r)); [left; discriminate|].
    destruct (sm_get k_ed (content r)); [right; discriminate | discriminate Hpk].
  - unfold toy_to_public in Hpk. destruct (sm_get k_toy (content r)); [discriminate | discriminate Hpk].
Qed.

(* CombinedKey verifies against the secp256k1 entry whenever that entry is a valid key *)
Lemma combined_precedence b r rest p :
  bytes_ok b -> decode c Comb b = Ok (r, rest) -> secp_to_public c (content r) = Ok p ->
  verify_v4 c p (signed_payload r) (sig r) = true /\ nid r = node_id_of p.
Proof.
  intros Hok H Hp. destruct (decode_shape c Comb b r rest Hok H) as (_ & _ & _ & _ & pk & Hpk & Hn & _ & Hv).
  cbn [enr_to_public] in Hpk. rewrite Hp in Hpk. inv Hpk. auto.
Qed.

(* ---- C15: equality, hashing, content comparison ---- *)
Lemma rec_eqb_iff a b : rec_eqb a b = true <-> seq a = seq b /\ nid a = nid b /\ sig a = sig b.
Proof.
  unfold rec_eqb. rewrite !andb_true_iff, !bytes_eqb_eq, N.eqb_eq. tauto.
Qed.
Lemma rec_eqb_refl a : rec_eqb a a = true.
Proof. apply rec_eqb_iff. auto. Qed.
Lemma rec_eqb_sym a b : rec_eqb a b = rec_eqb b a.
Proof.
  destruct (rec_eqb a b) eqn:E1, (rec_eqb b a) eqn:E2; auto.
  - apply rec_eqb_iff in E1. assert (rec_eqb b a = true) by (apply rec_eqb_iff; intuition congruence). congruence.
  - apply rec_eqb_iff in E2. assert (rec_eqb a b = true) by (apply rec_eqb_iff; intuition congruence). congruence.
Qed.
Lemma rec_eqb_trans a b d : rec_eqb a b = true -> rec_eqb b d = true -> rec_eqb a d = true.
Proof. rewrite !rec_eqb_iff. intuition congruence. Qed.
Lemma rec_eqb_hash a b : rec_eqb a b = true -> hash_input a = hash_input b.
Proof. rewrite rec_eqb_iff. unfold hash_input. intros (-> & -> & ->). reflexivity. Qed.
Lemma rec_eqb_differs a b : seq a <> seq b \/ nid a <> nid b \/ sig a <> sig b -> rec_eqb a b = false.
Proof. intros H. destruct (rec_eqb a b) eqn:E; [|reflexivity]. apply rec_eqb_iff in E. intuition congruence. Qed.

Lemma compare_content_iff_payload a b : compare_content a b = true <-> signed_payload a = signed_payload b.
Proof. unfold compare_content. apply bytes_eqb_eq. Qed.

End WithCrypto.
