(* Thm_Authentic.v — C01 for the text and JSON entry points, and "every alteration is rejected" stated
   relative to the one assumption it needs: that nothing but what the key holder signed verifies under
   the key (unforgeability; not a theorem of any proof assistant, so it is a hypothesis here). *)
Require Import EnrProofs.Tactics EnrProofs.BytesLemmas EnrProofs.RlpLemmas EnrProofs.DecodeLemmas
  EnrProofs.WellFormedLemmas EnrProofs.Thm_Decode EnrProofs.Thm_Valid EnrProofs.Thm_More EnrProofs.Thm_Text.
Require Import Enr.Consts Enr.Rlp Enr.SortedMap Enr.Keccak Enr.Record Enr.Update Enr.Spec Enr.Text.
Open Scope N_scope.

Section WithCrypto.
Variable c : crypto.
Variable kt : keytype.

(* what "accepted" guarantees, whatever the entry point *)
Definition Authentic (r : record) : Prop :=
  exists pk, enr_to_public c kt (content r) = Ok pk /\ id r = Some v4 /\
             verify_v4 c pk (signed_payload r) (sig r) = true /\ verify c kt r = Ok true.

Lemma decode_Authentic b r rest : bytes_ok b -> decode c kt b = Ok (r, rest) -> Authentic r.
Proof.
  intros Hb Hd. destruct (decode_authentic c kt b r rest Hb Hd) as (pk & Hp & Hi & Hv).
  exists pk. repeat split; auto. exact (decoded_verifies c kt b r rest Hb Hd).
Qed.

Lemma from_str_decodes s r : from_str c kt s = Ok r -> exists b, bytes_ok b /\ decode c kt b = Ok (r, []).
Proof.
  unfold from_str. intros H. destruct (lenN s <? 4); [discriminate|].
  destruct (b64_decode (text_body s)) as [b|] eqn:Ed; [|discriminate H].
  destruct (b64_canonical _ _ Ed) as [_ Hokb].
  bind_inv H. destruct a as [r' rest]. destruct (is_empty rest) eqn:Ee; [|discriminate]. inv Hb.
  destruct rest; [|discriminate]. exists b. split; assumption.
Qed.

(* a text is accepted as a record only if ... (C01, first sentence, for the text form) *)
Theorem from_str_authentic s r : from_str c kt s = Ok r -> Authentic r.
Proof. intros H. destruct (from_str_decodes s r H) as (b & Hb & Hd). exact (decode_Authentic b r [] Hb Hd). Qed.

Lemma from_json_is_from_str s x : from_json c kt s = Some x -> exists body, x = from_str c kt body.
Proof.
  unfold from_json. destruct s as [|q t]; [discriminate|]. destruct (q =? 34); [|discriminate].
  destruct (rev t) as [|q2 rbody]; [discriminate|]. destruct (q2 =? 34); [|discriminate].
  cbv zeta. destruct (forallb plain_json_char (rev rbody)); [|discriminate]. intros H; inv H. eexists; reflexivity.
Qed.

Theorem from_json_authentic s r : from_json c kt s = Some (Ok r) -> Authentic r.
Proof. intros H. destruct (from_json_is_from_str s _ H) as (body & Hb). symmetry in Hb. exact (from_str_authentic body r Hb). Qed.

(* the signed message determines the sequence number and the pairs of an accepted record *)
Theorem signed_message_binds b1 b2 r1 r2 rest1 rest2 :
  bytes_ok b1 -> bytes_ok b2 -> decode c kt b1 = Ok (r1, rest1) -> decode c kt b2 = Ok (r2, rest2) ->
  signed_payload r1 = signed_payload r2 -> seq r1 = seq r2 /\ content r1 = content r2.
Proof.
  intros H1 H2 D1 D2 E.
  pose proof (decode_valid c kt b1 r1 rest1 H1 D1) as V1. pose proof (decode_valid c kt b2 r2 rest2 H2 D2) as V2.
  apply (compare_content_iff c kt r1 r2 V1 V2). apply Thm_Misc.compare_content_iff_payload. exact E.
Qed.

(* the one assumption: under key pk, only (m, s) verifies — what unforgeability gives when the holder of pk has
   signed this record and nothing else (the low-S rule is what removes the ECDSA twin from this set:
   high_s_twin_rejected) *)
Definition OnlySigned (pk : pubkey) (m s : bytes) : Prop :=
  forall m' s', verify_v4 c pk m' s' = true -> m' = m /\ s' = s.

(* C01, second sentence: with the public key kept, every input the decoder accepts is the original record,
   byte for byte; so every alteration of the sequence number, keys, values or signature bytes is rejected.
   (An alteration of the public key itself is covered by decode_authentic: the altered input must verify under
   the altered key.) *)
Theorem only_the_original_is_accepted b1 r1 rest1 pk :
  bytes_ok b1 -> decode c kt b1 = Ok (r1, rest1) -> enr_to_public c kt (content r1) = Ok pk ->
  OnlySigned pk (signed_payload r1) (sig r1) ->
  forall b2 r2 rest2, bytes_ok b2 -> decode c kt b2 = Ok (r2, rest2) -> enr_to_public c kt (content r2) = Ok pk ->
    r2 = r1 /\ b2 = encode r1 ++ rest2.
Proof.
  intros H1 D1 P1 Honly b2 r2 rest2 H2 D2 P2.
  destruct (decode_authentic c kt b2 r2 rest2 H2 D2) as (pk2 & Hp2 & _ & Hv2).
  rewrite P2 in Hp2. inv Hp2.
  destruct (Honly _ _ Hv2) as [Em Es].
  destruct (signed_message_binds b1 b2 r1 r2 rest1 rest2 H1 H2 D1 D2 (eq_sym Em)) as [Eq Ec].
  pose proof (decode_valid c kt b1 r1 rest1 H1 D1) as V1. pose proof (decode_valid c kt b2 r2 rest2 H2 D2) as V2.
  destruct (valid_observables c kt r1 V1) as (p1 & Hpk1 & _ & _ & Hn1 & _).
  destruct (valid_observables c kt r2 V2) as (p2 & Hpk2 & _ & _ & Hn2 & _).
  unfold public_key in Hpk1, Hpk2. rewrite P1 in Hpk1. rewrite P2 in Hpk2. inv Hpk1. inv Hpk2.
  assert (E : r2 = r1).
  { destruct r1, r2. simpl in *. subst. reflexivity. }
  split; [exact E|]. rewrite <- E. exact (decode_canonical c kt b2 r2 rest2 H2 D2).
Qed.

End WithCrypto.
