(* Thm_Prefix.v — decoding is prefix-local (C13). *)
Require Import EnrProofs.Tactics EnrProofs.BytesLemmas EnrProofs.RlpLemmas EnrProofs.DecodeLemmas.
Require Import Enr.Consts Enr.Rlp Enr.SortedMap Enr.Keccak Enr.Record.
Open Scope N_scope.

(* a buffer that is exactly one RLP item: its header decodes and the payload fills the rest *)
Definition complete_item (item : bytes) : Prop :=
  exists l n p, hdr_decode item = Ok (l, n, p) /\ lenN p = n.

Lemma takeN_app_le {A} n (a b : list A) : n <= lenN a -> takeN n (a ++ b) = takeN n a.
Proof. unfold takeN, lenN. intros H. rewrite firstn_app. replace (N.to_nat n - length a)%nat with 0%nat by lia. cbn. apply app_nil_r. Qed.
Lemma dropN_app_le {A} n (a b : list A) : n <= lenN a -> dropN n (a ++ b) = dropN n a ++ b.
Proof. unfold dropN, lenN. intros H. rewrite skipn_app. replace (N.to_nat n - length a)%nat with 0%nat by lia. reflexivity. Qed.

Lemma hdr_long_app lst ll t s l n p :
  hdr_long lst ll t = Ok (l, n, p) -> hdr_long lst ll (t ++ s) = Ok (l, n, p ++ s).
Proof.
  unfold hdr_long. intros H.
  destruct (lenN t <? ll) eqn:E1; [discriminate|].
  rewrite lenN_app. replace (lenN t + lenN s <? ll) with false by lia.
  rewrite takeN_app_le, dropN_app_le by lia.
  destruct (8 <? lenN (takeN ll t)); [discriminate|].
  destruct (takeN ll t) as [|z lb]; [discriminate|].
  destruct (z =? 0); [discriminate|]. destruct (be_val (z :: lb) <? 56); [discriminate|].
  destruct (lenN (dropN ll t) <? be_val (z :: lb)) eqn:E2; [discriminate|]. inv H.
  rewrite lenN_app. replace (lenN (dropN ll t) + lenN s <? be_val (z :: lb)) with false by lia. reflexivity.
Qed.

Lemma hdr_decode_app b s l n p :
  hdr_decode b = Ok (l, n, p) -> hdr_decode (b ++ s) = Ok (l, n, p ++ s).
Proof.
  destruct b as [|x t]; [discriminate|]. cbn [app hdr_decode]. intros H.
  destruct (x <? 128); [inv H; reflexivity|].
  destruct (x <? 184).
  { bind_inv H. destruct a. destruct (lenN t <? x - 128) eqn:E; [discriminate|]. inv Hb.
    assert (Hc : (if x - 128 =? 1 then match p ++ s with [] => Err EInputTooShort | c :: _ => if c <? 128 then Err ENonCanonicalSingleByte else Ok tt end else Ok tt) = Ok tt).
    { destruct (x - 128 =? 1); [|reflexivity]. destruct p as [|c p']; [discriminate|]. cbn [app]. exact Ha. }
    rewrite Hc. cbn [bind]. rewrite lenN_app. replace (lenN p + lenN s <? x - 128) with false by lia. reflexivity. }
  destruct (x <? 192); [apply hdr_long_app; exact H|].
  destruct (x <? 248); [|apply hdr_long_app; exact H].
  destruct (lenN t <? x - 192) eqn:E; [discriminate|]. inv H.
  rewrite lenN_app. replace (lenN p + lenN s <? x - 192) with false by lia. reflexivity.
Qed.

Section WithCrypto.
Variable c : crypto.

Definition lift_suffix (x : res (record * bytes)) (s : bytes) : res (record * bytes) :=
  match x with Ok (r, rest) => Ok (r, rest ++ s) | Err e => Err e | Panic => Panic end.

(* the outcome of decoding a buffer that begins with a complete item is the outcome for the item
   alone, whatever follows; on success the remainder is exactly what followed the item *)
Lemma decode_prefix_local kt item s :
  complete_item item -> decode c kt (item ++ s) = lift_suffix (decode c kt item) s.
Proof.
  intros (l & n & p & Hh & Hn). unfold decode.
  rewrite (hdr_decode_app _ s _ _ _ Hh), Hh. cbn [bind].
  rewrite !lenN_app. replace (lenN item + lenN s - (lenN p + lenN s)) with (lenN item - lenN p) by lia.
  destruct (MAX_ENR_SIZE <? lenN item - lenN p + n); [reflexivity|].
  unfold dec_list, dec_payload. rewrite (hdr_decode_app _ s _ _ _ Hh), Hh. cbn [bind].
  destruct (Bool.eqb l true); [|reflexivity].
  rewrite takeN_app_le, dropN_app_le by lia.
  assert (Hd : dropN n p = []).
  { unfold dropN. apply skipn_all2. unfold lenN in Hn. lia. }
  rewrite Hd. cbn [bind app].
  destruct (is_empty (takeN n p)); [reflexivity|].
  destruct (dec_string (takeN n p)) as [[sg p1]|e|]; cbn [bind lift_suffix]; try reflexivity.
  destruct (is_empty p1); [reflexivity|].
  destruct (dec_uint 8 p1) as [[sq p2]|e|]; cbn [bind lift_suffix]; try reflexivity.
  destruct (dec_pairs (length p2) None p2) as [m|e|]; cbn [bind lift_suffix]; try reflexivity.
  destruct (enr_to_public c kt m) as [pk|e|]; cbn [bind lift_suffix]; try reflexivity.
  destruct (verify c kt _) as [[|]|e|]; cbn [bind lift_suffix]; reflexivity.
Qed.

(* what the decoder accepts is a complete item followed by the remainder *)
Lemma decode_ok_complete kt b r rest :
  bytes_ok b -> decode c kt b = Ok (r, rest) -> complete_item (encode r) /\ b = encode r ++ rest.
Proof.
  intros Hok H. destruct (decode_shape c kt b r rest Hok H) as (Hb & Hsz & _).
  split; [|exact Hb].
  unfold encode, enc_list. remember (enc_string (sig r) ++ payload_body (seq r) (content r)) as pl.
  exists true, (lenN pl), pl. split; [|reflexivity].
  rewrite <- (app_nil_r pl) at 2. rewrite <- (app_nil_r pl) at 3.
  rewrite app_nil_r at 1.
  replace (hdr_encode true (lenN pl) ++ pl) with (hdr_encode true (lenN pl) ++ pl) by reflexivity.
  rewrite app_nil_r.
  apply hdr_decode_encode; [|lia|intros Hf; discriminate].
  unfold encode, enc_list in Hsz. rewrite <- Heqpl in Hsz. rewrite lenN_app in Hsz. unfold MAX_ENR_SIZE in Hsz. pow64. lia.
Qed.

End WithCrypto.
