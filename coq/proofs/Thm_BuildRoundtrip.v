(* Thm_BuildRoundtrip.v — C04 for the builder: every record `build` returns decodes back from its bytes, its text and its
   JSON as itself (the update and decode cases are Thm_Roundtrip.v). The byte condition on the builder's arguments
   (keys and raw values are byte strings) is the only addition to bcall_ok. *)
Require Import EnrProofs.Tactics EnrProofs.BytesLemmas EnrProofs.RlpLemmas EnrProofs.SortedMapLemmas
  EnrProofs.UpdateLemmas EnrProofs.Thm_Valid EnrProofs.Thm_Refine EnrProofs.Thm_Roundtrip.
Require Import Enr.Consts Enr.Rlp Enr.SortedMap Enr.Keccak Enr.Record Enr.Update Enr.Spec Enr.Text.
Open Scope N_scope.

Definition bcall_bytes_ok (b : bcall) : Prop :=
  match b with BVal key _ | BRaw key _ => bytes_ok key | _ => True end.

Section WithCrypto.
Variable c : crypto.
Variable kt : keytype.

Lemma bcall_pair_bytes_ok b : bcall_ok b -> bcall_bytes_ok b -> pair_bytes_ok (bcall_pair b).
Proof.
  destruct (const_keys_bytes_ok) as (Hid & Hip & Hip6 & Htcp & Htcp6 & Hudp & Hudp6 & Hsecp & Hed & Htoy & Hcl).
  destruct b; cbn [bcall_ok bcall_bytes_ok bcall_pair]; intros H Hb; split; cbn [fst snd]; try assumption.
  - destruct H as [Ha Hl]. apply bytes_ok_enc_string; [exact Ha | rewrite Hl; pow64; lia].
  - destruct H as [Ha Hl]. apply bytes_ok_enc_string; [exact Ha | rewrite Hl; pow64; lia].
  - apply bytes_ok_enc_uint; pow64; lia.
  - apply bytes_ok_enc_uint; pow64; lia.
  - apply bytes_ok_enc_uint; pow64; lia.
  - apply bytes_ok_enc_uint; pow64; lia.
  - apply (bytes_ok_enc_tval (TList strs)). exact H.
  - destruct H as [_ Hv]. apply bytes_ok_enc_tval. exact Hv.
  - destruct H as [_ Hv]. exact Hv.
Qed.

Lemma insert_pairs_bytes_ok kvs : forall m, Forall pair_bytes_ok kvs -> Forall pair_bytes_ok m -> Forall pair_bytes_ok (insert_pairs kvs m).
Proof.
  induction kvs as [|[key v] t IH]; intros m Hk Hm; cbn [insert_pairs fold_left]; [exact Hm|].
  inversion Hk; subst. apply IH; [assumption|]. apply sm_insert_Forall; assumption.
Qed.

Theorem build_rec_bytes_ok sq calls k sg r :
  sq < 2 ^ 64 -> Forall bcall_ok calls -> Forall bcall_bytes_ok calls -> key_bytes_ok k -> SignerBytes sg ->
  build c kt sq calls k sg = Ok r -> rec_bytes_ok r.
Proof.
  intros Hsq Hok Hb [Hkb Hkl] Hsb H.
  destruct (build_ok c kt _ _ _ _ _ Hsq H) as (_ & _ & Hcont & _ & _ & Hsig & _).
  destruct (const_keys_bytes_ok) as (Hid & _).
  split; [exact (Hsb _ _ Hsig)|]. rewrite Hcont. unfold with_key. apply sm_insert_Forall.
  - split; cbn [fst snd]; [apply scheme_key_bytes_ok | unfold pub_entry; apply bytes_ok_enc_string; assumption].
  - apply sm_insert_Forall.
    + split; cbn [fst snd]; [exact Hid | vm_compute; repeat constructor].
    + rewrite fold_bcalls. apply insert_pairs_bytes_ok; [|constructor].
      clear H Hcont Hsig. induction calls as [|b t IH]; cbn [map]; [constructor|].
      inversion Hok; subst. inversion Hb; subst. constructor; [apply bcall_pair_bytes_ok; assumption | apply IH; assumption].
Qed.

(* C04, second sentence, for the builder *)
Theorem build_roundtrip sq calls k sg r :
  sq < 2 ^ 64 -> Forall bcall_ok calls -> Forall bcall_bytes_ok calls -> key_bytes_ok k -> KeyOk c kt k -> GoodSigner c k sg ->
  SignerBytes sg -> build c kt sq calls k sg = Ok r ->
  decode c kt (encode r) = Ok (r, []) /\ from_str c kt (to_text r) = Ok r /\ from_json c kt (to_json r) = Some (Ok r).
Proof.
  intros Hsq Hok Hb Hkb Hko Hg Hsb H.
  pose proof (build_valid c kt sq calls k sg r Hsq Hok Hkb Hko Hg H) as Hv.
  pose proof (build_rec_bytes_ok sq calls k sg r Hsq Hok Hb Hkb Hsb H) as Hrb.
  destruct (valid_roundtrip c kt r Hv Hrb) as (H1 & H2 & _ & H4). auto.
Qed.

End WithCrypto.
