(* Thm_Cause.v — C08 / C07: the error kind of a failing update names its exact cause, and the causes
   are ordered; setting the public key to the record's own key succeeds on every Valid record. *)
Require Import EnrProofs.Tactics EnrProofs.BytesLemmas EnrProofs.RlpLemmas EnrProofs.SortedMapLemmas
  EnrProofs.UpdateLemmas EnrProofs.ErrLemmas EnrProofs.RefineLemmas EnrProofs.Thm_Refine.
Require Import Enr.Consts Enr.Rlp Enr.SortedMap Enr.Keccak Enr.Record Enr.Update Enr.Spec.
Require EnrProofs.WellFormedLemmas EnrProofs.Thm_Valid.
Open Scope N_scope.

(* the sequence number the operation asks for *)
Definition new_seq (o : op) (r : record) : N := match o with OSetSeq n => n | _ => seq r + 1 end.
Definition is_set_seq (o : op) : bool := match o with OSetSeq _ => true | _ => false end.

Section WithCrypto.
Variable c : crypto.
Variable kt : keytype.

(* what the signer is asked to sign, and the candidate record it produces *)
Definition to_sign (r : record) (o : op) (k : skey) : bytes :=
  signed_payload_of (new_seq o r) (spec_pairs o k (content r)).
Definition result_with (r : record) (o : op) (k : skey) (s : bytes) : record :=
  cand (new_seq o r) (node_id_of (sk_pub k)) (spec_pairs o k (content r)) s.

Lemma spec_pairs_set_seq n k m : spec_pairs (OSetSeq n) k m = with_key m k.
Proof. reflexivity. Qed.

(* commit fails for exactly one of the listed reasons, each stated with the values the code looks at *)
Lemma commit_err r o k sg e :
  commit c kt r o k sg = Err e ->
  check_keyed_by c kt (spec_pairs o k (content r)) k = Err e \/
  (e = EExceedsMaxSize /\ is_set_seq o = false /\ pre_check o = true /\
     MAX_ENR_SIZE < size (cand (seq r) (nid r) (spec_pairs o k (content r)) (sig r))) \/
  (e = ESequenceNumberTooHigh /\ is_set_seq o = false /\ seq r = U64_MAX) \/
  (e = EUnsupportedIdentityScheme /\ id_is_v4 (cand 0 [] (spec_pairs o k (content r)) []) = false) \/
  (e = ESigningError /\ sg (to_sign r o k) = None) \/
  (e = EExceedsMaxSize /\ exists s, sg (to_sign r o k) = Some s /\ MAX_ENR_SIZE < size (result_with r o k s)).
Proof.
  assert (Hid : forall sq nd m s, id_is_v4 (cand sq nd m s) = false -> id_is_v4 (cand 0 [] m []) = false).
  { intros sq nd m s Hf. exact Hf. }
  unfold to_sign, result_with.
  destruct o; cbn [commit new_seq is_set_seq]; intros Em;
    try (apply finish_err in Em;
         destruct Em as [Hk|[(-> & Hp & Hsz)|[(-> & Hq)|[(-> & Hi)|[(-> & Hs)|(-> & s & Hs & Hsz)]]]]];
         [left; exact Hk
         |right; left; repeat split; auto
         |right; right; left; repeat split; auto
         |right; right; right; left; split; [reflexivity | eapply Hid; exact Hi]
         |right; right; right; right; left; split; [reflexivity | exact Hs]
         |right; right; right; right; right; split; [reflexivity | exists s; split; assumption]]).
  apply set_seq_err in Em. rewrite spec_pairs_set_seq.
  destruct Em as [Hk|[(-> & Hi)|[(-> & Hs)|(-> & s & Hs & Hsz)]]].
  - left; exact Hk.
  - right; right; right; left. split; [reflexivity | eapply Hid; exact Hi].
  - right; right; right; right; left. split; [reflexivity | exact Hs].
  - right; right; right; right; right. split; [reflexivity | exists s; split; assumption].
Qed.

(* C08, last clause, at full strength: the error kind a failing call reports names a cause that really
   holds of THIS call: the signer refused exactly the message the call must have signed; the record that
   exceeds 300 bytes is exactly the candidate the call computed (with the old signature before signing, for
   the operations that check first, or with the signature the signer just returned). *)
Theorem step_err_exact_cause r o k sg e r' :
  step c kt r o k sg = (Err e, r') ->
  match e with
  | ESequenceNumberTooHigh => seq r = U64_MAX /\ is_set_seq o = false
  | ESigningError => sg (to_sign r o k) = None
  | EExceedsMaxSize =>
      (is_set_seq o = false /\ pre_check o = true /\
       MAX_ENR_SIZE < size (cand (seq r) (nid r) (spec_pairs o k (content r)) (sig r))) \/
      (exists s, sg (to_sign r o k) = Some s /\ MAX_ENR_SIZE < size (result_with r o k s))
  | EUnsupportedIdentityScheme =>
      (exists v, In (k_id, v) (checked_inserts o) /\ check_reserved c k_id v = Err EUnsupportedIdentityScheme) \/
      sm_get k_id (spec_pairs o k (content r)) <> Some (enc_string v4)
  | _ =>
      is_rlp_err e = true /\
      ((exists kv, In kv (checked_inserts o) /\ check_reserved c (fst kv) (snd kv) = Err e) \/
       check_keyed_by c kt (spec_pairs o k (content r)) k = Err e)
  end.
Proof.
  unfold step. rewrite apply_op_nf. intros H.
  destruct (check_list c (checked_inserts o)) as [[]|e1|] eqn:Ec; cbn [bind] in H.
  2:{ injection H as He0 _; subst e1. destruct (check_list_err _ _ _ Ec) as ([key v] & Hin & He). cbn [fst snd] in He.
      destruct (check_reserved_err c _ _ _ He) as [Hr|[-> ->]].
      - destruct e; try discriminate; (split; [reflexivity | left; exists (key, v); auto]).
      - left. exists v. auto. }
  2:{ discriminate. }
  destruct (commit c kt r o k sg) as [r1|e1|] eqn:Em; cbn [bind] in H; [discriminate| |discriminate].
  injection H as He0 _; subst e1.
  destruct (commit_err _ _ _ _ _ Em) as [Hk|[(-> & H1 & H2 & H3)|[(-> & H1 & H2)|[(-> & H1)|[(-> & H1)|(-> & H1)]]]]]; auto.
  2:{ right. intros Hg. pose proof (WellFormedLemmas.get_id_is_v4 (cand 0 [] (spec_pairs o k (content r)) []) Hg). congruence. }
  pose proof (check_keyed_by_err c kt _ _ _ Hk) as Hr.
  destruct e; try discriminate; (split; [reflexivity | right; exact Hk]).
Qed.

(* C07: at 2^64-1 a content update whose written values are well-typed, whose resulting pairs are keyed by
   the signer and (for the operations that check the size first) fit with the old signature, fails with the
   sequence-number error — not with a later one, and not silently *)
Theorem step_at_max_reports_seq r o k sg :
  seq r = U64_MAX -> is_set_seq o = false ->
  check_list c (checked_inserts o) = Ok tt ->
  check_keyed_by c kt (spec_pairs o k (content r)) k = Ok tt ->
  (pre_check o = true -> size (cand (seq r) (nid r) (spec_pairs o k (content r)) (sig r)) <= MAX_ENR_SIZE) ->
  step c kt r o k sg = (Err ESequenceNumberTooHigh, r).
Proof.
  intros Hmax Hset Hc Hk Hsz. unfold step. rewrite apply_op_nf, Hc. cbn [bind].
  assert (Hf : finish c kt (pre_check o) r (spec_pairs o k (content r)) k sg = Err ESequenceNumberTooHigh).
  { unfold finish. rewrite Hk. cbn [bind].
    replace (pre_check o && (MAX_ENR_SIZE <? size {| seq := seq r; nid := nid r; content := spec_pairs o k (content r); sig := sig r |}))
      with false.
    2:{ destruct (pre_check o); [cbn [andb]; specialize (Hsz eq_refl); unfold cand in Hsz; lia | reflexivity]. }
    cbn [bind]. unfold checked_succ. replace (seq r =? U64_MAX) with true by lia. reflexivity. }
  destruct o; cbn [is_set_seq] in Hset; try discriminate; cbn [commit]; rewrite Hf; reflexivity.
Qed.

(* the earlier causes win: an ill-typed written value is reported even at 2^64-1 *)
Theorem step_illtyped_first r o k sg e :
  check_list c (checked_inserts o) = Err e -> step c kt r o k sg = (Err e, r).
Proof. intros Hc. unfold step. rewrite apply_op_nf, Hc. reflexivity. Qed.

(* C08: "setting the public key to the signer's own key succeeds" — on every Valid record that stores the
   signer's key (in the form the library writes it), under the generic conditions of any update only: the
   library's own validator accepts the key, the sequence number is not exhausted, the signer signs, the result
   fits. The pairs are unchanged. *)
Theorem set_public_key_own_valid r k sg s :
  Valid c kt r ->
  sm_get (pub_key_name k) (content r) = Some (pub_entry k) ->
  check_keyed_by c kt (content r) k = Ok tt ->
  check_reserved c (pub_key_name k) (pub_entry k) = Ok tt ->
  seq r <> U64_MAX ->
  sg (signed_payload_of (seq r + 1) (content r)) = Some s ->
  size (cand (seq r + 1) (node_id_of (sk_pub k)) (content r) s) <= MAX_ENR_SIZE ->
  step c kt r (OSetPublicKey (sk_pub k)) k sg = (Ok RUnit, cand (seq r + 1) (node_id_of (sk_pub k)) (content r) s).
Proof.
  intros Hv Hg Hk Hchk Hseq Hsg Hsz.
  destruct (Thm_Valid.valid_content c kt r Hv) as (Hs & Hall & _).
  destruct (Thm_Valid.valid_observables c kt r Hv) as (pk & _ & _ & Hid & _ & Hsize & _ & _).
  apply set_public_key_own_ok; auto.
  unfold id_is_v4. rewrite Hid. apply bytes_eqb_refl.
Qed.

(* C09: set_seq is refused for size exactly when the record with the requested number and the new signature
   exceeds 300 bytes (no condition on signature lengths: set_seq has a single size check, after signing) *)
Lemma set_seq_outcome r n k sg s :
  check_keyed_by c kt (with_key (content r) k) k = Ok tt ->
  sm_get k_id (with_key (content r) k) = Some (enc_string v4) ->
  sg (signed_payload_of n (with_key (content r) k)) = Some s ->
  step c kt r (OSetSeq n) k sg =
  if MAX_ENR_SIZE <? size (cand n (node_id_of (sk_pub k)) (with_key (content r) k) s)
  then (Err EExceedsMaxSize, r) else (Ok RUnit, cand n (node_id_of (sk_pub k)) (with_key (content r) k) s).
Proof.
  intros Hk Hid Hs.
  pose proof (WellFormedLemmas.get_id_is_v4 (cand n (nid r) (with_key (content r) k) (sig r)) Hid) as Hid4.
  unfold step. rewrite apply_op_nf. cbn [checked_inserts unchecked_op inserts check_list bind commit].
  unfold set_seq. rewrite Hk. cbn [bind]. unfold compute_signature, signed_payload. cbn [seq content].
  unfold cand in Hid4. rewrite Hid4, Hs. cbn [bind]. unfold cand.
  destruct (MAX_ENR_SIZE <? size {| seq := n; nid := node_id_of (sk_pub k); content := with_key (content r) k; sig := s |});
    reflexivity.
Qed.

Theorem set_seq_refused_iff r n k sg s :
  check_keyed_by c kt (with_key (content r) k) k = Ok tt ->
  sm_get k_id (with_key (content r) k) = Some (enc_string v4) ->
  sg (signed_payload_of n (with_key (content r) k)) = Some s ->
  (fst (step c kt r (OSetSeq n) k sg) = Err EExceedsMaxSize <->
   MAX_ENR_SIZE < size (cand n (node_id_of (sk_pub k)) (with_key (content r) k) s)).
Proof.
  intros Hk Hid Hs. rewrite (set_seq_outcome r n k sg s Hk Hid Hs).
  destruct (MAX_ENR_SIZE <? _) eqn:E; cbn [fst]; split; intros H; try discriminate; try reflexivity; lia.
Qed.

(* ---- the causes that hold of a call whatever the order in which the code looks for them ---- *)
Definition err_of {A} (x : res A) : list err := match x with Err e => [e] | _ => [] end.

(* every cause of failure that can be decided before signing: an ill-typed written value (any of them), a result not
   keyed by the signer, the size limit already exceeded with the old signature (operations that check first), the
   sequence number exhausted, the identity scheme missing from the result *)
Definition presign_causes (r : record) (o : op) (k : skey) : list err :=
  let m := spec_pairs o k (content r) in
  flat_map (fun kv => err_of (check_reserved c (fst kv) (snd kv))) (checked_inserts o) ++
  err_of (check_keyed_by c kt m k) ++
  (if negb (is_set_seq o) && pre_check o && (MAX_ENR_SIZE <? size (cand (seq r) (nid r) m (sig r))) then [EExceedsMaxSize] else []) ++
  (if negb (is_set_seq o) && (seq r =? U64_MAX) then [ESequenceNumberTooHigh] else []) ++
  (if id_is_v4 (cand 0 [] m []) then [] else [EUnsupportedIdentityScheme]).

Lemma check_list_err_in kvs e : check_list c kvs = Err e ->
  In e (flat_map (fun kv => err_of (check_reserved c (fst kv) (snd kv))) kvs).
Proof.
  intros H. destruct (check_list_err _ _ _ H) as (kv & Hin & He). apply in_flat_map. exists kv. split; [exact Hin|].
  rewrite He. left. reflexivity.
Qed.

Lemma id_is_v4_cand sq nd m s sq' nd' s' : id_is_v4 (cand sq nd m s) = id_is_v4 (cand sq' nd' m s').
Proof. reflexivity. Qed.

(* whatever order an implementation checks in: the error the model reports is one of the causes that hold of the call
   before signing, or the signer refused, or the signed result is too large *)
Theorem step_err_is_a_cause r o k sg e r' :
  step c kt r o k sg = (Err e, r') ->
  In e (presign_causes r o k) \/
  (e = ESigningError /\ sg (to_sign r o k) = None) \/
  (e = EExceedsMaxSize /\ exists s, sg (to_sign r o k) = Some s /\ MAX_ENR_SIZE < size (result_with r o k s)).
Proof.
  unfold step. rewrite apply_op_nf. intros H. unfold presign_causes. cbv zeta.
  destruct (check_list c (checked_inserts o)) as [[]|e1|] eqn:Ec; cbn [bind] in H.
  2:{ injection H as He0 _; subst e1. left. apply in_or_app. left. apply check_list_err_in. exact Ec. }
  2:{ discriminate. }
  destruct (commit c kt r o k sg) as [r1|e1|] eqn:Em; cbn [bind] in H; [discriminate| |discriminate].
  injection H as He0 _; subst e1.
  destruct (commit_err _ _ _ _ _ Em) as [Hk|[(-> & H1 & H2 & H3)|[(-> & H1 & H2)|[(-> & H1)|[(-> & H1)|(-> & H1)]]]]].
  - left. apply in_or_app. right. apply in_or_app. left. rewrite Hk. left. reflexivity.
  - left. apply in_or_app. right. apply in_or_app. right. apply in_or_app. left.
    rewrite H1, H2. replace (MAX_ENR_SIZE <? _) with true by (symmetry; apply N.ltb_lt; exact H3). left. reflexivity.
  - left. do 3 (apply in_or_app; right). apply in_or_app. left. rewrite H1. replace (seq r =? U64_MAX) with true by (symmetry; apply N.eqb_eq; exact H2).
    left. reflexivity.
  - left. do 4 (apply in_or_app; right). rewrite H1. left. reflexivity.
  - right. left. auto.
  - right. right. auto.
Qed.

End WithCrypto.
