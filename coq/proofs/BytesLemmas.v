(* BytesLemmas.v — big-endian digits: be_val / be_trim are mutually inverse on canonical digit strings. *)
Require Import EnrProofs.Tactics.
Open Scope N_scope.

Lemma be_val_acc_app a b c : be_val_acc a (b ++ c) = be_val_acc (be_val_acc a b) c.
Proof. revert a; induction b as [|x b IH]; intros a; cbn [be_val_acc app]; auto. Qed.

Lemma be_trim_fuel_val fuel : forall n acc, n < 2 ^ (8 * N.of_nat fuel) ->
  be_val_acc 0 (be_trim_fuel fuel n acc) = be_val_acc n acc.
Proof.
  induction fuel as [|f IH]; intros n acc Hn.
  - cbn [be_trim_fuel]. replace n with 0 by (cbn in Hn; lia). reflexivity.
  - cbn [be_trim_fuel]. destruct (n =? 0) eqn:E.
    + apply N.eqb_eq in E; subst; reflexivity.
    + rewrite IH.
      * cbn [be_val_acc]. f_equal. pose proof (N.div_mod n 256). lia.
      * replace (8 * N.of_nat (S f)) with (8 + 8 * N.of_nat f) in Hn by lia.
        rewrite N.pow_add_r in Hn. change (2^8) with 256 in Hn.
        apply N.div_lt_upper_bound; lia.
Qed.

Lemma size_bound n : n < 2 ^ (8 * N.of_nat (N.to_nat (N.size n))).
Proof.
  rewrite N2Nat.id. destruct (N.eq_dec n 0) as [->|Hn]; [cbn; lia|].
  pose proof (N.size_gt n) as H. eapply N.lt_le_trans; [exact H|].
  apply N.pow_le_mono_r; lia.
Qed.

Lemma be_val_trim n : be_val (be_trim n) = n.
Proof. unfold be_val, be_trim. rewrite be_trim_fuel_val by apply size_bound. reflexivity. Qed.

Lemma be_trim_fuel_acc fuel : forall n acc, be_trim_fuel fuel n acc = be_trim_fuel fuel n [] ++ acc.
Proof.
  induction fuel as [|f IH]; intros n acc; cbn [be_trim_fuel]; [reflexivity|].
  destruct (n =? 0); [reflexivity|]. rewrite IH. rewrite (IH _ [n mod 256]). rewrite <- app_assoc. reflexivity.
Qed.

Lemma be_val_acc_lin a b : be_val_acc a b = a * 256 ^ lenN b + be_val b.
Proof.
  unfold be_val, lenN. revert a; induction b as [|x b IH]; intros a; cbn [be_val_acc length].
  - change (N.of_nat 0) with 0. rewrite N.pow_0_r. lia.
  - rewrite IH. rewrite (IH (0 * 256 + x)). rewrite Nat2N.inj_succ, N.pow_succ_r'. lia.
Qed.

Lemma be_val_cons x b : be_val (x :: b) = x * 256 ^ lenN b + be_val b.
Proof. unfold be_val at 1. cbn [be_val_acc]. rewrite be_val_acc_lin. replace (0 * 256 + x) with x by lia. reflexivity. Qed.

Lemma be_val_bound b : bytes_ok b -> be_val b < 256 ^ lenN b.
Proof.
  induction 1 as [|x b Hx Hb IH].
  - cbn. lia.
  - rewrite be_val_cons, lenN_cons. replace (1 + lenN b) with (N.succ (lenN b)) by lia.
    rewrite N.pow_succ_r'. nia.
Qed.

Lemma be_val_lower x b : x <> 0 -> 256 ^ lenN b <= be_val (x :: b).
Proof. intros Hx. rewrite be_val_cons. nia. Qed.

Lemma be_trim_fuel_snoc fuel : forall n, n <> 0 ->
  be_trim_fuel (S fuel) n [] = be_trim_fuel fuel (n / 256) [] ++ [n mod 256].
Proof.
  intros n Hn. cbn [be_trim_fuel]. destruct (n =? 0) eqn:E; [lia|].
  rewrite be_trim_fuel_acc. reflexivity.
Qed.

Lemma be_trim_fuel_enough f : forall g n, n < 256 ^ N.of_nat f -> n < 256 ^ N.of_nat g ->
  be_trim_fuel f n [] = be_trim_fuel g n [].
Proof.
  induction f as [|f IH]; intros g n Hf Hg.
  - cbn in Hf. assert (n = 0) by lia. subst. destruct g; cbn [be_trim_fuel]; reflexivity.
  - destruct g as [|g].
    + cbn in Hg. assert (n = 0) by lia. subst. reflexivity.
    + cbn [be_trim_fuel]. destruct (n =? 0) eqn:E; [reflexivity|].
      rewrite (be_trim_fuel_acc f), (be_trim_fuel_acc g). f_equal.
      rewrite Nat2N.inj_succ, N.pow_succ_r' in Hf, Hg.
      apply IH; apply N.div_lt_upper_bound; lia.
Qed.

Lemma size_bound256 n : n < 256 ^ N.of_nat (N.to_nat (N.size n)).
Proof.
  pose proof (size_bound n) as H. rewrite N.pow_mul_r in H. exact H.
Qed.

(* trimmed digits with explicit, sufficient fuel *)
Lemma be_trim_with_fuel n f : n < 256 ^ N.of_nat f -> be_trim n = be_trim_fuel f n [].
Proof. intros H. unfold be_trim. apply be_trim_fuel_enough; [apply size_bound256 | exact H]. Qed.

Lemma be_trim_digits : forall (b : bytes) x, bytes_ok (x :: b) -> x <> 0 ->
  be_trim (be_val (x :: b)) = x :: b.
Proof.
  intros b. induction b as [|y b IH] using rev_ind; intros x Hok Hx.
  - apply bytes_ok_cons in Hok. destruct Hok as [Hx256 _].
    rewrite be_val_cons. cbn [lenN length N.of_nat]. change (be_val []) with 0.
    replace (x * 256 ^ 0 + 0) with x by (cbn; lia).
    rewrite (be_trim_with_fuel x 1) by (cbn; lia).
    cbn [be_trim_fuel]. destruct (x =? 0) eqn:E; [lia|].
    replace (x / 256) with 0 by lia. replace (x mod 256) with x by lia. reflexivity.
  - assert (Hok' : bytes_ok (x :: b) /\ y < 256).
    { rewrite app_comm_cons in Hok. apply bytes_ok_app in Hok. destruct Hok as [H1 H2].
      apply bytes_ok_cons in H2. tauto. }
    destruct Hok' as [Hok' Hy].
    remember (be_val (x :: b)) as v eqn:Ev.
    assert (Hv : be_val (x :: b ++ [y]) = v * 256 + y).
    { unfold be_val in *. rewrite app_comm_cons, be_val_acc_app. rewrite <- Ev. reflexivity. }
    rewrite Hv.
    assert (Hvpos : v <> 0).
    { pose proof (be_val_lower x b Hx) as Hl. rewrite <- Ev in Hl.
      assert (256 ^ lenN b <> 0) by (apply N.pow_nonzero; lia). lia. }
    pose proof (be_val_bound (x :: b) Hok') as Hb. rewrite <- Ev in Hb.
    remember (length (x :: b)) as L eqn:EL.
    assert (HbL : v < 256 ^ N.of_nat L) by (unfold lenN in Hb; rewrite <- EL in Hb; exact Hb).
    assert (Hb2 : v * 256 + y < 256 ^ N.of_nat (S L)).
    { rewrite Nat2N.inj_succ, N.pow_succ_r'. lia. }
    rewrite (be_trim_with_fuel _ (S L) Hb2).
    rewrite be_trim_fuel_snoc by lia.
    replace ((v * 256 + y) / 256) with v by lia.
    replace ((v * 256 + y) mod 256) with y by lia.
    specialize (IH x Hok' Hx). rewrite <- Ev in IH.
    rewrite (be_trim_with_fuel v L HbL) in IH. rewrite IH. reflexivity.
Qed.

Lemma be_trim_zero : be_trim 0 = [].
Proof. reflexivity. Qed.

(* the trimmed digits of a non-zero number: non-empty, no leading zero, all below 256 *)
Lemma be_trim_fuel_ok fuel : forall n acc, bytes_ok acc -> bytes_ok (be_trim_fuel fuel n acc).
Proof.
  induction fuel as [|f IH]; intros n acc H; cbn [be_trim_fuel]; auto.
  destruct (n =? 0); auto. apply IH. apply bytes_ok_cons. split; [lia | auto].
Qed.
Lemma be_trim_ok n : bytes_ok (be_trim n).
Proof. apply be_trim_fuel_ok. constructor. Qed.

Lemma be_trim_fuel_head fuel : forall n, n <> 0 -> n < 256 ^ N.of_nat fuel ->
  exists x t, be_trim_fuel fuel n [] = x :: t /\ x <> 0.
Proof.
  induction fuel as [|f IH]; intros n Hn Hb.
  - cbn in Hb. lia.
  - rewrite be_trim_fuel_snoc by exact Hn.
    destruct (N.eq_dec (n / 256) 0) as [E|E].
    + rewrite E. assert (be_trim_fuel f 0 [] = []) as -> by (destruct f; reflexivity).
      cbn [app]. exists (n mod 256), []. split; [reflexivity | lia].
    + rewrite Nat2N.inj_succ, N.pow_succ_r' in Hb.
      destruct (IH (n / 256) E) as (x & t & Ht & Hx); [apply N.div_lt_upper_bound; lia|].
      rewrite Ht. cbn [app]. exists x, (t ++ [n mod 256]). auto.
Qed.

Lemma be_trim_head n : n <> 0 -> exists x t, be_trim n = x :: t /\ x <> 0.
Proof. intros Hn. apply be_trim_fuel_head; [exact Hn | apply size_bound256]. Qed.

(* number of digits *)
Lemma be_trim_len_le n k : n < 256 ^ k -> lenN (be_trim n) <= k.
Proof.
  intros H. destruct (N.eq_dec n 0) as [->|Hn]; [cbn; lia|].
  destruct (be_trim_head n Hn) as (x & t & Ht & Hx).
  pose proof (be_val_trim n) as Hv. rewrite Ht in Hv.
  pose proof (be_val_lower x t Hx) as Hl. rewrite Hv in Hl.
  rewrite Ht, lenN_cons.
  destruct (N.le_gt_cases (1 + lenN t) k) as [|Hgt]; [assumption|].
  assert (256 ^ k <= 256 ^ lenN t) by (apply N.pow_le_mono_r; lia). lia.
Qed.
