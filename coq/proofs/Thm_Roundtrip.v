(* Thm_Roundtrip.v — C04: every record the library returns (from decode, builder, any history of
   updates) encodes to bytes, text and JSON that decode back to the same record. *)
Require Import EnrProofs.Tactics EnrProofs.BytesLemmas EnrProofs.RlpLemmas EnrProofs.DecodeLemmas
  EnrProofs.SortedMapLemmas EnrProofs.WellFormedLemmas EnrProofs.UpdateLemmas EnrProofs.RefineLemmas
  EnrProofs.Thm_Decode EnrProofs.Thm_Text EnrProofs.Thm_Valid EnrProofs.Thm_Refine.
Require Import Enr.Consts Enr.Rlp Enr.SortedMap Enr.Keccak Enr.Record Enr.Update Enr.Text Enr.Spec.
Open Scope N_scope.

(* ---- the encoding of a record made of bytes is made of bytes, and conversely ---- *)
Lemma bytes_ok_enc_string_inv s : bytes_ok (enc_string s) -> bytes_ok s.
Proof.
  unfold enc_string. destruct s as [|x [|y t]]; intros H.
  - constructor.
  - destruct (x <? 128); [exact H | apply bytes_ok_app in H; tauto].
  - apply bytes_ok_app in H. tauto.
Qed.

Lemma flat_pairs_bytes_ok m : Forall pair_ok m -> Forall pair_bytes_ok m -> bytes_ok (flat_map enc_pair m).
Proof.
  induction m as [|[k v] t IH]; intros Hp Hb; cbn [flat_map]; [constructor|].
  inversion Hp as [|? ? [Hl _] Hp']; subst. inversion Hb as [|? ? [Hk Hv] Hb']; subst. cbn [fst snd] in *.
  unfold enc_pair. cbn [fst snd]. rewrite <- app_assoc. apply bytes_ok_app. split; [apply bytes_ok_enc_string; assumption|].
  apply bytes_ok_app. split; [exact Hv | apply IH; assumption].
Qed.

Lemma flat_pairs_bytes_ok_inv m : bytes_ok (flat_map enc_pair m) -> Forall pair_bytes_ok m.
Proof.
  induction m as [|[k v] t IH]; cbn [flat_map]; intros H; [constructor|].
  unfold enc_pair in H. cbn [fst snd] in H. rewrite <- app_assoc in H.
  apply bytes_ok_app in H. destruct H as [H1 H]. apply bytes_ok_app in H. destruct H as [H2 H3].
  constructor; [split; [apply bytes_ok_enc_string_inv; exact H1 | exact H2] | apply IH; exact H3].
Qed.

Section WithCrypto.
Variable c : crypto.
Variable kt : keytype.

Lemma valid_encode_bytes_ok r : Valid c kt r -> rec_bytes_ok r -> bytes_ok (encode r).
Proof.
  intros (pk & (_ & Hsz & Hq & _ & Hall & _) & _) [Hs Hc].
  assert (Hlen : lenN (enc_string (sig r) ++ payload_body (seq r) (content r)) < 2 ^ 64).
  { unfold encode, enc_list in Hsz. rewrite lenN_app in Hsz. pow64. lia. }
  unfold encode. apply bytes_ok_enc_list; [|exact Hlen].
  apply bytes_ok_app. split.
  - apply bytes_ok_enc_string; [exact Hs|]. pose proof (lenN_enc_string_ge (sig r)). rewrite lenN_app in Hlen. pow64. lia.
  - unfold payload_body. apply bytes_ok_app. split; [apply bytes_ok_enc_uint; exact Hq | apply flat_pairs_bytes_ok; assumption].
Qed.

Lemma encode_bytes_ok_inv r : bytes_ok (encode r) -> rec_bytes_ok r.
Proof.
  unfold encode, enc_list, payload_body. intros H. apply bytes_ok_app in H. destruct H as [_ H].
  apply bytes_ok_app in H. destruct H as [H1 H]. apply bytes_ok_app in H. destruct H as [_ H2].
  split; [apply bytes_ok_enc_string_inv; exact H1 | apply flat_pairs_bytes_ok_inv; exact H2].
Qed.

Lemma decode_rec_bytes_ok b r rest : bytes_ok b -> decode c kt b = Ok (r, rest) -> rec_bytes_ok r.
Proof.
  intros Hok H. apply encode_bytes_ok_inv. rewrite (decode_canonical c kt b r rest Hok H) in Hok.
  apply bytes_ok_app in Hok. tauto.
Qed.

(* ---- preservation of the byte condition by updates and the builder ---- *)
Lemma const_keys_bytes_ok :
  bytes_ok k_id /\ bytes_ok k_ip /\ bytes_ok k_ip6 /\ bytes_ok k_tcp /\ bytes_ok k_tcp6 /\ bytes_ok k_udp /\ bytes_ok k_udp6 /\
  bytes_ok k_secp /\ bytes_ok k_ed /\ bytes_ok k_toy /\ bytes_ok k_client.
Proof. unfold bytes_ok. repeat split; apply Forall_forall; intros x Hx; vm_compute in Hx; repeat (destruct Hx as [<-|Hx]; [reflexivity|]); destruct Hx. Qed.

Lemma scheme_key_bytes_ok s : bytes_ok (scheme_key s).
Proof. destruct const_keys_bytes_ok as (_ & _ & _ & _ & _ & _ & _ & H1 & H2 & H3 & _). destruct s; assumption. Qed.

Lemma inserts_bytes_ok o : op_ok o -> Forall pair_bytes_ok (inserts o).
Proof.
  destruct const_keys_bytes_ok as (Hid & Hip & Hip6 & Htcp & Htcp6 & Hudp & Hudp6 & Hsecp & Hed & Htoy & Hcl).
  assert (Hipk : forall a, bytes_ok (ip_key a)) by (intros a; unfold ip_key; destruct (_ =? 4); assumption).
  assert (Hudpk : forall a, bytes_ok (udp_key a)) by (intros a; unfold udp_key; destruct (_ =? 4); assumption).
  assert (Htcpk : forall a, bytes_ok (tcp_key a)) by (intros a; unfold tcp_key; destruct (_ =? 4); assumption).
  assert (Ha64 : forall a : bytes, lenN a = 4 \/ lenN a = 16 -> lenN a < 2 ^ 64) by (intros a [-> | ->]; pow64; lia).
  destruct o; cbn [op_ok inserts]; intros H; unfold pair_bytes_ok; try (constructor; fail).
  - destruct H as (Hk & Hl & Hv). constructor; [|constructor]. cbn [fst snd]. split; [exact Hk | apply bytes_ok_enc_tval; exact Hv].
  - destruct H as (Hk & Hl & Hv). constructor; [|constructor]. cbn [fst snd]. auto.
  - destruct H as (Ha & Hl). constructor; [|constructor]. cbn [fst snd]. split; [apply Hipk | apply bytes_ok_enc_string; auto].
  - constructor; [|constructor]. cbn [fst snd]. split; [assumption | apply bytes_ok_enc_uint; pow64; lia].
  - constructor; [|constructor]. cbn [fst snd]. split; [assumption | apply bytes_ok_enc_uint; pow64; lia].
  - constructor; [|constructor]. cbn [fst snd]. split; [assumption | apply bytes_ok_enc_uint; pow64; lia].
  - constructor; [|constructor]. cbn [fst snd]. split; [assumption | apply bytes_ok_enc_uint; pow64; lia].
  - constructor; [|constructor]. cbn [fst snd]. split; [assumption | apply (bytes_ok_enc_tval (TList strs)); exact H].
  - destruct H as (Ha & Hl & Hp). constructor; [|constructor; [|constructor]]; cbn [fst snd].
    + split; [apply Hipk | apply bytes_ok_enc_string; auto].
    + split; [apply Hudpk | apply bytes_ok_enc_uint; pow64; lia].
  - destruct H as (Ha & Hl & Hp). constructor; [|constructor; [|constructor]]; cbn [fst snd].
    + split; [apply Hipk | apply bytes_ok_enc_string; auto].
    + split; [apply Htcpk | apply bytes_ok_enc_uint; pow64; lia].
  - induction ins as [|[key raw] t IH]; cbn [map]; [constructor|].
    inversion H as [|? ? (H1 & H2 & H3 & H4) Ht]; subst. cbn [fst snd] in *. constructor; [|apply IH; exact Ht].
    cbn [fst snd]. split; [exact H1 | apply bytes_ok_enc_string; assumption].
  - destruct H as [Hb Hl]. constructor; [|constructor]. cbn [fst snd].
    split; [apply scheme_key_bytes_ok | apply bytes_ok_enc_string; assumption].
Qed.

Lemma spec_pairs_bytes_ok o k m :
  op_ok o -> key_bytes_ok k -> Forall pair_bytes_ok m -> Forall pair_bytes_ok (spec_pairs o k m).
Proof.
  intros Hop [Hkb Hkl] Hm. unfold spec_pairs, with_key. apply sm_insert_Forall.
  - split; cbn [fst snd]; [apply scheme_key_bytes_ok | unfold pub_entry; apply bytes_ok_enc_string; assumption].
  - pose proof (inserts_bytes_ok o Hop) as Hi. revert Hi. generalize (inserts o). intros kvs Hi.
    assert (Hr : Forall pair_bytes_ok (remove_keys (removes o) m)).
    { generalize (removes o). intros keys. revert m Hm. induction keys as [|key t IH]; intros m Hm; cbn [remove_keys fold_left]; [exact Hm|].
      apply IH. apply sm_remove_Forall. exact Hm. }
    revert Hr. generalize (remove_keys (removes o) m). intros m0 Hm0. revert m0 Hm0.
    induction kvs as [|[key v] t IH]; intros m0 Hm0; cbn [insert_pairs fold_left]; [exact Hm0|].
    inversion Hi; subst. apply IH; [assumption|]. apply sm_insert_Forall; assumption.
Qed.

Theorem step_bytes_ok r o k sg :
  seq r < 2 ^ 64 -> rec_bytes_ok r -> op_ok o -> key_bytes_ok k -> SignerBytes sg ->
  rec_bytes_ok (snd (step c kt r o k sg)).
Proof.
  intros Hs [Hsig Hc] Hop Hkb Hsb. unfold step.
  destruct (apply_op c kt r o k sg) as [[x r1]|e|] eqn:E; cbn [snd]; try (split; assumption).
  assert (Hn : forall n, o = OSetSeq n -> n < 2 ^ 64) by (intros n ->; exact Hop).
  destruct (apply_op_ok c kt _ _ _ _ _ _ Hs Hn E) as [Hcm _].
  destruct (apply_op_spec c kt _ _ _ _ _ _ Hs Hn E) as (Hcont & _ & _).
  split; [apply (Hsb _ _ (cm_sig _ _ _ _ _ Hcm)) | rewrite Hcont; apply spec_pairs_bytes_ok; assumption].
Qed.

(* ---- the round trips ---- *)
Lemma b64_plain x : forallb plain_json_char (b64_encode x) = true.
Proof.
  assert (Hc : forall v, plain_json_char (b64_char v) = true).
  { intros v. unfold plain_json_char, b64_char.
    destruct (v <? 26) eqn:E1; [apply andb_true_iff; split; [apply andb_true_iff; split|]; lia|].
    destruct (v <? 52) eqn:E2; [apply andb_true_iff; split; [apply andb_true_iff; split|]; lia|].
    destruct (v <? 62) eqn:E3; [apply andb_true_iff; split; [apply andb_true_iff; split|]; lia|].
    destruct (v =? 62); reflexivity. }
  induction x as [|a|a b|a b d t IH] using list_ind3; cbn [b64_encode forallb]; rewrite ?Hc; cbn [andb]; auto.
Qed.

Lemma valid_len3 r : Valid c kt r -> 3 <= lenN (encode r).
Proof.
  intros _. unfold encode, enc_list. rewrite !lenN_app.
  pose proof (enc_string_nonempty (sig r)). unfold payload_body. rewrite lenN_app.
  assert (1 <= lenN (enc_string (sig r))) by (destruct (enc_string (sig r)); [congruence | rewrite lenN_cons; lia]).
  assert (1 <= lenN (enc_uint (seq r))).
  { unfold enc_uint. pose proof (enc_string_nonempty (be_trim (seq r))) as Hne. destruct (enc_string (be_trim (seq r))); [congruence | rewrite lenN_cons; lia]. }
  assert (1 <= lenN (hdr_encode true (lenN (enc_string (sig r)) + (lenN (enc_uint (seq r)) + lenN (flat_map enc_pair (content r)))))).
  { unfold hdr_encode. destruct (_ <? 56); [cbn; lia | rewrite lenN_cons; lia]. }
  lia.
Qed.

Theorem valid_roundtrip r :
  Valid c kt r -> rec_bytes_ok r ->
  decode c kt (encode r) = Ok (r, []) /\
  from_str c kt (to_text r) = Ok r /\
  from_str c kt (b64_encode (encode r)) = Ok r /\
  from_json c kt (to_json r) = Some (Ok r).
Proof.
  intros Hv Hb. pose proof (valid_redecodes c kt r [] Hv) as Hd. rewrite app_nil_r in Hd.
  pose proof (valid_encode_bytes_ok r Hv Hb) as Hok.
  destruct (from_str_accepts c kt r Hok Hd) as [H1 H2]. specialize (H2 (valid_len3 r Hv)).
  repeat split; auto.
  unfold to_json. rewrite from_json_plain; [rewrite H1; reflexivity|].
  unfold to_text. rewrite forallb_app. rewrite b64_plain. reflexivity.
Qed.

(* along every history *)
Definition call_ok_b (x : op * skey * signer) : Prop := call_ok c kt x /\ SignerBytes (snd x).

Theorem history_roundtrip h : forall r,
  Valid c kt r -> rec_bytes_ok r -> Forall call_ok_b h ->
  Valid c kt (run c kt r h) /\ rec_bytes_ok (run c kt r h).
Proof.
  induction h as [|[[o k] sg] t IH]; intros r Hv Hb Hall; cbn [run]; [auto|].
  inversion Hall as [|? ? [Hc Hsb] Ht]; subst. cbn [snd] in Hsb.
  change (op_ok o /\ key_bytes_ok k /\ KeyOk c kt k /\ GoodSigner c k sg) in Hc. destruct Hc as (Hop & Hkb & Hkey & Hsg).
  apply IH; [apply step_valid_any; assumption | | exact Ht].
  apply step_bytes_ok; try assumption. apply (valid_content c kt r Hv).
Qed.

End WithCrypto.
