(* Thm_Forgery.v — C01, "every alteration is rejected", made precise: two different accepted inputs carry two
   different (sequence number, pairs, signature) triples, each of which verifies under the key carried in its own
   pairs. So an altered copy of a signed record is accepted only if the alteration itself carries a valid
   signature for its own content: a forgery (or a re-signing by the holder of the key in the altered pairs). *)
Require Import EnrProofs.Tactics EnrProofs.BytesLemmas EnrProofs.RlpLemmas EnrProofs.DecodeLemmas EnrProofs.Thm_Decode.
Require Import Enr.Consts Enr.Rlp Enr.SortedMap Enr.Keccak Enr.Record.
Open Scope N_scope.

Section WithCrypto.
Variable c : crypto.

Definition triple (r : record) : N * smap * bytes := (seq r, content r, sig r).

Lemma encode_of_triple r1 r2 : triple r1 = triple r2 -> encode r1 = encode r2.
Proof. unfold triple, encode. intros H. inv H. congruence. Qed.

Theorem accepted_inputs_differ_in_triple kt b1 b2 r1 r2 rest :
  bytes_ok b1 -> bytes_ok b2 ->
  decode c kt b1 = Ok (r1, rest) -> decode c kt b2 = Ok (r2, rest) ->
  b1 <> b2 -> triple r1 <> triple r2.
Proof.
  intros H1 H2 D1 D2 Hne Ht. apply Hne.
  rewrite (decode_canonical c kt _ _ _ H1 D1), (decode_canonical c kt _ _ _ H2 D2), (encode_of_triple _ _ Ht). reflexivity.
Qed.

(* the altered input, if accepted, brings its own valid (key, content, signature): nothing of the original's
   signature carries over unless the signed message is byte-for-byte the same *)
Theorem alteration_accepted_only_as_forgery kt b1 b2 r1 r2 rest :
  bytes_ok b1 -> bytes_ok b2 ->
  decode c kt b1 = Ok (r1, rest) -> decode c kt b2 = Ok (r2, rest) -> b1 <> b2 ->
  exists pk2, enr_to_public c kt (content r2) = Ok pk2 /\
              verify_v4 c pk2 (signed_payload r2) (sig r2) = true /\
              (signed_payload r2 <> signed_payload r1 \/ sig r2 <> sig r1).
Proof.
  intros H1 H2 D1 D2 Hne.
  destruct (decode_authentic c kt b2 r2 rest H2 D2) as (pk2 & Hp & _ & Hv).
  exists pk2. split; [exact Hp|]. split; [exact Hv|].
  destruct (bytes_eqb (sig r2) (sig r1)) eqn:Es; [|right; apply bytes_eqb_neq; exact Es].
  left. intros Hp2. apply Hne.
  apply bytes_eqb_eq in Es.
  rewrite (decode_canonical c kt _ _ _ H1 D1), (decode_canonical c kt _ _ _ H2 D2).
  f_equal. unfold encode. unfold signed_payload, signed_payload_of in Hp2.
  (* equal content lists and equal signatures give equal encodings *)
  assert (Hb : payload_body (seq r2) (content r2) = payload_body (seq r1) (content r1)).
  { destruct (decode_shape c kt b1 r1 rest H1 D1) as (_ & S1 & _). destruct (decode_shape c kt b2 r2 rest H2 D2) as (_ & S2 & _).
    unfold encode, enc_list in S1, S2. rewrite !lenN_app in S1, S2. unfold MAX_ENR_SIZE in *.
    assert (L1 : lenN (payload_body (seq r1) (content r1)) < 2 ^ 64) by (pow64; lia).
    assert (L2 : lenN (payload_body (seq r2) (content r2)) < 2 ^ 64) by (pow64; lia).
    pose proof (dec_list_enc _ [] L1) as E1. pose proof (dec_list_enc _ [] L2) as E2.
    rewrite !app_nil_r in E1, E2. rewrite Hp2 in E2. rewrite E1 in E2. inv E2. reflexivity. }
  rewrite Hb, Es. reflexivity.
Qed.

End WithCrypto.
