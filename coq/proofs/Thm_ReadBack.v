(* Thm_ReadBack.v — C14 / C08: what the generic typed insert stores is the canonical encoding of the value, and
   get_decodable of the same type reads back exactly the value set (for every value, by proof). *)
Require Import EnrProofs.Tactics EnrProofs.BytesLemmas EnrProofs.RlpLemmas EnrProofs.SortedMapLemmas
  EnrProofs.UpdateLemmas EnrProofs.RefineLemmas EnrProofs.Thm_Refine EnrProofs.Thm_Access.
Require Import Enr.Consts Enr.Rlp Enr.SortedMap Enr.Keccak Enr.Record Enr.Update Enr.Spec.
Open Scope N_scope.

(* decoding the canonical encoding of a typed value gives the value back, with nothing left over *)
Lemma dec_enc_bytes b : lenN b < 2 ^ 64 -> dec_string (enc_tval (TBytes b)) = Ok (b, []).
Proof. intros H. cbn [enc_tval]. rewrite <- (app_nil_r (enc_string b)). apply dec_string_enc. exact H. Qed.

Lemma dec_enc_u16 n : n < 65536 -> dec_uint 2 (enc_tval (TU16 n)) = Ok (n, []).
Proof. intros H. cbn [enc_tval]. rewrite <- (app_nil_r (enc_uint n)). apply dec_uint_enc; [lia | exact H]. Qed.

Lemma dec_enc_u64 n : n < 2 ^ 64 -> dec_uint 8 (enc_tval (TU64 n)) = Ok (n, []).
Proof. intros H. cbn [enc_tval]. rewrite <- (app_nil_r (enc_uint n)). apply dec_uint_enc; [lia | exact H]. Qed.

Lemma dec_enc_list l :
  Forall (fun s => lenN s < 2 ^ 64) l -> lenN (flat_map enc_string l) < 2 ^ 64 ->
  dec_vec_bytes (enc_tval (TList l)) = Ok (l, []).
Proof. intros H1 H2. cbn [enc_tval]. rewrite <- (app_nil_r (enc_strings l)). apply dec_vec_bytes_enc; assumption. Qed.

Section WithCrypto.
Variable c : crypto.
Variable kt : keytype.

Theorem insert_stores_canonical r key v k sg x r' :
  seq r < 2 ^ 64 -> key <> pub_key_name k ->
  step c kt r (OInsert key v) k sg = (Ok x, r') ->
  get_raw r' key = Some (enc_tval v) /\ x = RRaw (get_raw r key).
Proof.
  intros Hs Hk H.
  assert (Hn : forall n, OInsert key v = OSetSeq n -> n < 2 ^ 64) by (intros n E; discriminate).
  split.
  - unfold get_raw. apply (step_single_insert c kt r (OInsert key v) k sg x r' key (enc_tval v) Hs); [exact Hn | exact H | reflexivity | exact Hk].
  - destruct (step_refines c kt r _ k sg x r' Hs Hn H) as [_ Hx]. exact Hx.
Qed.

(* get_decodable::<T> after insert::<T> *)
Theorem insert_reads_back r key v k sg x r' :
  seq r < 2 ^ 64 -> key <> pub_key_name k -> tval_ok v ->
  step c kt r (OInsert key v) k sg = (Ok x, r') ->
  match v with
  | TBytes b | TStr b | TIp4 b | TIp6 b => get_bytes r' key = Some (Ok b)
  | TU16 n => get_uint 2 r' key = Some (Ok n)
  | TU64 n => get_uint 8 r' key = Some (Ok n)
  | TList l => get_strings r' key = Some (Ok l)
  end.
Proof.
  intros Hs Hk Hv H. destruct (insert_stores_canonical r key v k sg x r' Hs Hk H) as [Hg _].
  unfold get_bytes, get_uint, get_strings. rewrite Hg. cbn [option_map].
  destruct v; cbn [tval_ok] in Hv.
  - rewrite dec_enc_bytes by tauto. reflexivity.
  - rewrite dec_enc_u16 by exact Hv. reflexivity.
  - rewrite dec_enc_u64 by exact Hv. reflexivity.
  - change (enc_tval (TStr s)) with (enc_tval (TBytes s)). rewrite dec_enc_bytes by tauto. reflexivity.
  - destruct Hv as [H1 H2]. rewrite dec_enc_list; [reflexivity | eapply Forall_impl; [|exact H1]; cbn; tauto | exact H2].
  - change (enc_tval (TIp4 a)) with (enc_tval (TBytes a)). rewrite dec_enc_bytes by tauto. reflexivity.
  - change (enc_tval (TIp6 a)) with (enc_tval (TBytes a)). rewrite dec_enc_bytes by tauto. reflexivity.
Qed.

End WithCrypto.
