(* UpdateLemmas.v — the commit tail shared by the mutators and what every successful update
   establishes (sequence number, node id, size, signature over the new content). *)
Require Import EnrProofs.Tactics EnrProofs.BytesLemmas EnrProofs.RlpLemmas.
Require Import Enr.Consts Enr.Rlp Enr.SortedMap Enr.Keccak Enr.Record Enr.Update.
Open Scope N_scope.

Section WithCrypto.
Variable c : crypto.
Variable kt : keytype.

(* what a committed record looks like, whatever the operation was *)
Record committed (r' : record) (k : skey) (sg : signer) : Prop := {
  cm_id : id_is_v4 r' = true;
  cm_sig : sg (signed_payload r') = Some (sig r');
  cm_nid : nid r' = node_id_of (sk_pub k);
  cm_size : size r' <= MAX_ENR_SIZE;
  cm_keyed : check_keyed_by c kt (content r') k = Ok tt;
  cm_seq : seq r' < 2 ^ 64
}.

Lemma compute_signature_ok r sg s :
  compute_signature r sg = Ok s -> id_is_v4 r = true /\ sg (signed_payload r) = Some s.
Proof.
  unfold compute_signature. destruct (id_is_v4 r); [|discriminate].
  destruct (sg (signed_payload r)) eqn:E; [|discriminate]. intros H; inv H. auto.
Qed.

Lemma checked_succ_ok n m : checked_succ n = Ok m -> m = n + 1 /\ n <> U64_MAX.
Proof. unfold checked_succ. destruct (n =? U64_MAX) eqn:E; [discriminate|]. intros H; inv H. split; [reflexivity | lia]. Qed.

Lemma finish_ok pre r m k sg r' :
  seq r < 2 ^ 64 ->
  finish c kt pre r m k sg = Ok r' ->
  seq r' = seq r + 1 /\ content r' = m /\ committed r' k sg.
Proof.
  intros Hseq H. unfold finish in H.
  bind_inv H. destruct a. bind_inv Hb. bind_inv Hb0. rename a0 into sq.
  bind_inv Hb. rename a0 into s.
  destruct (MAX_ENR_SIZE <? _) eqn:Esz in Hb0; [discriminate|]. inv Hb0.
  destruct (checked_succ_ok _ _ Ha1) as [-> Hne].
  destruct (compute_signature_ok _ _ _ Ha2) as [Hid Hsig].
  cbn [seq content]. split; [reflexivity|]. split; [reflexivity|].
  constructor; cbn [seq content sig nid]; auto.
  - lia.
  - unfold U64_MAX in Hne. pow64. lia.
Qed.

Lemma set_seq_ok r n k sg r' :
  n < 2 ^ 64 ->
  set_seq c kt r n k sg = Ok r' ->
  seq r' = n /\ content r' = with_key (content r) k /\ committed r' k sg.
Proof.
  intros Hn H. unfold set_seq in H.
  bind_inv H. destruct a. bind_inv Hb. rename a into s.
  destruct (MAX_ENR_SIZE <? _) eqn:Esz in Hb0; [discriminate|]. inv Hb0.
  destruct (compute_signature_ok _ _ _ Ha0) as [Hid Hsig].
  cbn [seq content]. split; [reflexivity|]. split; [reflexivity|].
  constructor; cbn [seq content sig nid]; auto. lia.
Qed.

(* every operation either fails or commits; the committed content is described per operation *)
Definition is_set_seq (o : op) : option N := match o with OSetSeq n => Some n | _ => None end.

Lemma insert_raw_ok r key v k sg prev r' :
  seq r < 2 ^ 64 ->
  insert_raw c kt r key v k sg = Ok (prev, r') ->
  check_reserved c key v = Ok tt /\ prev = sm_get key (content r) /\
  seq r' = seq r + 1 /\ content r' = with_key (sm_insert key v (content r)) k /\ committed r' k sg.
Proof.
  intros Hs H. unfold insert_raw in H. bind_inv H. destruct a. bind_inv Hb. inv Hb0.
  destruct (finish_ok _ _ _ _ _ _ Hs Ha0) as (H1 & H2 & H3). auto.
Qed.

Lemma remove_key_ok r key k sg r' :
  seq r < 2 ^ 64 ->
  remove_key c kt r key k sg = Ok r' ->
  seq r' = seq r + 1 /\ content r' = with_key (sm_remove key (content r)) k /\ committed r' k sg.
Proof. intros Hs H. unfold remove_key in H. apply (finish_ok _ _ _ _ _ _ Hs H). Qed.

Lemma set_socket_ok r a p tcp k sg r' :
  seq r < 2 ^ 64 ->
  set_socket c kt r a p tcp k sg = Ok r' ->
  seq r' = seq r + 1 /\ committed r' k sg /\
  content r' =
    (let v6 := negb (lenN a =? 4) in
     with_key (sm_insert (if tcp then (if v6 then k_tcp6 else k_tcp) else (if v6 then k_udp6 else k_udp)) (enc_uint p)
                (sm_insert (if v6 then k_ip6 else k_ip) (enc_string a) (content r))) k).
Proof.
  intros Hs H. unfold set_socket in H. destruct (finish_ok _ _ _ _ _ _ Hs H) as (H1 & H2 & H3). auto.
Qed.

Lemma remove_insert_ok r rm ins k sg rem inserted r' :
  seq r < 2 ^ 64 ->
  remove_insert c kt r rm ins k sg = Ok (rem, inserted, r') ->
  seq r' = seq r + 1 /\ committed r' k sg /\
  exists m1 m2, remove_all rm (content r) = (rem, m1) /\ insert_all c ins m1 = Ok (inserted, m2) /\
                content r' = with_key m2 k.
Proof.
  intros Hs H. unfold remove_insert in H. destruct (remove_all rm (content r)) as [rem0 m1] eqn:Er.
  bind_inv H. destruct a as [ins0 m2]. bind_inv Hb. inv Hb0.
  destruct (finish_ok _ _ _ _ _ _ Hs Ha0) as (H1 & H2 & H3).
  split; [exact H1|]. split; [exact H3|]. exists m1, m2. auto.
Qed.

(* the general statement: a successful operation commits, with seq+1 (or the requested seq) *)
Lemma apply_op_ok r o k sg x r' :
  seq r < 2 ^ 64 ->
  (forall n, o = OSetSeq n -> n < 2 ^ 64) ->
  apply_op c kt r o k sg = Ok (x, r') ->
  committed r' k sg /\
  seq r' = (match o with OSetSeq n => n | _ => seq r + 1 end).
Proof.
  intros Hs Hn H. destruct o; cbn [apply_op] in H; unfold unit_ret, set_ip, set_port, set_client_info, set_public_key in H.
  all: repeat (match type of H with bind _ _ = Ok _ => bind_inv H end).
  all: repeat (match goal with
               | a : (_ * _)%type |- _ => destruct a
               end).
  all: repeat (match goal with
               | Hb : Ok _ = Ok _ |- _ => inv Hb
               | Hb : bind _ _ = Ok _ |- _ => bind_inv Hb
               | a : (_ * _)%type |- _ => destruct a
               end).
  all: try (match goal with
            | Hx : set_seq _ _ _ _ _ _ = Ok _ |- _ =>
                destruct (set_seq_ok _ _ _ _ _ (Hn _ eq_refl) Hx) as (? & ? & ?); split; assumption
            | Hx : insert_raw _ _ _ _ _ _ _ = Ok _ |- _ =>
                destruct (insert_raw_ok _ _ _ _ _ _ _ Hs Hx) as (? & ? & ? & ? & ?); split; assumption
            | Hx : remove_key _ _ _ _ _ _ = Ok _ |- _ =>
                destruct (remove_key_ok _ _ _ _ _ Hs Hx) as (? & ? & ?); split; assumption
            | Hx : set_socket _ _ _ _ _ _ _ _ = Ok _ |- _ =>
                destruct (set_socket_ok _ _ _ _ _ _ _ Hs Hx) as (? & ? & ?); split; assumption
            | Hx : remove_insert _ _ _ _ _ _ _ = Ok _ |- _ =>
                destruct (remove_insert_ok _ _ _ _ _ _ _ _ Hs Hx) as (? & ? & ?); split; assumption
            end).
Qed.

(* the builder *)
Lemma build_ok sq calls k sg r :
  sq < 2 ^ 64 ->
  build c kt sq calls k sg = Ok r ->
  seq r = sq /\ nid r = node_id_of (sk_pub k) /\
  content r = with_key (sm_insert k_id (enc_string v4) (fold_left apply_bcall calls [])) k /\
  check_all c (fold_left apply_bcall calls []) = Ok tt /\
  check_keyed_by c kt (content r) k = Ok tt /\
  sg (signed_payload r) = Some (sig r) /\
  lenN (signed_payload r) + lenN (sig r) + 8 <= MAX_ENR_SIZE.
Proof.
  intros Hsq H. unfold build in H.
  bind_inv H. destruct a. bind_inv Hb. destruct a. bind_inv Hb0. rename a into s.
  destruct (MAX_ENR_SIZE <? _) eqn:Esz in Hb; [discriminate|]. inv Hb.
  cbn [seq nid content sig]. unfold signed_payload. cbn [seq content].
  destruct (sg _) eqn:Esg in Ha1; [|discriminate]. inv Ha1.
  repeat split; auto. apply N.ltb_ge in Esz. exact Esz.
Qed.

End WithCrypto.
