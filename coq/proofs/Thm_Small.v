(* Thm_Small.v — small facts the property texts state literally: the JSON form of a NodeId is 0x + 64 lowercase
   hex digits (C16); only the canonical JSON strings deserialise to a record (C12); keccak256 of the empty string
   and of "abc" are the standard vectors, computed inside Coq (C10: the hash in the model is the real one). *)
Require Import EnrProofs.Tactics EnrProofs.BytesLemmas EnrProofs.Thm_NodeId EnrProofs.Thm_Text EnrProofs.Thm_Authentic.
Require Import Enr.Consts Enr.Rlp Enr.SortedMap Enr.Keccak Enr.Record Enr.NodeId Enr.Text.
Open Scope N_scope.

Definition lower_hex (ch : N) : Prop := (48 <= ch <= 57) \/ (97 <= ch <= 102).

Lemma hex_digit_lower v : v < 16 -> lower_hex (hex_digit v).
Proof. intros H. unfold hex_digit, lower_hex. destruct (v <? 10) eqn:E; lia. Qed.

Lemma hex_encode_lower x : bytes_ok x -> Forall lower_hex (hex_encode x).
Proof.
  induction 1 as [|b x Hb Hx IH]; cbn [hex_encode]; [constructor|].
  constructor; [apply hex_digit_lower; lia|]. constructor; [apply hex_digit_lower; lia | exact IH].
Qed.

(* C16: "0x followed by 64 lowercase hex digits" *)
Theorem nodeid_ser_shape x : bytes_ok x -> lenN x = 32 ->
  exists digits, nodeid_ser x = [48; 120] ++ digits /\ lenN digits = 64 /\ Forall lower_hex digits.
Proof.
  intros Hok Hl. exists (hex_encode x). split; [reflexivity|]. split; [rewrite hex_encode_len, Hl; reflexivity | apply hex_encode_lower; exact Hok].
Qed.

(* C16: two ids with the same JSON / Debug form are the same id *)
Theorem nodeid_ser_inj x y : bytes_ok x -> bytes_ok y -> nodeid_ser x = nodeid_ser y -> x = y.
Proof.
  intros Hx Hy H. unfold nodeid_ser in H. apply app_inv_head in H.
  pose proof (hex_roundtrip x Hx) as H1. pose proof (hex_roundtrip y Hy) as H2. rewrite H in H1. congruence.
Qed.

Section WithCrypto.
Variable c : crypto.
Variable kt : keytype.

(* C12: only the two canonical JSON strings deserialise to a record (within the model's JSON: plain literals) *)
Theorem from_json_strict s r :
  from_json c kt s = Some (Ok r) -> s = to_json r \/ s = [34] ++ b64_encode (encode r) ++ [34].
Proof.
  unfold from_json. destruct s as [|q t]; [discriminate|]. destruct (q =? 34) eqn:Eq; [|discriminate].
  destruct (rev t) as [|q2 rbody] eqn:Er; [discriminate|]. destruct (q2 =? 34) eqn:Eq2; [|discriminate].
  cbv zeta. destruct (forallb plain_json_char (rev rbody)); [|discriminate]. intros H. inv H.
  apply N.eqb_eq in Eq. apply N.eqb_eq in Eq2. subst q q2.
  assert (Ht : t = rev rbody ++ [34]).
  { rewrite <- (rev_involutive t), Er. reflexivity. }
  subst t. match goal with H : from_str _ _ _ = Ok r |- _ => destruct (from_str_strict c kt _ _ H) as [E|E] end.
  - left. unfold to_json. rewrite <- E. reflexivity.
  - right. rewrite <- E. reflexivity.
Qed.

End WithCrypto.

(* C10: the model's keccak256 is the real function on the standard vectors (evaluated by the kernel) *)
Example keccak256_empty :
  keccak256 [] = [0xc5;0xd2;0x46;0x01;0x86;0xf7;0x23;0x3c;0x92;0x7e;0x7d;0xb2;0xdc;0xc7;0x03;0xc0;
                  0xe5;0x00;0xb6;0x53;0xca;0x82;0x27;0x3b;0x7b;0xfa;0xd8;0x04;0x5d;0x85;0xa4;0x70].
Proof. vm_compute. reflexivity. Qed.

Example keccak256_abc :
  keccak256 [97; 98; 99] = [0x4e;0x03;0x65;0x7a;0xea;0x45;0xa9;0x4f;0xc7;0xd4;0x7b;0xa8;0x26;0xc8;0xd6;0x67;
                            0xc0;0xd1;0xe6;0xe3;0x3a;0x64;0xa0;0x36;0xec;0x44;0xf5;0x8f;0xa1;0x2d;0x6c;0x45].
Proof. vm_compute. reflexivity. Qed.

(* a message longer than one 136-byte block: 200 bytes of 0xa3 (the NIST test pattern) *)
Example keccak256_two_blocks :
  keccak256 (repeat 0xa3 200) = [0x3a;0x57;0x66;0x6b;0x04;0x87;0x77;0xf2;0xc9;0x53;0xdc;0x44;0x56;0xf4;0x5a;0x25;
                                 0x88;0xe1;0xcb;0x6f;0x2d;0xa7;0x60;0x12;0x2d;0x53;0x0a;0xc2;0xce;0x60;0x7d;0x4a].
Proof. vm_compute. reflexivity. Qed.
