
val negb : bool -> bool

type nat =
| O
| S of nat

val option_map : ('a1 -> 'a2) -> 'a1 option -> 'a2 option

val fst : ('a1 * 'a2) -> 'a1

val snd : ('a1 * 'a2) -> 'a2

val length : 'a1 list -> nat

val app : 'a1 list -> 'a1 list -> 'a1 list

type comparison =
| Eq
| Lt
| Gt

val add : nat -> nat -> nat

val mul : nat -> nat -> nat

val sub : nat -> nat -> nat

val eqb : nat -> nat -> bool

val eqb0 : bool -> bool -> bool

module Nat :
 sig
  val sub : nat -> nat -> nat

  val eqb : nat -> nat -> bool

  val divmod : nat -> nat -> nat -> nat -> nat * nat

  val div : nat -> nat -> nat

  val modulo : nat -> nat -> nat
 end

val nth : nat -> 'a1 list -> 'a1 -> 'a1

val rev : 'a1 list -> 'a1 list

val map : ('a1 -> 'a2) -> 'a1 list -> 'a2 list

val flat_map : ('a1 -> 'a2 list) -> 'a1 list -> 'a2 list

val fold_left : ('a1 -> 'a2 -> 'a1) -> 'a2 list -> 'a1 -> 'a1

val forallb : ('a1 -> bool) -> 'a1 list -> bool

val firstn : nat -> 'a1 list -> 'a1 list

val skipn : nat -> 'a1 list -> 'a1 list

val seq : nat -> nat -> nat list

val repeat : 'a1 -> nat -> 'a1 list

type positive =
| XI of positive
| XO of positive
| XH

type n =
| N0
| Npos of positive

module Pos :
 sig
  type mask =
  | IsNul
  | IsPos of positive
  | IsNeg
 end

module Coq_Pos :
 sig
  val succ : positive -> positive

  val add : positive -> positive -> positive

  val add_carry : positive -> positive -> positive

  val pred_double : positive -> positive

  type mask = Pos.mask =
  | IsNul
  | IsPos of positive
  | IsNeg

  val succ_double_mask : mask -> mask

  val double_mask : mask -> mask

  val double_pred_mask : positive -> mask

  val sub_mask : positive -> positive -> mask

  val sub_mask_carry : positive -> positive -> mask

  val mul : positive -> positive -> positive

  val iter : ('a1 -> 'a1) -> 'a1 -> positive -> 'a1

  val size : positive -> positive

  val compare_cont : comparison -> positive -> positive -> comparison

  val compare : positive -> positive -> comparison

  val eqb : positive -> positive -> bool

  val coq_Nsucc_double : n -> n

  val coq_Ndouble : n -> n

  val coq_lor : positive -> positive -> positive

  val coq_land : positive -> positive -> n

  val ldiff : positive -> positive -> n

  val coq_lxor : positive -> positive -> n

  val shiftl : positive -> n -> positive

  val iter_op : ('a1 -> 'a1 -> 'a1) -> positive -> 'a1 -> 'a1

  val to_nat : positive -> nat

  val of_succ_nat : nat -> positive
 end

module N :
 sig
  val succ_double : n -> n

  val double : n -> n

  val add : n -> n -> n

  val sub : n -> n -> n

  val mul : n -> n -> n

  val compare : n -> n -> comparison

  val eqb : n -> n -> bool

  val leb : n -> n -> bool

  val ltb : n -> n -> bool

  val div2 : n -> n

  val size : n -> n

  val pos_div_eucl : positive -> n -> n * n

  val div_eucl : n -> n -> n * n

  val div : n -> n -> n

  val modulo : n -> n -> n

  val coq_lor : n -> n -> n

  val coq_land : n -> n -> n

  val ldiff : n -> n -> n

  val coq_lxor : n -> n -> n

  val shiftl : n -> n -> n

  val shiftr : n -> n -> n

  val to_nat : n -> nat

  val of_nat : nat -> n
 end

type ascii =
| Ascii of bool * bool * bool * bool * bool * bool * bool * bool

val n_of_digits : bool list -> n

val n_of_ascii : ascii -> n

type string =
| EmptyString
| String of ascii * string

val list_ascii_of_string : string -> ascii list

type bytes = n list

val lenN : 'a1 list -> n

val takeN : n -> 'a1 list -> 'a1 list

val dropN : n -> 'a1 list -> 'a1 list

val str : string -> bytes

val be_val_acc : n -> bytes -> n

val be_val : bytes -> n

val be_trim_fuel : nat -> n -> bytes -> bytes

val be_trim : n -> bytes

val be_pad : nat -> n -> bytes

val bytes_eqb : bytes -> bytes -> bool

val bytes_ltb : bytes -> bytes -> bool

val is_empty : 'a1 list -> bool

type err =
| EInputTooShort
| ENonCanonicalSingleByte
| ENonCanonicalSize
| ELeadingZero
| EOverflow
| EUnexpectedList
| EUnexpectedString
| EUnexpectedLength
| ECustom
| EExceedsMaxSize
| ESequenceNumberTooHigh
| ESigningError
| EUnsupportedIdentityScheme
| EFuel

type 'a res =
| Ok of 'a
| Err of err
| Panic

val bind : 'a1 res -> ('a1 -> 'a2 res) -> 'a2 res

val k_id : bytes

val k_ip : bytes

val k_ip6 : bytes

val k_tcp : bytes

val k_tcp6 : bytes

val k_udp : bytes

val k_udp6 : bytes

val k_secp : bytes

val k_ed : bytes

val k_toy : bytes

val k_client : bytes

val v4 : bytes

val hdr_encode : bool -> n -> bytes

val hdr_long : bool -> n -> bytes -> ((bool * n) * bytes) res

val hdr_decode : bytes -> ((bool * n) * bytes) res

val dec_payload : bool -> bytes -> (bytes * bytes) res

val dec_string : bytes -> (bytes * bytes) res

val dec_list : bytes -> (bytes * bytes) res

val left_pad_val : n -> bytes -> n res

val dec_uint : n -> bytes -> (n * bytes) res

val enc_string : bytes -> bytes

val enc_uint : n -> bytes

val enc_list : bytes -> bytes

val dec_fixed : n -> bytes -> (bytes * bytes) res

val dec_strings : nat -> bytes -> bytes list res

val dec_vec_bytes : bytes -> (bytes list * bytes) res

val enc_strings : bytes list -> bytes

val dec_item : bytes -> ((bool * bytes) * bytes) res

val reframe : bool -> bytes -> bytes

type smap = (bytes * bytes) list

val sm_get : bytes -> smap -> bytes option

val sm_insert : bytes -> bytes -> smap -> smap

val sm_remove : bytes -> smap -> smap

val mask64 : n

val rotl : n -> n -> n

val lane : n list -> nat -> n

val idx5 : nat list

val idx25 : nat list

val rots : n list

val rcs : n list

val theta : n list -> n list

val rhopi : n list -> n list

val chi : n list -> n list

val iota : n -> n list -> n list

val kround : n list -> n -> n list

val keccak_f : n list -> n list

val le_val : bytes -> n

val le_bytes : nat -> n -> bytes

val lanes_of : nat -> bytes -> n list

val rate : nat

val kpad : bytes -> bytes

val xor_lanes : n list -> n list -> n list

val absorb : nat -> n list -> bytes -> n list

val keccak256 : bytes -> bytes

val mAX_ENR_SIZE : n

type crypto = { secp_pk : (bytes -> (bytes * bytes) option);
                ecdsa_core : (bytes -> bytes -> bytes -> bool);
                ed_pk_ok : (bytes -> bool);
                ed_core : (bytes -> bytes -> bytes -> bool);
                secp_chk : (bytes -> bool) }

type keytype =
| K256
| LibSecp
| Ed
| Comb
| Toy

type scheme =
| SSecp
| SEd
| SToy

type pubkey = { pk_scheme : scheme; pk_enc : bytes; pk_unc : bytes }

val scheme_key : scheme -> bytes

val secp_n : n

val secp_half_n : n

val secp_to_public : crypto -> smap -> pubkey res

val ed_to_public : crypto -> smap -> pubkey res

val toy_to_public : smap -> pubkey res

val enr_to_public : crypto -> keytype -> smap -> pubkey res

val verify_secp : crypto -> bytes -> bytes -> bytes -> bool

val verify_ed : crypto -> bytes -> bytes -> bytes -> bool

val toy_tag : bytes -> bytes -> bytes

val verify_toy : bytes -> bytes -> bytes -> bool

val verify_v4 : crypto -> pubkey -> bytes -> bytes -> bool

val node_id_of : pubkey -> bytes

type record = { seq0 : n; nid : bytes; content : smap; sig0 : bytes }

val enc_pair : (bytes * bytes) -> bytes

val payload_body : n -> smap -> bytes

val signed_payload_of : n -> smap -> bytes

val signed_payload : record -> bytes

val encode : record -> bytes

val size0 : record -> n

val get_raw : record -> bytes -> bytes option

val get : record -> bytes -> bytes res option

val get_bytes : record -> bytes -> bytes res option

val get_uint : n -> record -> bytes -> n res option

val get_strings : record -> bytes -> bytes list res option

val ok_some : 'a1 res option -> 'a1 option

val id : record -> bytes option

val ip4 : record -> bytes option

val ip6 : record -> bytes option

val port : record -> bytes -> n option

val tcp4 : record -> n option

val tcp6 : record -> n option

val udp4 : record -> n option

val udp6 : record -> n option

val sock : bytes option -> n option -> (bytes * n) option

val udp4_socket : record -> (bytes * n) option

val udp6_socket : record -> (bytes * n) option

val tcp4_socket : record -> (bytes * n) option

val tcp6_socket : record -> (bytes * n) option

val is_some : 'a1 option -> bool

val is_udp_reachable : record -> bool

val is_tcp_reachable : record -> bool

val client_info : record -> bytes list option

val public_key : crypto -> keytype -> record -> pubkey res

val id_is_v4 : record -> bool

val verify : crypto -> keytype -> record -> bool res

val is_port_key : bytes -> bool

val dec_value : bytes -> bytes -> (bytes * bytes) res

val dec_pairs : nat -> bytes option -> bytes -> smap res

val decode : crypto -> keytype -> bytes -> (record * bytes) res

val dec_records : crypto -> keytype -> nat -> bytes -> record list res

val decode_vec : crypto -> keytype -> bytes -> (record list * bytes) res

val rec_eqb : record -> record -> bool

val hash_input : record -> (n * bytes) * bytes

val compare_content : record -> record -> bool

type skey = pubkey
  (* singleton inductive, whose constructor was Build_skey *)

val sk_pub : skey -> pubkey

type signer = bytes -> bytes option

val u64_MAX : n

type tval =
| TBytes of bytes
| TU16 of n
| TU64 of n
| TStr of bytes
| TList of bytes list
| TIp4 of bytes
| TIp6 of bytes

val enc_tval : tval -> bytes

val pub_key_name : skey -> bytes

val pub_entry : skey -> bytes

val check_reserved : crypto -> bytes -> bytes -> unit res

val check_keyed_by : crypto -> keytype -> smap -> skey -> unit res

val compute_signature : record -> signer -> bytes res

val with_key : smap -> skey -> smap

val checked_succ : n -> n res

val finish :
  crypto -> keytype -> bool -> record -> smap -> skey -> signer -> record res

val set_seq : crypto -> keytype -> record -> n -> skey -> signer -> record res

val insert_raw :
  crypto -> keytype -> record -> bytes -> bytes -> skey -> signer -> (bytes
  option * record) res

val set_ip :
  crypto -> keytype -> record -> bytes -> skey -> signer -> (bytes
  option * record) res

val set_port :
  crypto -> keytype -> record -> bytes -> n -> skey -> signer -> (n
  option * record) res

val set_client_info :
  crypto -> keytype -> record -> bytes list -> skey -> signer -> record res

val set_socket :
  crypto -> keytype -> record -> bytes -> n -> bool -> skey -> signer ->
  record res

val remove_key :
  crypto -> keytype -> record -> bytes -> skey -> signer -> record res

val remove_all : bytes list -> smap -> bytes option list * smap

val insert_all :
  crypto -> (bytes * bytes) list -> smap -> (bytes option list * smap) res

val remove_insert :
  crypto -> keytype -> record -> bytes list -> (bytes * bytes) list -> skey
  -> signer -> ((bytes option list * bytes option list) * record) res

val set_public_key :
  crypto -> keytype -> record -> pubkey -> skey -> signer -> record res

type op =
| OSetSeq of n
| OInsert of bytes * tval
| OInsertRaw of bytes * bytes
| OSetIp of bytes
| OSetUdp4 of n
| OSetUdp6 of n
| OSetTcp4 of n
| OSetTcp6 of n
| ORemoveUdp4
| ORemoveUdp6
| ORemoveTcp
| ORemoveTcp6
| OSetClientInfo of bytes list
| OSetUdpSocket of bytes * n
| OSetTcpSocket of bytes * n
| ORemoveUdpSocket
| ORemoveUdp6Socket
| ORemoveTcpSocket
| ORemoveTcp6Socket
| ORemoveKey of bytes
| ORemoveInsert of bytes list * (bytes * bytes) list
| OSetPublicKey of pubkey

type ret =
| RUnit
| RRaw of bytes option
| RIp of bytes option
| RPort of n option
| RLists of bytes option list * bytes option list

val unit_ret : record res -> (ret * record) res

val apply_op :
  crypto -> keytype -> record -> op -> skey -> signer -> (ret * record) res

val step :
  crypto -> keytype -> record -> op -> skey -> signer -> ret res * record

type bcall =
| BIp4 of bytes
| BIp6 of bytes
| BTcp4 of n
| BTcp6 of n
| BUdp4 of n
| BUdp6 of n
| BClient of bytes list
| BVal of bytes * tval
| BRaw of bytes * bytes

val apply_bcall : smap -> bcall -> smap

val check_all : crypto -> smap -> unit res

val build :
  crypto -> keytype -> n -> bcall list -> skey -> signer -> record res

val b64_char : n -> n

val b64_val : n -> n option

val b64_encode : bytes -> bytes

val b64_decode : bytes -> bytes option

val enr_prefix : bytes

val starts_with : bytes -> bytes -> bool

val to_text : record -> bytes

val from_str : crypto -> keytype -> bytes -> record res

val to_json : record -> bytes

val plain_json_char : n -> bool

val from_json : crypto -> keytype -> bytes -> record res option

val nodeid_parse : bytes -> bytes option

val hex_digit : n -> n

val hex_encode : bytes -> bytes

val hex_val : n -> n option

val hex_decode : bytes -> bytes option

val prefix_0x : bytes

val nodeid_ser : bytes -> bytes

val nodeid_deser : bytes -> bytes option

val nodeid_debug : bytes -> bytes

val nodeid_display : bytes -> bytes

type import_result = { imp_ok : bytes option; imp_buf : bytes }

val import_secp : bytes -> import_result

val import_ed : bytes -> import_result
