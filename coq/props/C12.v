(* C12 — the text and JSON forms are canonical and strictly parsed. *)
Require Import Enr.Bytes Enr.Consts Enr.Rlp Enr.SortedMap Enr.Keccak Enr.Record Enr.Text.
Require Import EnrProofs.Thm_Small EnrProofs.Thm_Sites.
Require Import EnrProofs.Thm_Text.
Open Scope N_scope.

Theorem to_text_def : forall r, to_text r = [101; 110; 114; 58] ++ b64_encode (encode r).
Proof. exact Thm_Text.to_text_def. Qed.
Print Assumptions to_text_def.

Theorem to_json_def : forall r, to_json r = [34] ++ to_text r ++ [34].
Proof. exact Thm_Text.to_json_def. Qed.
Print Assumptions to_json_def.

Theorem b64_roundtrip : forall x, bytes_ok x -> b64_decode (b64_encode x) = Some x.
Proof. exact Thm_Text.b64_roundtrip. Qed.
Print Assumptions b64_roundtrip.

(* unique text per byte string: excludes padding, the other alphabet, whitespace, non-zero trailing bits *)
Theorem b64_canonical : forall s x, b64_decode s = Some x -> s = b64_encode x /\ bytes_ok x.
Proof. exact Thm_Text.b64_canonical. Qed.
Print Assumptions b64_canonical.

(* the parser accepts, for a record, its text with or without the prefix and nothing else *)
Theorem from_str_strict : forall (c : crypto) kt s r,
  from_str c kt s = Ok r -> s = to_text r \/ s = b64_encode (encode r).
Proof. exact Thm_Text.from_str_strict. Qed.
Print Assumptions from_str_strict.

Theorem from_str_accepts : forall (c : crypto) kt r,
  bytes_ok (encode r) -> decode c kt (encode r) = Ok (r, []) ->
  from_str c kt (to_text r) = Ok r /\ (3 <= lenN (encode r) -> from_str c kt (b64_encode (encode r)) = Ok r).
Proof. exact Thm_Text.from_str_accepts. Qed.
Print Assumptions from_str_accepts.

Theorem from_str_rejects_trailing : forall (c : crypto) kt s b r rest,
  4 <= lenN s -> b64_decode (text_body s) = Some b ->
  decode c kt b = Ok (r, rest) -> rest <> [] -> exists e, from_str c kt s = Err e.
Proof. exact Thm_Text.from_str_rejects_trailing. Qed.
Print Assumptions from_str_rejects_trailing.

(* the JSON string: only the two canonical strings deserialise to a record (the model's JSON: string literals
   without escapes; serde_json's escape handling is outside the model and compared by the correspondence run) *)
Theorem from_json_strict : forall (c : crypto) kt s r,
  from_json c kt s = Some (Ok r) -> s = to_json r \/ s = [34] ++ b64_encode (encode r) ++ [34].
Proof. exact Thm_Small.from_json_strict. Qed.
Print Assumptions from_json_strict.
