(* C15 — equality, hashing and content comparison are coherent. *)
Require Import Enr.Bytes Enr.Consts Enr.Rlp Enr.SortedMap Enr.Keccak Enr.Record Enr.Update Enr.Spec.
Require Import EnrProofs.Thm_Misc EnrProofs.Thm_More EnrProofs.WellFormedLemmas EnrProofs.Thm_Valid.
Open Scope N_scope.

Theorem rec_eqb_iff : forall a b, rec_eqb a b = true <-> seq a = seq b /\ nid a = nid b /\ sig a = sig b.
Proof. exact Thm_Misc.rec_eqb_iff. Qed.
Print Assumptions rec_eqb_iff.
Theorem rec_eqb_refl : forall a, rec_eqb a a = true.
Proof. exact Thm_Misc.rec_eqb_refl. Qed.
Print Assumptions rec_eqb_refl.
Theorem rec_eqb_sym : forall a b, rec_eqb a b = rec_eqb b a.
Proof. exact Thm_Misc.rec_eqb_sym. Qed.
Print Assumptions rec_eqb_sym.
Theorem rec_eqb_trans : forall a b d, rec_eqb a b = true -> rec_eqb b d = true -> rec_eqb a d = true.
Proof. exact Thm_Misc.rec_eqb_trans. Qed.
Print Assumptions rec_eqb_trans.
Theorem rec_eqb_hash : forall a b, rec_eqb a b = true -> hash_input a = hash_input b.
Proof. exact Thm_Misc.rec_eqb_hash. Qed.
Print Assumptions rec_eqb_hash.
Theorem rec_eqb_differs : forall a b, seq a <> seq b \/ nid a <> nid b \/ sig a <> sig b -> rec_eqb a b = false.
Proof. exact Thm_Misc.rec_eqb_differs. Qed.
Print Assumptions rec_eqb_differs.
Theorem compare_content_iff_payload : forall a b, compare_content a b = true <-> signed_payload a = signed_payload b.
Proof. exact Thm_Misc.compare_content_iff_payload. Qed.
Print Assumptions compare_content_iff_payload.

(* content comparison: true exactly when seq and pairs coincide, regardless of signature *)
Theorem compare_content_iff : forall (c : crypto) kt a b, Valid c kt a -> Valid c kt b ->
  (compare_content a b = true <-> seq a = seq b /\ content a = content b).
Proof. exact Thm_More.compare_content_iff. Qed.
Print Assumptions compare_content_iff.

(* equal records carry identical pairs and encode identically -- or the two records exhibit a
   signature that verifies for two different payloads under keys with the same keccak256 hash.
   ("No such collision exists" is not a theorem of any proof assistant; the reduction is.) *)
Theorem eq_same_content_or_collision : forall (c : crypto) kt a b, Valid c kt a -> Valid c kt b -> rec_eqb a b = true ->
  encode a = encode b \/
  (exists pa pb, enr_to_public c kt (content a) = Ok pa /\ enr_to_public c kt (content b) = Ok pb /\
                 keccak256 (pk_unc pa) = keccak256 (pk_unc pb) /\
                 signed_payload a <> signed_payload b /\
                 verify_v4 c pa (signed_payload a) (sig a) = true /\ verify_v4 c pb (signed_payload b) (sig a) = true).
Proof. exact Thm_More.eq_same_content_or_collision. Qed.
Print Assumptions eq_same_content_or_collision.

(* a record equals its decode-after-encode image (and its clone: the same value) *)
Theorem eq_redecode : forall (c : crypto) kt r r' rest,
  Valid c kt r -> decode c kt (encode r) = Ok (r', rest) -> rec_eqb r r' = true /\ r' = r.
Proof.
  intros c kt r r' rest Hv H. pose proof (WellFormedLemmas.valid_redecodes c kt r [] Hv) as D. rewrite app_nil_r in D.
  rewrite D in H. inversion H; subst. split; [apply Thm_Misc.rec_eqb_refl | reflexivity].
Qed.
Print Assumptions eq_redecode.

(* a record differs from any record with another key -- or the two keys' uncompressed forms collide under keccak256 *)
Theorem eq_other_key_is_collision : forall (c : crypto) kt a b pa pb,
  Valid c kt a -> Valid c kt b -> public_key c kt a = Ok pa -> public_key c kt b = Ok pb ->
  pk_unc pa <> pk_unc pb -> rec_eqb a b = true ->
  keccak256 (pk_unc pa) = keccak256 (pk_unc pb).
Proof.
  intros c kt a b pa pb Va Vb Pa Pb Hne E. apply Thm_Misc.rec_eqb_iff in E. destruct E as (_ & En & _).
  destruct (Thm_Valid.valid_observables c kt a Va) as (qa & Qa & _ & _ & Na & _).
  destruct (Thm_Valid.valid_observables c kt b Vb) as (qb & Qb & _ & _ & Nb & _).
  rewrite Pa in Qa. rewrite Pb in Qb. inversion Qa; inversion Qb; subst.
  unfold node_id_of in Na, Nb. rewrite <- Na, <- Nb. exact En.
Qed.
Print Assumptions eq_other_key_is_collision.
