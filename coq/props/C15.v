(* C15 — equality, hashing and content comparison are coherent. *)
Require Import Enr.Bytes Enr.Consts Enr.Rlp Enr.SortedMap Enr.Keccak Enr.Record.
Require Import EnrProofs.Thm_Misc.
Open Scope N_scope.

Theorem rec_eqb_iff : forall a b, rec_eqb a b = true <-> seq a = seq b /\ nid a = nid b /\ sig a = sig b.
Proof. exact Thm_Misc.rec_eqb_iff. Qed.
Print Assumptions rec_eqb_iff.
Theorem rec_eqb_refl : forall a, rec_eqb a a = true.
Proof. exact Thm_Misc.rec_eqb_refl. Qed.
Print Assumptions rec_eqb_refl.
Theorem rec_eqb_sym : forall a b, rec_eqb a b = rec_eqb b a.
Proof. exact Thm_Misc.rec_eqb_sym. Qed.
Print Assumptions rec_eqb_sym.
Theorem rec_eqb_trans : forall a b d, rec_eqb a b = true -> rec_eqb b d = true -> rec_eqb a d = true.
Proof. exact Thm_Misc.rec_eqb_trans. Qed.
Print Assumptions rec_eqb_trans.
Theorem rec_eqb_hash : forall a b, rec_eqb a b = true -> hash_input a = hash_input b.
Proof. exact Thm_Misc.rec_eqb_hash. Qed.
Print Assumptions rec_eqb_hash.
Theorem rec_eqb_differs : forall a b, seq a <> seq b \/ nid a <> nid b \/ sig a <> sig b -> rec_eqb a b = false.
Proof. exact Thm_Misc.rec_eqb_differs. Qed.
Print Assumptions rec_eqb_differs.
Theorem compare_content_iff_payload : forall a b, compare_content a b = true <-> signed_payload a = signed_payload b.
Proof. exact Thm_Misc.compare_content_iff_payload. Qed.
Print Assumptions compare_content_iff_payload.
