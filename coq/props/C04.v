(* C04 — lossless canonical round trip between bytes, record, text and JSON. *)
Require Import Enr.Bytes Enr.Consts Enr.Rlp Enr.SortedMap Enr.Keccak Enr.Record Enr.Update Enr.Text Enr.Spec Enr.Toy.
Require Import EnrProofs.Thm_BuildRoundtrip.
Require Import EnrProofs.Thm_Decode EnrProofs.Thm_Text EnrProofs.Thm_Valid EnrProofs.Thm_Roundtrip.
Open Scope N_scope.

(* re-encoding the decoded record reproduces the consumed input bytes exactly *)
Theorem decode_canonical : forall (c : crypto) kt b r rest,
  bytes_ok b -> decode c kt b = Ok (r, rest) -> b = encode r ++ rest.
Proof. exact Thm_Decode.decode_canonical. Qed.
Print Assumptions decode_canonical.

(* no two byte strings for one record *)
Theorem decode_injective : forall (c : crypto) kt b1 b2 r,
  bytes_ok b1 -> bytes_ok b2 ->
  decode c kt b1 = Ok (r, []) -> decode c kt b2 = Ok (r, []) -> b1 = b2.
Proof. exact Thm_Decode.decode_injective. Qed.
Print Assumptions decode_injective.

(* the record reports what an independent parse of the bytes gives: the framing is the definition of encode *)
Theorem decode_reports_parse : forall (c : crypto) kt b r rest,
  bytes_ok b -> decode c kt b = Ok (r, rest) ->
  b = enc_list (enc_string (sig r) ++ payload_body (seq r) (content r)) ++ rest /\
  signed_payload r = enc_list (payload_body (seq r) (content r)) /\
  payload_body (seq r) (content r) = enc_uint (seq r) ++ flat_map enc_pair (content r).
Proof. exact Thm_Decode.signed_payload_is_input. Qed.
Print Assumptions decode_reports_parse.

(* text: b64 round trip and canonicity; both canonical strings parse back whenever the bytes do *)
Theorem b64_roundtrip : forall x, bytes_ok x -> b64_decode (b64_encode x) = Some x.
Proof. exact Thm_Text.b64_roundtrip. Qed.
Print Assumptions b64_roundtrip.

Theorem text_roundtrip : forall (c : crypto) kt r,
  bytes_ok (encode r) -> decode c kt (encode r) = Ok (r, []) ->
  from_str c kt (to_text r) = Ok r /\ (3 <= lenN (encode r) -> from_str c kt (b64_encode (encode r)) = Ok r).
Proof. exact Thm_Text.from_str_accepts. Qed.
Print Assumptions text_roundtrip.

Theorem json_roundtrip : forall (c : crypto) kt body,
  forallb plain_json_char body = true ->
  from_json c kt ([34] ++ body ++ [34]) = Some (from_str c kt body).
Proof. exact Thm_Text.from_json_plain. Qed.
Print Assumptions json_roundtrip.

(* every record the library returns encodes to bytes, text (with and without prefix) and JSON that decode
   back to the SAME record (hence equal, with identical observable fields) *)
Theorem valid_roundtrip : forall (c : crypto) kt r,
  Valid c kt r -> rec_bytes_ok r ->
  decode c kt (encode r) = Ok (r, []) /\
  from_str c kt (to_text r) = Ok r /\
  from_str c kt (b64_encode (encode r)) = Ok r /\
  from_json c kt (to_json r) = Some (Ok r).
Proof. exact Thm_Roundtrip.valid_roundtrip. Qed.
Print Assumptions valid_roundtrip.

(* ... which covers what decode returns ... *)
Theorem decode_rec_bytes_ok : forall (c : crypto) kt b r rest,
  bytes_ok b -> decode c kt b = Ok (r, rest) -> rec_bytes_ok r.
Proof. exact Thm_Roundtrip.decode_rec_bytes_ok. Qed.
Print Assumptions decode_rec_bytes_ok.

(* ... and every record reachable through any history of builder/update calls with arbitrary arguments *)
Theorem history_roundtrip : forall (c : crypto) kt h r,
  Valid c kt r -> rec_bytes_ok r -> Forall (call_ok_b c kt) h ->
  Valid c kt (run c kt r h) /\ rec_bytes_ok (run c kt r h).
Proof. exact Thm_Roundtrip.history_roundtrip. Qed.
Print Assumptions history_roundtrip.

Theorem reachable_roundtrip : forall (c : crypto) kt h r,
  Valid c kt r -> rec_bytes_ok r -> Forall (call_ok_b c kt) h ->
  let r' := run c kt r h in
  decode c kt (encode r') = Ok (r', []) /\ from_str c kt (to_text r') = Ok r' /\ from_json c kt (to_json r') = Some (Ok r').
Proof.
  intros c kt h r Hv Hb Hall r'. destruct (Thm_Roundtrip.history_roundtrip c kt h r Hv Hb Hall) as [Hv' Hb'].
  destruct (Thm_Roundtrip.valid_roundtrip c kt r' Hv' Hb') as (H1 & H2 & _ & H4). auto.
Qed.
Print Assumptions reachable_roundtrip.

(* non-vacuity: the toy record round-trips through text and JSON by computation *)
Example toy_roundtrip :
  match toy_built with
  | Ok r => from_str toy_crypto Toy (to_text r) = Ok r /\ from_json toy_crypto Toy (to_json r) = Some (Ok r)
  | _ => False
  end.
Proof. vm_compute. split; reflexivity. Qed.

(* ... and from the builder: every record `build` returns decodes back from bytes, text and JSON as itself
   (bcall_bytes_ok: the keys given to add_value / add_value_rlp are byte strings) *)
Theorem build_roundtrip : forall (c : crypto) kt sq calls k sg r,
  sq < 2 ^ 64 -> Forall bcall_ok calls -> Forall bcall_bytes_ok calls -> key_bytes_ok k -> KeyOk c kt k -> GoodSigner c k sg ->
  SignerBytes sg -> build c kt sq calls k sg = Ok r ->
  decode c kt (encode r) = Ok (r, []) /\ from_str c kt (to_text r) = Ok r /\ from_json c kt (to_json r) = Some (Ok r).
Proof. exact Thm_BuildRoundtrip.build_roundtrip. Qed.
Print Assumptions build_roundtrip.
