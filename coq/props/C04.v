(* C04 — lossless canonical round trip between bytes, record, text and JSON. *)
Require Import Enr.Bytes Enr.Consts Enr.Rlp Enr.SortedMap Enr.Keccak Enr.Record Enr.Text.
Require Import EnrProofs.Thm_Decode EnrProofs.Thm_Text.
Open Scope N_scope.

(* re-encoding the decoded record reproduces the consumed input bytes exactly *)
Theorem decode_canonical : forall (c : crypto) kt b r rest,
  bytes_ok b -> decode c kt b = Ok (r, rest) -> b = encode r ++ rest.
Proof. exact Thm_Decode.decode_canonical. Qed.
Print Assumptions decode_canonical.

(* no two byte strings for one record *)
Theorem decode_injective : forall (c : crypto) kt b1 b2 r,
  bytes_ok b1 -> bytes_ok b2 ->
  decode c kt b1 = Ok (r, []) -> decode c kt b2 = Ok (r, []) -> b1 = b2.
Proof. exact Thm_Decode.decode_injective. Qed.
Print Assumptions decode_injective.

(* the record reports what an independent parse of the bytes gives: the framing is the definition of encode *)
Theorem decode_reports_parse : forall (c : crypto) kt b r rest,
  bytes_ok b -> decode c kt b = Ok (r, rest) ->
  b = enc_list (enc_string (sig r) ++ payload_body (seq r) (content r)) ++ rest /\
  signed_payload r = enc_list (payload_body (seq r) (content r)) /\
  payload_body (seq r) (content r) = enc_uint (seq r) ++ flat_map enc_pair (content r).
Proof. exact Thm_Decode.signed_payload_is_input. Qed.
Print Assumptions decode_reports_parse.

(* text: b64 round trip and canonicity; both canonical strings parse back whenever the bytes do *)
Theorem b64_roundtrip : forall x, bytes_ok x -> b64_decode (b64_encode x) = Some x.
Proof. exact Thm_Text.b64_roundtrip. Qed.
Print Assumptions b64_roundtrip.

Theorem text_roundtrip : forall (c : crypto) kt r,
  bytes_ok (encode r) -> decode c kt (encode r) = Ok (r, []) ->
  from_str c kt (to_text r) = Ok r /\ (3 <= lenN (encode r) -> from_str c kt (b64_encode (encode r)) = Ok r).
Proof. exact Thm_Text.from_str_accepts. Qed.
Print Assumptions text_roundtrip.

Theorem json_roundtrip : forall (c : crypto) kt body,
  forallb plain_json_char body = true ->
  from_json c kt ([34] ++ body ++ [34]) = Some (from_str c kt body).
Proof. exact Thm_Text.from_json_plain. Qed.
Print Assumptions json_roundtrip.
