(* C06 — a failed update leaves the record untouched (atomicity, incl. signing faults).
   Holds for every record (valid or not), every operation, every signer (failing, lying, of any
   output length) and every behaviour of the crypto cores. *)
Require Import Enr.Bytes Enr.Consts Enr.Rlp Enr.SortedMap Enr.Keccak Enr.Record Enr.Update Enr.Spec.
Require Import Enr.Stmt Enr.Toy EnrProofs.Thm_Stmt.
Require Import EnrProofs.Thm_Update EnrProofs.Thm_Valid.
Open Scope N_scope.

Theorem step_err_unchanged : forall (c : crypto) kt r o k sg e r',
  step c kt r o k sg = (Err e, r') -> r' = r.
Proof. exact Thm_Update.step_err_unchanged. Qed.
Print Assumptions step_err_unchanged.

Theorem err_observably_identical : forall (c : crypto) kt r o k sg e r',
  step c kt r o k sg = (Err e, r') ->
  seq r' = seq r /\ nid r' = nid r /\ sig r' = sig r /\ content r' = content r /\
  encode r' = encode r /\ verify c kt r' = verify c kt r.
Proof. exact Thm_Update.err_observably_identical. Qed.
Print Assumptions err_observably_identical.

(* anything but Ok (error or panic) leaves the record as it was *)
Theorem step_not_ok_unchanged : forall (c : crypto) kt r o k sg,
  is_ok (fst (step c kt r o k sg)) = false -> snd (step c kt r o k sg) = r.
Proof. exact Thm_Update.step_not_ok_unchanged. Qed.
Print Assumptions step_not_ok_unchanged.

(* a failing signer: no operation succeeds and the record is unchanged *)
Theorem signer_fault : forall (c : crypto) kt r o k sg,
  seq r < 2 ^ 64 -> (forall n, o = OSetSeq n -> n < 2 ^ 64) ->
  (forall m, sg m = None) ->
  (forall x r', apply_op c kt r o k sg <> Ok (x, r')) /\ snd (step c kt r o k sg) = r.
Proof. exact Thm_Update.signer_fault. Qed.
Print Assumptions signer_fault.

(* ... and it still verifies: a valid record stays valid through any failed call, whatever the signer did *)
Theorem err_still_valid : forall (c : crypto) kt r o k sg e r',
  Valid c kt r -> step c kt r o k sg = (Err e, r') -> Valid c kt r' /\ verify c kt r' = Ok true.
Proof.
  intros c kt r o k sg e r' Hv H. rewrite (Thm_Update.step_err_unchanged c kt _ _ _ _ _ _ H).
  split; [exact Hv|]. destruct (Thm_Valid.valid_observables c kt r Hv) as (pk & _ & Hver & _). exact Hver.
Qed.
Print Assumptions err_still_valid.

(* ---- the same at the level of statements (theories/Stmt.v): the Rust bodies written out statement by statement over the
   caller's record and the working copy `new_enr`; `?` stops the body where it stands; `*self = new_enr` is a statement.
   (a) every body of the update API has its only commit as the last statement; (b) such a body leaves the caller's record
   untouched unless it ends with Ok — whatever was done to the working copy, wherever it stopped; (c) running a body
   statement by statement gives exactly the outcome and the caller's record of the functional model [step], so all
   theorems about [step] are theorems about these bodies. ---- *)
Theorem prog_commit_last : forall o k sg, exists pre, prog_of o k sg = pre ++ [SCommit] /\ Forall (fun s => s <> SCommit) pre.
Proof. exact Thm_Stmt.prog_commit_last. Qed.
Print Assumptions prog_commit_last.

Theorem commit_last_atomic : forall (c : crypto) kt p m x m',
  Forall (fun s => s <> SCommit) p -> exec c kt (p ++ [SCommit]) m = (x, m') -> x <> Ok tt -> self_r m' = self_r m.
Proof. exact Thm_Stmt.commit_last_atomic. Qed.
Print Assumptions commit_last_atomic.

Theorem call_not_ok_unchanged : forall (c : crypto) kt o k sg r x r',
  call c kt (prog_of o k sg) r = (x, r') -> x <> Ok tt -> r' = r.
Proof. exact Thm_Stmt.call_not_ok_unchanged. Qed.
Print Assumptions call_not_ok_unchanged.

Theorem call_is_step : forall (c : crypto) kt o r k sg,
  call c kt (prog_of o k sg) r =
  (match fst (step c kt r o k sg) with Ok _ => Ok tt | Err e => Err e | Panic => Panic end, snd (step c kt r o k sg)).
Proof. exact Thm_Stmt.call_is_step. Qed.
Print Assumptions call_is_step.

(* non-vacuity: the toy record's set_tcp4 body, run statement by statement, ends with Ok and commits *)
Example toy_body_runs :
  match toy_built with
  | Ok r => fst (call toy_crypto Toy (prog_of (OSetTcp4 8080) (toy_key toy_pk1) (toy_signer toy_pk1 [])) r) = Ok tt /\
            snd (call toy_crypto Toy (prog_of (OSetTcp4 8080) (toy_key toy_pk1) (toy_signer toy_pk1 [])) r) <> r
  | _ => False
  end.
Proof. vm_compute. split; [reflexivity | discriminate]. Qed.
