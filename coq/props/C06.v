(* C06 — a failed update leaves the record untouched (atomicity, incl. signing faults).
   Holds for every record (valid or not), every operation, every signer (failing, lying, of any
   output length) and every behaviour of the crypto cores. *)
Require Import Enr.Bytes Enr.Consts Enr.Rlp Enr.SortedMap Enr.Keccak Enr.Record Enr.Update Enr.Spec.
Require Import EnrProofs.Thm_Update EnrProofs.Thm_Valid.
Open Scope N_scope.

Theorem step_err_unchanged : forall (c : crypto) kt r o k sg e r',
  step c kt r o k sg = (Err e, r') -> r' = r.
Proof. exact Thm_Update.step_err_unchanged. Qed.
Print Assumptions step_err_unchanged.

Theorem err_observably_identical : forall (c : crypto) kt r o k sg e r',
  step c kt r o k sg = (Err e, r') ->
  seq r' = seq r /\ nid r' = nid r /\ sig r' = sig r /\ content r' = content r /\
  encode r' = encode r /\ verify c kt r' = verify c kt r.
Proof. exact Thm_Update.err_observably_identical. Qed.
Print Assumptions err_observably_identical.

(* anything but Ok (error or panic) leaves the record as it was *)
Theorem step_not_ok_unchanged : forall (c : crypto) kt r o k sg,
  is_ok (fst (step c kt r o k sg)) = false -> snd (step c kt r o k sg) = r.
Proof. exact Thm_Update.step_not_ok_unchanged. Qed.
Print Assumptions step_not_ok_unchanged.

(* a failing signer: no operation succeeds and the record is unchanged *)
Theorem signer_fault : forall (c : crypto) kt r o k sg,
  seq r < 2 ^ 64 -> (forall n, o = OSetSeq n -> n < 2 ^ 64) ->
  (forall m, sg m = None) ->
  (forall x r', apply_op c kt r o k sg <> Ok (x, r')) /\ snd (step c kt r o k sg) = r.
Proof. exact Thm_Update.signer_fault. Qed.
Print Assumptions signer_fault.

(* ... and it still verifies: a valid record stays valid through any failed call, whatever the signer did *)
Theorem err_still_valid : forall (c : crypto) kt r o k sg e r',
  Valid c kt r -> step c kt r o k sg = (Err e, r') -> Valid c kt r' /\ verify c kt r' = Ok true.
Proof.
  intros c kt r o k sg e r' Hv H. rewrite (Thm_Update.step_err_unchanged c kt _ _ _ _ _ _ H).
  split; [exact Hv|]. destruct (Thm_Valid.valid_observables c kt r Hv) as (pk & _ & Hver & _). exact Hver.
Qed.
Print Assumptions err_still_valid.
