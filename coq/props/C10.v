(* C10 — the node id is keccak256 of the record's public key (uncompressed form) and nothing else. *)
Require Import Enr.Bytes Enr.Consts Enr.Rlp Enr.SortedMap Enr.Keccak Enr.Record Enr.Update.
Require Import Enr.Spec.
Require Import EnrProofs.KeccakLemmas.
Require Import EnrProofs.Thm_Small EnrProofs.Thm_Sites.
Require Import EnrProofs.Thm_Decode EnrProofs.Thm_Update EnrProofs.Thm_Valid.
Open Scope N_scope.

Theorem decode_nid : forall (c : crypto) kt b r rest,
  bytes_ok b -> decode c kt b = Ok (r, rest) ->
  exists pk, enr_to_public c kt (content r) = Ok pk /\ nid r = keccak256 (pk_unc pk).
Proof. exact Thm_Decode.decode_nid. Qed.
Print Assumptions decode_nid.

Theorem step_nid : forall (c : crypto) kt r o k sg x r',
  seq r < 2 ^ 64 -> (forall n, o = OSetSeq n -> n < 2 ^ 64) ->
  step c kt r o k sg = (Ok x, r') -> nid r' = keccak256 (pk_unc (sk_pub k)).
Proof. exact Thm_Update.step_nid. Qed.
Print Assumptions step_nid.

Theorem build_nid : forall (c : crypto) kt sq calls k sg r,
  sq < 2 ^ 64 -> build c kt sq calls k sg = Ok r -> nid r = keccak256 (pk_unc (sk_pub k)).
Proof. exact Thm_Update.build_nid. Qed.
Print Assumptions build_nid.

(* after an update the record's effective public key is the signer's, and the id is that key's *)
Theorem step_rekeys : forall (c : crypto) kt r o k sg x r',
  seq r < 2 ^ 64 -> (forall n, o = OSetSeq n -> n < 2 ^ 64) ->
  step c kt r o k sg = (Ok x, r') ->
  exists p, enr_to_public c kt (content r') = Ok p /\ pk_enc p = pk_enc (sk_pub k) /\
            nid r' = node_id_of (sk_pub k) /\ sg (signed_payload r') = Some (sig r').
Proof. exact Thm_Update.step_rekeys. Qed.
Print Assumptions step_rekeys.

(* a function of the key alone: same key, same id, whatever the content or the history *)
Theorem nid_function_of_key : forall (c : crypto) kt r1 r2 o1 o2 k sg1 sg2 x1 x2 r1' r2',
  seq r1 < 2 ^ 64 -> seq r2 < 2 ^ 64 ->
  (forall n, o1 = OSetSeq n -> n < 2 ^ 64) -> (forall n, o2 = OSetSeq n -> n < 2 ^ 64) ->
  step c kt r1 o1 k sg1 = (Ok x1, r1') -> step c kt r2 o2 k sg2 = (Ok x2, r2') -> nid r1' = nid r2'.
Proof.
  intros c kt r1 r2 o1 o2 k sg1 sg2 x1 x2 r1' r2' H1 H2 N1 N2 S1 S2.
  rewrite (Thm_Update.step_nid c kt _ _ _ _ _ _ H1 N1 S1), (Thm_Update.step_nid c kt _ _ _ _ _ _ H2 N2 S2). reflexivity.
Qed.
Print Assumptions nid_function_of_key.

(* for every record handed out: the id equals the one derived from the public-key accessor's value *)
Theorem valid_nid_via_accessor : forall (c : crypto) kt r, Valid c kt r ->
  exists pk, public_key c kt r = Ok pk /\ nid r = keccak256 (pk_unc pk).
Proof.
  intros c kt r Hv. destruct (Thm_Valid.valid_observables c kt r Hv) as (pk & Hp & _ & _ & Hn & _). exists pk. auto.
Qed.
Print Assumptions valid_nid_via_accessor.

(* two valid records with the same effective key have the same id, whatever their content *)
Theorem valid_same_key_same_nid : forall (c : crypto) kt r1 r2 pk,
  Valid c kt r1 -> Valid c kt r2 -> public_key c kt r1 = Ok pk -> public_key c kt r2 = Ok pk -> nid r1 = nid r2.
Proof.
  intros c kt r1 r2 pk V1 V2 P1 P2.
  destruct (Thm_Valid.valid_observables c kt r1 V1) as (p1 & Q1 & _ & _ & N1 & _).
  destruct (Thm_Valid.valid_observables c kt r2 V2) as (p2 & Q2 & _ & _ & N2 & _).
  rewrite P1 in Q1. rewrite P2 in Q2. inversion Q1; inversion Q2; subst. rewrite N1, N2. reflexivity.
Qed.
Print Assumptions valid_same_key_same_nid.

(* the id does not change under any update made with the same key *)
Theorem same_key_update_keeps_nid : forall (c : crypto) kt r o k sg x r',
  Valid c kt r -> public_key c kt r = Ok (sk_pub k) -> (forall n, o = OSetSeq n -> n < 2 ^ 64) ->
  step c kt r o k sg = (Ok x, r') -> nid r' = nid r.
Proof.
  intros c kt r o k sg x r' Hv Hp Hn H.
  destruct (Thm_Valid.valid_observables c kt r Hv) as (pk & Q & _ & _ & N & _ & Hs & _).
  rewrite Hp in Q. inversion Q; subst pk.
  rewrite (Thm_Update.step_nid c kt _ _ _ _ _ _ Hs Hn H), N. reflexivity.
Qed.
Print Assumptions same_key_update_keeps_nid.

(* the hash in these statements is the real keccak256: standard vectors, evaluated by the kernel
   (empty input, "abc", and a two-block message of 200 bytes 0xa3) *)
Theorem keccak256_vectors :
  keccak256 [] = [0xc5;0xd2;0x46;0x01;0x86;0xf7;0x23;0x3c;0x92;0x7e;0x7d;0xb2;0xdc;0xc7;0x03;0xc0;
                  0xe5;0x00;0xb6;0x53;0xca;0x82;0x27;0x3b;0x7b;0xfa;0xd8;0x04;0x5d;0x85;0xa4;0x70] /\
  keccak256 [97; 98; 99] = [0x4e;0x03;0x65;0x7a;0xea;0x45;0xa9;0x4f;0xc7;0xd4;0x7b;0xa8;0x26;0xc8;0xd6;0x67;
                            0xc0;0xd1;0xe6;0xe3;0x3a;0x64;0xa0;0x36;0xec;0x44;0xf5;0x8f;0xa1;0x2d;0x6c;0x45] /\
  keccak256 (repeat 0xa3 200) = [0x3a;0x57;0x66;0x6b;0x04;0x87;0x77;0xf2;0xc9;0x53;0xdc;0x44;0x56;0xf4;0x5a;0x25;
                                 0x88;0xe1;0xcb;0x6f;0x2d;0xa7;0x60;0x12;0x2d;0x53;0x0a;0xc2;0xce;0x60;0x7d;0x4a].
Proof. exact (conj Thm_Small.keccak256_empty (conj Thm_Small.keccak256_abc Thm_Small.keccak256_two_blocks)). Qed.
Print Assumptions keccak256_vectors.
Theorem node_id_is_32_bytes : forall pk, lenN (node_id_of pk) = 32.
Proof. exact Thm_Sites.node_id_len. Qed.
Print Assumptions node_id_is_32_bytes.

(* the absorbing loop of the model's keccak256 ends because the input is exhausted, never because its fuel is:
   any larger fuel gives the same digest (so the fuelled definition is the real sponge, not a truncation of it) *)
Theorem keccak256_fuel_never_decides : forall m extra,
  keccak256 m =
  flat_map (le_bytes 8) (firstn 4 (absorb (S (Nat.div (length (kpad m)) rate) + extra)%nat (repeat 0 25%nat) (kpad m))).
Proof. exact KeccakLemmas.keccak256_fuel_never_decides. Qed.
Print Assumptions keccak256_fuel_never_decides.
