(* C10 — the node id is keccak256 of the record's public key (uncompressed form) and nothing else. *)
Require Import Enr.Bytes Enr.Consts Enr.Rlp Enr.SortedMap Enr.Keccak Enr.Record Enr.Update.
Require Import Enr.Spec.
Require Import EnrProofs.Thm_Decode EnrProofs.Thm_Update EnrProofs.Thm_Valid.
Open Scope N_scope.

Theorem decode_nid : forall (c : crypto) kt b r rest,
  bytes_ok b -> decode c kt b = Ok (r, rest) ->
  exists pk, enr_to_public c kt (content r) = Ok pk /\ nid r = keccak256 (pk_unc pk).
Proof. exact Thm_Decode.decode_nid. Qed.
Print Assumptions decode_nid.

Theorem step_nid : forall (c : crypto) kt r o k sg x r',
  seq r < 2 ^ 64 -> (forall n, o = OSetSeq n -> n < 2 ^ 64) ->
  step c kt r o k sg = (Ok x, r') -> nid r' = keccak256 (pk_unc (sk_pub k)).
Proof. exact Thm_Update.step_nid. Qed.
Print Assumptions step_nid.

Theorem build_nid : forall (c : crypto) kt sq calls k sg r,
  sq < 2 ^ 64 -> build c kt sq calls k sg = Ok r -> nid r = keccak256 (pk_unc (sk_pub k)).
Proof. exact Thm_Update.build_nid. Qed.
Print Assumptions build_nid.

(* after an update the record's effective public key is the signer's, and the id is that key's *)
Theorem step_rekeys : forall (c : crypto) kt r o k sg x r',
  seq r < 2 ^ 64 -> (forall n, o = OSetSeq n -> n < 2 ^ 64) ->
  step c kt r o k sg = (Ok x, r') ->
  exists p, enr_to_public c kt (content r') = Ok p /\ pk_enc p = pk_enc (sk_pub k) /\
            nid r' = node_id_of (sk_pub k) /\ sg (signed_payload r') = Some (sig r').
Proof. exact Thm_Update.step_rekeys. Qed.
Print Assumptions step_rekeys.

(* a function of the key alone: same key, same id, whatever the content or the history *)
Theorem nid_function_of_key : forall (c : crypto) kt r1 r2 o1 o2 k sg1 sg2 x1 x2 r1' r2',
  seq r1 < 2 ^ 64 -> seq r2 < 2 ^ 64 ->
  (forall n, o1 = OSetSeq n -> n < 2 ^ 64) -> (forall n, o2 = OSetSeq n -> n < 2 ^ 64) ->
  step c kt r1 o1 k sg1 = (Ok x1, r1') -> step c kt r2 o2 k sg2 = (Ok x2, r2') -> nid r1' = nid r2'.
Proof.
  intros c kt r1 r2 o1 o2 k sg1 sg2 x1 x2 r1' r2' H1 H2 N1 N2 S1 S2.
  rewrite (Thm_Update.step_nid c kt _ _ _ _ _ _ H1 N1 S1), (Thm_Update.step_nid c kt _ _ _ _ _ _ H2 N2 S2). reflexivity.
Qed.
Print Assumptions nid_function_of_key.

(* for every record handed out: the id equals the one derived from the public-key accessor's value *)
Theorem valid_nid_via_accessor : forall (c : crypto) kt r, Valid c kt r ->
  exists pk, public_key c kt r = Ok pk /\ nid r = keccak256 (pk_unc pk).
Proof.
  intros c kt r Hv. destruct (Thm_Valid.valid_observables c kt r Hv) as (pk & Hp & _ & _ & Hn & _). exists pk. auto.
Qed.
Print Assumptions valid_nid_via_accessor.

(* two valid records with the same effective key have the same id, whatever their content *)
Theorem valid_same_key_same_nid : forall (c : crypto) kt r1 r2 pk,
  Valid c kt r1 -> Valid c kt r2 -> public_key c kt r1 = Ok pk -> public_key c kt r2 = Ok pk -> nid r1 = nid r2.
Proof.
  intros c kt r1 r2 pk V1 V2 P1 P2.
  destruct (Thm_Valid.valid_observables c kt r1 V1) as (p1 & Q1 & _ & _ & N1 & _).
  destruct (Thm_Valid.valid_observables c kt r2 V2) as (p2 & Q2 & _ & _ & N2 & _).
  rewrite P1 in Q1. rewrite P2 in Q2. inversion Q1; inversion Q2; subst. rewrite N1, N2. reflexivity.
Qed.
Print Assumptions valid_same_key_same_nid.

(* the id does not change under any update made with the same key *)
Theorem same_key_update_keeps_nid : forall (c : crypto) kt r o k sg x r',
  Valid c kt r -> public_key c kt r = Ok (sk_pub k) -> (forall n, o = OSetSeq n -> n < 2 ^ 64) ->
  step c kt r o k sg = (Ok x, r') -> nid r' = nid r.
Proof.
  intros c kt r o k sg x r' Hv Hp Hn H.
  destruct (Thm_Valid.valid_observables c kt r Hv) as (pk & Q & _ & _ & N & _ & Hs & _).
  rewrite Hp in Q. inversion Q; subst pk.
  rewrite (Thm_Update.step_nid c kt _ _ _ _ _ _ Hs Hn H), N. reflexivity.
Qed.
Print Assumptions same_key_update_keeps_nid.
