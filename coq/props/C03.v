(* C03 — total functions: no input or call sequence makes the library panic.
   In the model every expect/unwrap/index of the Rust is a place where a function returns [Panic]
   when its guard is false. Panics inside dependencies on inputs the model does not send them,
   allocation failure and aborts are runtime behaviour a Gallina model cannot exhibit (sampled by
   catch_unwind + timeout in the correspondence run). *)
Require Import Enr.Bytes Enr.Consts Enr.Rlp Enr.SortedMap Enr.Keccak Enr.Record Enr.Update Enr.Text Enr.Spec.
Require Import Enr.NodeId EnrProofs.Thm_Sites.
Require Import EnrProofs.Thm_Misc EnrProofs.Thm_More EnrProofs.Thm_Valid EnrProofs.FuelLemmas.
Open Scope N_scope.

Theorem decode_no_panic : forall (c : crypto) kt b, decode c kt b <> Panic.
Proof. exact Thm_Misc.decode_no_panic. Qed.
Print Assumptions decode_no_panic.

Theorem decode_vec_no_panic : forall (c : crypto) kt b, decode_vec c kt b <> Panic.
Proof. exact Thm_Misc.decode_vec_no_panic. Qed.
Print Assumptions decode_vec_no_panic.

Theorem from_str_no_panic : forall (c : crypto) kt s, from_str c kt s <> Panic.
Proof. exact Thm_Misc.from_str_no_panic. Qed.
Print Assumptions from_str_no_panic.

Theorem from_json_no_panic : forall (c : crypto) kt s x, from_json c kt s = Some x -> x <> Panic.
Proof. exact Thm_Misc.from_json_no_panic. Qed.
Print Assumptions from_json_no_panic.

Theorem enr_to_public_no_panic : forall (c : crypto) kt m, enr_to_public c kt m <> Panic.
Proof. exact Thm_Misc.enr_to_public_no_panic. Qed.
Print Assumptions enr_to_public_no_panic.

Theorem verify_no_panic : forall (c : crypto) kt r,
  (exists p, enr_to_public c kt (content r) = Ok p) -> verify c kt r <> Panic.
Proof. exact Thm_Misc.verify_no_panic. Qed.
Print Assumptions verify_no_panic.

Theorem get_no_panic : forall r k x, get r k = Some x ->
  (forall v, sm_get k (content r) = Some v -> exists l n p, hdr_decode v = Ok (l, n, p)) -> x <> Panic.
Proof. exact Thm_Misc.get_no_panic. Qed.
Print Assumptions get_no_panic.

(* every update call with arbitrary arguments, on ANY record, with ANY signer: never a panic *)
Theorem step_no_panic : forall (c : crypto) kt r o k sg, fst (step c kt r o k sg) <> Panic.
Proof. exact Thm_More.step_no_panic. Qed.
Print Assumptions step_no_panic.

Theorem build_no_panic : forall (c : crypto) kt sq calls k sg, build c kt sq calls k sg <> Panic.
Proof. exact Thm_More.build_no_panic. Qed.
Print Assumptions build_no_panic.

(* accessors on any record the library handed out (Valid, by C05): get's expect, public_key's expect and
   verify never fire *)
Theorem get_total : forall r k x, Forall pair_ok (content r) -> get r k = Some x -> exists v, x = Ok v.
Proof. exact Thm_More.get_total. Qed.
Print Assumptions get_total.

Theorem valid_accessors_total : forall (c : crypto) kt r, Valid c kt r ->
  (exists pk, public_key c kt r = Ok pk) /\ verify c kt r = Ok true /\
  (forall k x, get r k = Some x -> exists v, x = Ok v).
Proof. exact Thm_More.valid_accessors_total. Qed.
Print Assumptions valid_accessors_total.

(* hence along every history: whatever the calls, the record held afterwards has total accessors *)
Theorem history_accessors_total : forall (c : crypto) kt h r,
  Valid c kt r -> Forall (call_ok c kt) h ->
  (exists pk, public_key c kt (run c kt r h) = Ok pk) /\ verify c kt (run c kt r h) = Ok true.
Proof.
  intros c kt h r Hv Hall. destruct (Thm_More.valid_accessors_total c kt _ (Thm_Valid.history_valid c kt h r Hv Hall)) as (H1 & H2 & _). auto.
Qed.
Print Assumptions history_accessors_total.

(* termination of the loops as modelled: every iteration of the pair loop / record loop consumes at least one byte, so the
   model's fuel (the payload length) never runs out -- the out-of-fuel marker is unreachable, for ALL inputs *)
Theorem decode_never_out_of_fuel : forall (c : crypto) kt b, decode c kt b <> Err EFuel.
Proof. exact FuelLemmas.decode_never_out_of_fuel. Qed.
Print Assumptions decode_never_out_of_fuel.

Theorem decode_vec_never_out_of_fuel : forall (c : crypto) kt b, decode_vec c kt b <> Err EFuel.
Proof. exact FuelLemmas.decode_vec_never_out_of_fuel. Qed.
Print Assumptions decode_vec_never_out_of_fuel.

(* ---- the guards of the Rust's slice / expect sites hold whenever the site is reached (so the model's
   truncating takeN and total conversions agree with the panicking Rust there) ---- *)
Theorem slice_in_bounds : forall b l n p, bytes_ok b -> hdr_decode b = Ok (l, n, p) -> n <= lenN p /\ lenN (takeN n p) = n.
Proof. exact Thm_Sites.slice_in_bounds. Qed.
Print Assumptions slice_in_bounds.
Theorem node_id_len : forall pk, lenN (node_id_of pk) = 32.
Proof. exact Thm_Sites.node_id_len. Qed.
Print Assumptions node_id_len.
Theorem display_slices_in_bounds : forall x, lenN x = 32 ->
  lenN (hex_encode x) = 64 /\ lenN (firstn 4 (hex_encode x)) = 4 /\
  lenN (skipn (length (hex_encode x) - 4) (hex_encode x)) = 4.
Proof. exact Thm_Sites.display_slices_in_bounds. Qed.
Print Assumptions display_slices_in_bounds.
