(* C03 — total functions: no input or call sequence makes the library panic.
   In the model every expect/unwrap/index of the Rust is a place where a function returns [Panic]
   when its guard is false. Panics inside dependencies on inputs the model does not send them,
   allocation failure and aborts are runtime behaviour a Gallina model cannot exhibit (sampled by
   catch_unwind + timeout in the correspondence run). *)
Require Import Enr.Bytes Enr.Consts Enr.Rlp Enr.SortedMap Enr.Keccak Enr.Record Enr.Text.
Require Import EnrProofs.Thm_Misc.
Open Scope N_scope.

Theorem decode_no_panic : forall (c : crypto) kt b, decode c kt b <> Panic.
Proof. exact Thm_Misc.decode_no_panic. Qed.
Print Assumptions decode_no_panic.

Theorem decode_vec_no_panic : forall (c : crypto) kt b, decode_vec c kt b <> Panic.
Proof. exact Thm_Misc.decode_vec_no_panic. Qed.
Print Assumptions decode_vec_no_panic.

Theorem from_str_no_panic : forall (c : crypto) kt s, from_str c kt s <> Panic.
Proof. exact Thm_Misc.from_str_no_panic. Qed.
Print Assumptions from_str_no_panic.

Theorem from_json_no_panic : forall (c : crypto) kt s x, from_json c kt s = Some x -> x <> Panic.
Proof. exact Thm_Misc.from_json_no_panic. Qed.
Print Assumptions from_json_no_panic.

Theorem enr_to_public_no_panic : forall (c : crypto) kt m, enr_to_public c kt m <> Panic.
Proof. exact Thm_Misc.enr_to_public_no_panic. Qed.
Print Assumptions enr_to_public_no_panic.

Theorem verify_no_panic : forall (c : crypto) kt r,
  (exists p, enr_to_public c kt (content r) = Ok p) -> verify c kt r <> Panic.
Proof. exact Thm_Misc.verify_no_panic. Qed.
Print Assumptions verify_no_panic.

Theorem get_no_panic : forall r k x, get r k = Some x ->
  (forall v, sm_get k (content r) = Some v -> exists l n p, hdr_decode v = Ok (l, n, p)) -> x <> Panic.
Proof. exact Thm_Misc.get_no_panic. Qed.
Print Assumptions get_no_panic.
