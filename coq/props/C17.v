(* C17 — CombinedKey secret import/export: exact, validating, wipes the input.
   The public key derived from a secret and "records signed with it verify" are library facts
   (sampled against libsecp256k1 / ed25519-dalek called directly), not theorems. *)
Require Import Enr.Bytes Enr.Record Enr.CombinedKey.
Require Import EnrProofs.Thm_NodeId.
Open Scope N_scope.

Theorem import_secp_iff : forall x, lenN x = 32 -> (imp_ok (import_secp x) <> None <-> 0 < be_val x < secp_n).
Proof. exact Thm_NodeId.import_secp_iff. Qed.
Print Assumptions import_secp_iff.

Theorem import_secp_export : forall x e, bytes_ok x -> lenN x = 32 -> imp_ok (import_secp x) = Some e -> e = x.
Proof. exact Thm_NodeId.import_secp_export. Qed.
Print Assumptions import_secp_export.

Theorem import_secp_wipes : forall x e, imp_ok (import_secp x) = Some e -> imp_buf (import_secp x) = repeat 0 (length x).
Proof. exact Thm_NodeId.import_secp_wipes. Qed.
Print Assumptions import_secp_wipes.

Theorem import_secp_fail_keeps : forall x, imp_ok (import_secp x) = None -> imp_buf (import_secp x) = x.
Proof. exact Thm_NodeId.import_secp_fail_keeps. Qed.
Print Assumptions import_secp_fail_keeps.

Theorem import_ed_iff : forall x, imp_ok (import_ed x) <> None <-> lenN x = 32.
Proof. exact Thm_NodeId.import_ed_iff. Qed.
Print Assumptions import_ed_iff.

Theorem import_ed_export : forall x e, imp_ok (import_ed x) = Some e -> e = x /\ imp_buf (import_ed x) = repeat 0 (length x).
Proof. exact Thm_NodeId.import_ed_export. Qed.
Print Assumptions import_ed_export.

Theorem import_ed_fail_keeps : forall x, imp_ok (import_ed x) = None -> imp_buf (import_ed x) = x.
Proof. exact Thm_NodeId.import_ed_fail_keeps. Qed.
Print Assumptions import_ed_fail_keeps.
