(* C14 — typed accessors agree with the raw content for every value.
   Premise [Forall pair_ok (content r)]: every stored value is one canonically framed item of its
   key's type — which holds for every record the library hands out (valid_pairs_ok, from C05).
   Port statements hold for ALL p by arithmetic (not by enumerating 65536 values). *)
Require Import Enr.Bytes Enr.Consts Enr.Rlp Enr.SortedMap Enr.Keccak Enr.Record Enr.Update Enr.Spec Enr.Toy.
Require Import EnrProofs.Thm_Access2.
Require Import EnrProofs.Thm_Valid EnrProofs.Thm_Refine EnrProofs.Thm_Access EnrProofs.Thm_ReadBack.
Open Scope N_scope.

Theorem valid_pairs_ok : forall (c : crypto) kt r, Valid c kt r -> Forall pair_ok (content r).
Proof. intros c kt r H. apply (Thm_Valid.valid_content c kt r H). Qed.
Print Assumptions valid_pairs_ok.

Theorem tcp4_iff : forall r, Forall pair_ok (content r) -> forall p,
  tcp4 r = Some p <-> sm_get k_tcp (content r) = Some (enc_uint p) /\ p < 65536.
Proof. exact Thm_Access.tcp4_iff. Qed.
Print Assumptions tcp4_iff.
Theorem tcp6_iff : forall r, Forall pair_ok (content r) -> forall p,
  tcp6 r = Some p <-> sm_get k_tcp6 (content r) = Some (enc_uint p) /\ p < 65536.
Proof. exact Thm_Access.tcp6_iff. Qed.
Print Assumptions tcp6_iff.
Theorem udp4_iff : forall r, Forall pair_ok (content r) -> forall p,
  udp4 r = Some p <-> sm_get k_udp (content r) = Some (enc_uint p) /\ p < 65536.
Proof. exact Thm_Access.udp4_iff. Qed.
Print Assumptions udp4_iff.
Theorem udp6_iff : forall r, Forall pair_ok (content r) -> forall p,
  udp6 r = Some p <-> sm_get k_udp6 (content r) = Some (enc_uint p) /\ p < 65536.
Proof. exact Thm_Access.udp6_iff. Qed.
Print Assumptions udp6_iff.

Theorem ip4_iff : forall r, Forall pair_ok (content r) -> forall a,
  ip4 r = Some a <-> sm_get k_ip (content r) = Some (enc_string a) /\ lenN a = 4.
Proof. exact Thm_Access.ip4_iff. Qed.
Print Assumptions ip4_iff.
Theorem ip6_iff : forall r, Forall pair_ok (content r) -> forall a,
  ip6 r = Some a <-> sm_get k_ip6 (content r) = Some (enc_string a) /\ lenN a = 16.
Proof. exact Thm_Access.ip6_iff. Qed.
Print Assumptions ip6_iff.

Theorem id_iff : forall r, Forall pair_ok (content r) -> forall s, lenN s < 2 ^ 64 ->
  (id r = Some s <-> sm_get k_id (content r) = Some (enc_string s)).
Proof. exact Thm_Access.id_iff. Qed.
Print Assumptions id_iff.

(* get_decodable::<Bytes>, ::<u16> (w = 2), ::<u64> (w = 8), ::<Vec<Bytes>> under any key *)
Theorem get_bytes_iff : forall r, Forall pair_ok (content r) -> forall k s, lenN s < 2 ^ 64 ->
  (get_bytes r k = Some (Ok s) <-> sm_get k (content r) = Some (enc_string s)).
Proof. exact Thm_Access.get_bytes_iff. Qed.
Print Assumptions get_bytes_iff.

Theorem get_uint_iff : forall r, Forall pair_ok (content r) -> forall w k n, w <= 8 ->
  (forall v, sm_get k (content r) = Some v -> bytes_ok v) ->
  (get_uint w r k = Some (Ok n) <-> sm_get k (content r) = Some (enc_uint n) /\ n < 256 ^ w).
Proof. exact Thm_Access.get_uint_iff. Qed.
Print Assumptions get_uint_iff.

Theorem get_strings_iff : forall r, Forall pair_ok (content r) -> forall k l,
  (forall v, sm_get k (content r) = Some v -> bytes_ok v) ->
  Forall (fun s => lenN s < 2 ^ 64) l -> lenN (flat_map enc_string l) < 2 ^ 64 ->
  (get_strings r k = Some (Ok l) <-> sm_get k (content r) = Some (enc_strings l)).
Proof. exact Thm_Access.get_strings_iff. Qed.
Print Assumptions get_strings_iff.

Theorem client_info_iff : forall r, Forall pair_ok (content r) -> forall l,
  (forall v, sm_get k_client (content r) = Some v -> bytes_ok v) ->
  Forall (fun s => lenN s < 2 ^ 64) l -> lenN (flat_map enc_string l) < 2 ^ 64 ->
  (client_info r = Some l <-> sm_get k_client (content r) = Some (enc_strings l) /\ (length l = 2 \/ length l = 3)%nat).
Proof. exact Thm_Access.client_info_iff. Qed.
Print Assumptions client_info_iff.

Theorem socket_is_product : forall r,
  udp4_socket r = (match ip4 r, udp4 r with Some a, Some p => Some (a, p) | _, _ => None end) /\
  udp6_socket r = (match ip6 r, udp6 r with Some a, Some p => Some (a, p) | _, _ => None end) /\
  tcp4_socket r = (match ip4 r, tcp4 r with Some a, Some p => Some (a, p) | _, _ => None end) /\
  tcp6_socket r = (match ip6 r, tcp6 r with Some a, Some p => Some (a, p) | _, _ => None end).
Proof. exact Thm_Access.socket_is_product. Qed.
Print Assumptions socket_is_product.

Theorem reachable_is_disjunction : forall r,
  (is_udp_reachable r = true <-> (exists s, udp4_socket r = Some s) \/ (exists s, udp6_socket r = Some s)) /\
  (is_tcp_reachable r = true <-> (exists s, tcp4_socket r = Some s) \/ (exists s, tcp6_socket r = Some s)).
Proof. exact Thm_Access.reachable_is_disjunction. Qed.
Print Assumptions reachable_is_disjunction.

(* what the typed setters / socket setters / builder methods store is canonical and reads back *)
Theorem set_port_reads_back : forall (c : crypto) kt r k sg p,
  seq r < 2 ^ 64 -> p < 65536 ->
  (forall x r', Forall pair_ok (content r') -> step c kt r (OSetUdp4 p) k sg = (Ok x, r') ->
                udp4 r' = Some p /\ sm_get k_udp (content r') = Some (enc_uint p)) /\
  (forall x r', Forall pair_ok (content r') -> step c kt r (OSetUdp6 p) k sg = (Ok x, r') ->
                udp6 r' = Some p /\ sm_get k_udp6 (content r') = Some (enc_uint p)) /\
  (forall x r', Forall pair_ok (content r') -> step c kt r (OSetTcp4 p) k sg = (Ok x, r') ->
                tcp4 r' = Some p /\ sm_get k_tcp (content r') = Some (enc_uint p)) /\
  (forall x r', Forall pair_ok (content r') -> step c kt r (OSetTcp6 p) k sg = (Ok x, r') ->
                tcp6 r' = Some p /\ sm_get k_tcp6 (content r') = Some (enc_uint p)).
Proof. exact Thm_Access.set_port_reads_back. Qed.
Print Assumptions set_port_reads_back.

Theorem set_ip_reads_back : forall (c : crypto) kt r k sg x r' a,
  seq r < 2 ^ 64 -> lenN a = 4 \/ lenN a = 16 -> Forall pair_ok (content r') ->
  step c kt r (OSetIp a) k sg = (Ok x, r') ->
  (if lenN a =? 4 then ip4 r' else ip6 r') = Some a.
Proof. exact Thm_Access.set_ip_reads_back. Qed.
Print Assumptions set_ip_reads_back.

Theorem set_socket_reads_back : forall (c : crypto) kt r k sg x r' a p (tcp : bool),
  seq r < 2 ^ 64 -> lenN a = 4 \/ lenN a = 16 -> p < 65536 -> Forall pair_ok (content r') ->
  step c kt r (if tcp then OSetTcpSocket a p else OSetUdpSocket a p) k sg = (Ok x, r') ->
  (if lenN a =? 4 then ip4 r' else ip6 r') = Some a /\
  (if tcp then (if lenN a =? 4 then tcp4 r' else tcp6 r') else (if lenN a =? 4 then udp4 r' else udp6 r')) = Some p.
Proof. exact Thm_Access.set_socket_reads_back. Qed.
Print Assumptions set_socket_reads_back.

Theorem build_port_reads_back : forall (c : crypto) kt sq calls k sg r pre b post p,
  sq < 2 ^ 64 -> build c kt sq calls k sg = Ok r -> Forall pair_ok (content r) ->
  calls = pre ++ b :: post -> p < 65536 ->
  is_port_key (fst (bcall_pair b)) = true -> snd (bcall_pair b) = enc_uint p ->
  ~ In (fst (bcall_pair b)) (map fst (map bcall_pair post)) ->
  port r (fst (bcall_pair b)) = Some p.
Proof. exact Thm_Access.build_port_reads_back. Qed.
Print Assumptions build_port_reads_back.

(* canonical: no leading zero byte; zero is the empty string *)
Theorem enc_uint_no_leading_zero : forall n, n <> 0 -> exists x t, be_trim n = x :: t /\ x <> 0.
Proof. exact Thm_Access.enc_uint_no_leading_zero. Qed.
Print Assumptions enc_uint_no_leading_zero.

(* non-vacuity: the toy record has ip 127.0.0.1 and udp 30303, no tcp *)
Example toy_accessors :
  match toy_built with
  | Ok r => ip4 r = Some [127; 0; 0; 1] /\ udp4 r = Some 30303 /\ tcp4 r = None /\
            udp4_socket r = Some ([127; 0; 0; 1], 30303) /\ is_udp_reachable r = true /\ is_tcp_reachable r = false
  | _ => False
  end.
Proof. vm_compute. repeat split. Qed.

(* the generic typed insert stores the canonical encoding, and get_decodable of the same type reads the value back *)
Theorem insert_stores_canonical : forall (c : crypto) kt r key v k sg x r',
  seq r < 2 ^ 64 -> key <> pub_key_name k ->
  step c kt r (OInsert key v) k sg = (Ok x, r') ->
  get_raw r' key = Some (enc_tval v) /\ x = RRaw (get_raw r key).
Proof. exact Thm_ReadBack.insert_stores_canonical. Qed.
Print Assumptions insert_stores_canonical.

Theorem insert_reads_back : forall (c : crypto) kt r key v k sg x r',
  seq r < 2 ^ 64 -> key <> pub_key_name k -> tval_ok v ->
  step c kt r (OInsert key v) k sg = (Ok x, r') ->
  match v with
  | TBytes b | TStr b | TIp4 b | TIp6 b => get_bytes r' key = Some (Ok b)
  | TU16 n => get_uint 2 r' key = Some (Ok n)
  | TU64 n => get_uint 8 r' key = Some (Ok n)
  | TList l => get_strings r' key = Some (Ok l)
  end.
Proof. exact Thm_ReadBack.insert_reads_back. Qed.
Print Assumptions insert_reads_back.

(* ---- with no side condition on the record: the accessor is a function of the stored bytes alone; it reports v
   exactly when they begin with the canonical encoding of v (on records handed out nothing follows: the iffs above) ---- *)
Theorem port_iff_prefix : forall r k v p,
  sm_get k (content r) = Some v -> bytes_ok v ->
  (port r k = Some p <-> exists rest, v = enc_uint p ++ rest /\ p < 65536).
Proof. exact Thm_Access2.port_iff_prefix. Qed.
Print Assumptions port_iff_prefix.
Theorem port_absent : forall r k, sm_get k (content r) = None -> port r k = None.
Proof. exact Thm_Access2.port_absent. Qed.
Print Assumptions port_absent.
Theorem ip4_iff_prefix : forall r v a,
  sm_get k_ip (content r) = Some v -> bytes_ok v ->
  (ip4 r = Some a <-> exists rest, v = enc_string a ++ rest /\ lenN a = 4).
Proof. exact Thm_Access2.ip4_iff_prefix. Qed.
Print Assumptions ip4_iff_prefix.
Theorem ip6_iff_prefix : forall r v a,
  sm_get k_ip6 (content r) = Some v -> bytes_ok v ->
  (ip6 r = Some a <-> exists rest, v = enc_string a ++ rest /\ lenN a = 16).
Proof. exact Thm_Access2.ip6_iff_prefix. Qed.
Print Assumptions ip6_iff_prefix.
Theorem client_info_iff_prefix : forall r v l,
  sm_get k_client (content r) = Some v -> bytes_ok v ->
  Forall (fun s => lenN s < 2 ^ 64) l -> lenN (flat_map enc_string l) < 2 ^ 64 ->
  (client_info r = Some l <-> exists rest, v = enc_strings l ++ rest /\ (length l = 2 \/ length l = 3)%nat).
Proof. exact Thm_Access2.client_info_iff_prefix. Qed.
Print Assumptions client_info_iff_prefix.

(* ---- read-back with no premise on the resulting record ---- *)
Theorem set_port_reads_back_any : forall (c : crypto) kt r k sg p x r',
  seq r < 2 ^ 64 -> p < 65536 ->
  (step c kt r (OSetUdp4 p) k sg = (Ok x, r') -> udp4 r' = Some p) /\
  (step c kt r (OSetUdp6 p) k sg = (Ok x, r') -> udp6 r' = Some p) /\
  (step c kt r (OSetTcp4 p) k sg = (Ok x, r') -> tcp4 r' = Some p) /\
  (step c kt r (OSetTcp6 p) k sg = (Ok x, r') -> tcp6 r' = Some p).
Proof. exact Thm_Access2.set_port_reads_back_any. Qed.
Print Assumptions set_port_reads_back_any.

Theorem set_client_info_reads_back : forall (c : crypto) kt r k sg x r' l,
  seq r < 2 ^ 64 -> Forall (fun s => lenN s < 2 ^ 64) l -> lenN (flat_map enc_string l) < 2 ^ 64 ->
  (length l = 2 \/ length l = 3)%nat ->
  step c kt r (OSetClientInfo l) k sg = (Ok x, r') ->
  client_info r' = Some l /\ sm_get k_client (content r') = Some (enc_strings l).
Proof. exact Thm_Access2.set_client_info_reads_back. Qed.
Print Assumptions set_client_info_reads_back.

Theorem build_ip4_reads_back : forall (c : crypto) kt sq calls k sg r pre a post,
  sq < 2 ^ 64 -> build c kt sq calls k sg = Ok r -> calls = pre ++ BIp4 a :: post -> lenN a = 4 ->
  ~ In k_ip (map fst (map bcall_pair post)) -> ip4 r = Some a.
Proof. exact Thm_Access2.build_ip4_reads_back. Qed.
Print Assumptions build_ip4_reads_back.
Theorem build_ip6_reads_back : forall (c : crypto) kt sq calls k sg r pre a post,
  sq < 2 ^ 64 -> build c kt sq calls k sg = Ok r -> calls = pre ++ BIp6 a :: post -> lenN a = 16 ->
  ~ In k_ip6 (map fst (map bcall_pair post)) -> ip6 r = Some a.
Proof. exact Thm_Access2.build_ip6_reads_back. Qed.
Print Assumptions build_ip6_reads_back.
Theorem build_client_reads_back : forall (c : crypto) kt sq calls k sg r pre l post,
  sq < 2 ^ 64 -> build c kt sq calls k sg = Ok r -> calls = pre ++ BClient l :: post ->
  Forall (fun s => lenN s < 2 ^ 64) l -> lenN (flat_map enc_string l) < 2 ^ 64 -> (length l = 2 \/ length l = 3)%nat ->
  ~ In k_client (map fst (map bcall_pair post)) -> client_info r = Some l.
Proof. exact Thm_Access2.build_client_reads_back. Qed.
Print Assumptions build_client_reads_back.
