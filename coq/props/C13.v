(* C13 — decoding is prefix-local: records can be read from a stream or list. *)
Require Import Enr.Bytes Enr.Consts Enr.Rlp Enr.SortedMap Enr.Keccak Enr.Record Enr.Update Enr.Spec.
Require Import EnrProofs.Thm_Prefix EnrProofs.Thm_PrefixVec EnrProofs.Thm_Decode EnrProofs.Thm_More.
Open Scope N_scope.

(* same outcome as for the item alone, whatever follows; on success the remainder is what followed *)
Theorem decode_prefix_local : forall (c : crypto) kt item s,
  complete_item item -> decode c kt (item ++ s) = lift_suffix (decode c kt item) s.
Proof. exact Thm_Prefix.decode_prefix_local. Qed.
Print Assumptions decode_prefix_local.

(* what is accepted is a complete item; the buffer advances by exactly its length *)
Theorem decode_ok_complete : forall (c : crypto) kt b r rest,
  bytes_ok b -> decode c kt b = Ok (r, rest) -> complete_item (encode r) /\ b = encode r ++ rest.
Proof. exact Thm_Prefix.decode_ok_complete. Qed.
Print Assumptions decode_ok_complete.

Theorem decode_advance : forall (c : crypto) kt b r rest,
  bytes_ok b -> decode c kt b = Ok (r, rest) -> lenN b = lenN (encode r) + lenN rest.
Proof. exact Thm_Decode.decode_advance. Qed.
Print Assumptions decode_advance.

(* an RLP list of records decodes to the same records one would get individually *)
Theorem decode_vec_ok : forall (c : crypto) kt rs rest,
  Forall (Valid c kt) rs -> lenN (flat_map encode rs) < 2 ^ 64 ->
  decode_vec c kt (enc_list (flat_map encode rs) ++ rest) = Ok (rs, rest).
Proof. exact Thm_More.decode_vec_ok. Qed.
Print Assumptions decode_vec_ok.

(* consecutive records in a stream: the first is returned, the buffer is left at the next *)
Theorem decode_stream : forall (c : crypto) kt r rs rest,
  Valid c kt r -> decode c kt (encode r ++ flat_map encode rs ++ rest) = Ok (r, flat_map encode rs ++ rest).
Proof. exact Thm_More.decode_stream. Qed.
Print Assumptions decode_stream.

(* lists of records: the same outcome whatever follows the list item *)
Theorem decode_vec_prefix_local : forall (c : crypto) kt item s,
  complete_item item -> decode_vec c kt (item ++ s) = lift_suffix_vec (decode_vec c kt item) s.
Proof. exact Thm_PrefixVec.decode_vec_prefix_local. Qed.
Print Assumptions decode_vec_prefix_local.
