(* C08 — builder and updates behave like a sorted key/value map (effects, returns, error kinds).
   The specification (theories/Spec.v): an operation deletes [removes o], then writes [inserts o]
   (the canonical encodings) in order, then writes the signer's public key; nothing else changes;
   it returns the previous values of what it touched. The map laws that make the association list
   a "plain sorted map" are stated first. *)
Require Import Enr.Bytes Enr.Consts Enr.Rlp Enr.SortedMap Enr.Keccak Enr.Record Enr.Update Enr.Spec Enr.Toy.
Require Import EnrProofs.SortedMapLemmas EnrProofs.ErrLemmas EnrProofs.RefineLemmas EnrProofs.Thm_Refine EnrProofs.Thm_Cause.
Open Scope N_scope.

(* ---- the map model: lookup laws, sortedness, extensionality ---- *)
Theorem get_insert_same : forall k v m, sm_get k (sm_insert k v m) = Some v.
Proof. exact SortedMapLemmas.sm_get_insert_same. Qed.
Print Assumptions get_insert_same.
Theorem get_insert_other : forall k k' v m, k' <> k -> sm_get k' (sm_insert k v m) = sm_get k' m.
Proof. exact SortedMapLemmas.sm_get_insert_other. Qed.
Print Assumptions get_insert_other.
Theorem get_remove_same : forall k m, sm_sorted m -> sm_get k (sm_remove k m) = None.
Proof. exact SortedMapLemmas.sm_get_remove_same. Qed.
Print Assumptions get_remove_same.
Theorem get_remove_other : forall k k' m, k' <> k -> sm_get k' (sm_remove k m) = sm_get k' m.
Proof. exact SortedMapLemmas.sm_get_remove_other. Qed.
Print Assumptions get_remove_other.
Theorem insert_sorted : forall k v m, sm_sorted m -> sm_sorted (sm_insert k v m).
Proof. exact SortedMapLemmas.sm_insert_sorted. Qed.
Print Assumptions insert_sorted.
Theorem remove_sorted : forall k m, sm_sorted m -> sm_sorted (sm_remove k m).
Proof. exact SortedMapLemmas.sm_remove_sorted. Qed.
Print Assumptions remove_sorted.
(* the pair list (iteration order included) is determined by the lookup function *)
Theorem sorted_map_ext : forall m1 m2, sm_sorted m1 -> sm_sorted m2 -> (forall k, sm_get k m1 = sm_get k m2) -> m1 = m2.
Proof. exact SortedMapLemmas.sm_ext. Qed.
Print Assumptions sorted_map_ext.

(* ---- refinement ---- *)
Theorem step_refines : forall (c : crypto) kt r o k sg x r',
  seq r < 2 ^ 64 -> (forall n, o = OSetSeq n -> n < 2 ^ 64) ->
  step c kt r o k sg = (Ok x, r') ->
  content r' = spec_pairs o k (content r) /\ x = spec_ret o r.
Proof. exact Thm_Refine.step_refines. Qed.
Print Assumptions step_refines.

Theorem build_refines : forall (c : crypto) kt sq calls k sg r,
  sq < 2 ^ 64 -> build c kt sq calls k sg = Ok r ->
  content r = with_key (sm_insert k_id (enc_string v4) (fold_left apply_bcall calls [])) k /\ seq r = sq.
Proof. exact Thm_Refine.build_refines. Qed.
Print Assumptions build_refines.

Theorem step_untouched : forall (c : crypto) kt r o k sg x r' k',
  seq r < 2 ^ 64 -> (forall n, o = OSetSeq n -> n < 2 ^ 64) ->
  step c kt r o k sg = (Ok x, r') ->
  ~ In k' (removes o) -> ~ In k' (map fst (inserts o)) -> k' <> pub_key_name k ->
  sm_get k' (content r') = sm_get k' (content r).
Proof. exact Thm_Refine.step_untouched. Qed.
Print Assumptions step_untouched.

Theorem step_single_insert : forall (c : crypto) kt r o k sg x r' key v,
  seq r < 2 ^ 64 -> (forall n, o = OSetSeq n -> n < 2 ^ 64) ->
  step c kt r o k sg = (Ok x, r') ->
  inserts o = [(key, v)] -> key <> pub_key_name k ->
  sm_get key (content r') = Some v.
Proof. exact Thm_Refine.step_single_insert. Qed.
Print Assumptions step_single_insert.

Theorem step_removed : forall (c : crypto) kt r o k sg x r' key,
  seq r < 2 ^ 64 -> (forall n, o = OSetSeq n -> n < 2 ^ 64) ->
  sm_sorted (content r) ->
  step c kt r o k sg = (Ok x, r') ->
  In key (removes o) -> ~ In key (map fst (inserts o)) -> key <> pub_key_name k ->
  sm_get key (content r') = None.
Proof. exact Thm_Refine.step_removed. Qed.
Print Assumptions step_removed.

Theorem step_writes_key : forall (c : crypto) kt r o k sg x r',
  seq r < 2 ^ 64 -> (forall n, o = OSetSeq n -> n < 2 ^ 64) ->
  step c kt r o k sg = (Ok x, r') ->
  sm_get (pub_key_name k) (content r') = Some (pub_entry k).
Proof. exact Thm_Refine.step_writes_key. Qed.
Print Assumptions step_writes_key.

Theorem socket_setter_family_only : forall (c : crypto) kt r a p (tcp : bool) k sg x r' k',
  seq r < 2 ^ 64 ->
  step c kt r (if tcp then OSetTcpSocket a p else OSetUdpSocket a p) k sg = (Ok x, r') ->
  k' <> ip_key a -> k' <> (if tcp then tcp_key a else udp_key a) -> k' <> pub_key_name k ->
  sm_get k' (content r') = sm_get k' (content r).
Proof. exact Thm_Refine.socket_setter_family_only. Qed.
Print Assumptions socket_setter_family_only.

Theorem set_public_key_own_ok : forall (c : crypto) kt r k sg s,
  sm_sorted (content r) ->
  sm_get (pub_key_name k) (content r) = Some (pub_entry k) ->
  check_reserved c (pub_key_name k) (pub_entry k) = Ok tt ->
  check_keyed_by c kt (content r) k = Ok tt ->
  size r <= MAX_ENR_SIZE -> id_is_v4 r = true -> seq r <> U64_MAX ->
  sg (signed_payload_of (seq r + 1) (content r)) = Some s ->
  size (cand (seq r + 1) (node_id_of (sk_pub k)) (content r) s) <= MAX_ENR_SIZE ->
  step c kt r (OSetPublicKey (sk_pub k)) k sg = (Ok RUnit, cand (seq r + 1) (node_id_of (sk_pub k)) (content r) s).
Proof. exact Thm_Refine.set_public_key_own_ok. Qed.
Print Assumptions set_public_key_own_ok.

(* ---- success exactly when no cause of failure applies; error kinds match their causes ---- *)
Theorem step_ok_iff : forall (c : crypto) kt r o k sg x r',
  step c kt r o k sg = (Ok x, r') <->
  check_list c (checked_inserts o) = Ok tt /\ commit c kt r o k sg = Ok r' /\ x = spec_ret o r.
Proof. exact Thm_Refine.step_ok_iff. Qed.
Print Assumptions step_ok_iff.

Theorem finish_ok_iff : forall (c : crypto) kt pre r m k sg r',
  finish c kt pre r m k sg = Ok r' <->
  check_keyed_by c kt m k = Ok tt /\
  (pre = true -> size (cand (seq r) (nid r) m (sig r)) <= MAX_ENR_SIZE) /\
  seq r <> U64_MAX /\
  id_is_v4 (cand (seq r + 1) (nid r) m (sig r)) = true /\
  exists s, sg (signed_payload_of (seq r + 1) m) = Some s /\
            size (cand (seq r + 1) (node_id_of (sk_pub k)) m s) <= MAX_ENR_SIZE /\
            r' = cand (seq r + 1) (node_id_of (sk_pub k)) m s.
Proof. exact Thm_Refine.finish_ok_iff. Qed.
Print Assumptions finish_ok_iff.

Theorem step_err_cause : forall (c : crypto) kt r o k sg e r',
  step c kt r o k sg = (Err e, r') ->
  match e with
  | ESequenceNumberTooHigh => seq r = U64_MAX /\ (forall n, o <> OSetSeq n)
  | ESigningError => exists m, sg m = None
  | EExceedsMaxSize =>
      exists sq nd s, MAX_ENR_SIZE < size (cand sq nd (spec_pairs o k (content r)) s) /\
                      (sq = seq r \/ sq = seq r + 1 \/ o = OSetSeq sq)
  | EUnsupportedIdentityScheme =>
      (exists v, In (k_id, v) (checked_inserts o) /\ check_reserved c k_id v = Err EUnsupportedIdentityScheme) \/
      sm_get k_id (spec_pairs o k (content r)) <> Some (enc_string v4)
  | _ =>
      is_rlp_err e = true /\
      ((exists kv, In kv (checked_inserts o) /\ check_reserved c (fst kv) (snd kv) = Err e) \/
       check_keyed_by c kt (spec_pairs o k (content r)) k = Err e)
  end.
Proof. exact Thm_Refine.step_err_cause. Qed.
Print Assumptions step_err_cause.

(* non-vacuity: the toy history of Toy.v exercises insert, re-key, removal and set_seq *)
Example toy_refines :
  match toy_built with
  | Ok r =>
      let '(x, r1) := step toy_crypto Toy r (OSetTcp4 8080) (toy_key toy_pk1) (toy_signer toy_pk1 []) in
      x = Ok (RPort None) /\ sm_get k_tcp (content r1) = Some (enc_uint 8080) /\
      sm_get k_udp (content r1) = sm_get k_udp (content r) /\ seq r1 = 2
  | _ => False
  end.
Proof. vm_compute. repeat split. Qed.

(* the error kind names the exact cause of THIS call (the message the signer refused, the candidate that is too large) *)
Theorem step_err_exact_cause : forall (c : crypto) kt r o k sg e r',
  step c kt r o k sg = (Err e, r') ->
  match e with
  | ESequenceNumberTooHigh => seq r = U64_MAX /\ is_set_seq o = false
  | ESigningError => sg (to_sign r o k) = None
  | EExceedsMaxSize =>
      (is_set_seq o = false /\ pre_check o = true /\
       MAX_ENR_SIZE < size (cand (seq r) (nid r) (spec_pairs o k (content r)) (sig r))) \/
      (exists s, sg (to_sign r o k) = Some s /\ MAX_ENR_SIZE < size (result_with r o k s))
  | EUnsupportedIdentityScheme =>
      (exists v, In (k_id, v) (checked_inserts o) /\ check_reserved c k_id v = Err EUnsupportedIdentityScheme) \/
      sm_get k_id (spec_pairs o k (content r)) <> Some (enc_string v4)
  | _ =>
      is_rlp_err e = true /\
      ((exists kv, In kv (checked_inserts o) /\ check_reserved c (fst kv) (snd kv) = Err e) \/
       check_keyed_by c kt (spec_pairs o k (content r)) k = Err e)
  end.
Proof. exact Thm_Cause.step_err_exact_cause. Qed.
Print Assumptions step_err_exact_cause.

Theorem step_illtyped_first : forall (c : crypto) kt r o k sg e,
  check_list c (checked_inserts o) = Err e -> step c kt r o k sg = (Err e, r).
Proof. exact Thm_Cause.step_illtyped_first. Qed.
Print Assumptions step_illtyped_first.

(* on every Valid record keyed by the signer, under the generic conditions of any update only *)
Theorem set_public_key_own_valid : forall (c : crypto) kt r k sg s,
  Valid c kt r ->
  sm_get (pub_key_name k) (content r) = Some (pub_entry k) ->
  check_keyed_by c kt (content r) k = Ok tt ->
  check_reserved c (pub_key_name k) (pub_entry k) = Ok tt ->
  seq r <> U64_MAX ->
  sg (signed_payload_of (seq r + 1) (content r)) = Some s ->
  size (cand (seq r + 1) (node_id_of (sk_pub k)) (content r) s) <= MAX_ENR_SIZE ->
  step c kt r (OSetPublicKey (sk_pub k)) k sg = (Ok RUnit, cand (seq r + 1) (node_id_of (sk_pub k)) (content r) s).
Proof. exact Thm_Cause.set_public_key_own_valid. Qed.
Print Assumptions set_public_key_own_valid.

(* whatever order an implementation looks for them in: the error a failing call reports is one of the causes that hold
   of the call before signing (presign_causes: each element is by definition a cause that holds), or the signer
   refused the message of this call, or the signed result is too large. The correspondence run accepts any kind in
   this set from the implementation (two independent checks may be made in either order). *)
Theorem step_err_is_a_cause : forall (c : crypto) kt r o k sg e r',
  step c kt r o k sg = (Err e, r') ->
  In e (presign_causes c kt r o k) \/
  (e = ESigningError /\ sg (to_sign r o k) = None) \/
  (e = EExceedsMaxSize /\ exists s, sg (to_sign r o k) = Some s /\ MAX_ENR_SIZE < size (result_with r o k s)).
Proof. exact Thm_Cause.step_err_is_a_cause. Qed.
Print Assumptions step_err_is_a_cause.
