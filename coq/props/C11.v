(* C11 — key back-ends are interchangeable and signature schemes are isolated.
   That k256 and libsecp256k1 implement the same curve equation / point validity is a fact about two
   foreign libraries: sampled in the correspondence run, not proved. *)
Require Import Enr.Bytes Enr.Consts Enr.Rlp Enr.SortedMap Enr.Keccak Enr.Record.
Require Import Enr.Update Enr.Spec EnrProofs.Thm_CrossValid.
Require Import EnrProofs.Thm_Misc EnrProofs.Thm_Backends.
Open Scope N_scope.

(* the crate adds no back-end specific behaviour: given the same crypto cores, the two secp256k1 types decode identically *)
Theorem decode_k256_libsecp : forall (c : crypto) b, decode c K256 b = decode c LibSecp b.
Proof. exact Thm_Misc.decode_k256_libsecp. Qed.
Print Assumptions decode_k256_libsecp.

Theorem decode_kt_ext : forall (c : crypto) kt1 kt2 b,
  (forall m, enr_to_public c kt1 m = enr_to_public c kt2 m) -> decode c kt1 b = decode c kt2 b.
Proof. exact Thm_Misc.decode_kt_ext. Qed.
Print Assumptions decode_kt_ext.

Theorem enr_to_public_comb_secp : forall (c : crypto) m p,
  secp_to_public c m = Ok p -> enr_to_public c Comb m = enr_to_public c K256 m.
Proof. exact Thm_Misc.enr_to_public_comb_secp. Qed.
Print Assumptions enr_to_public_comb_secp.

Theorem enr_to_public_comb_ed : forall (c : crypto) m,
  (forall p, secp_to_public c m <> Ok p) -> enr_to_public c Comb m = enr_to_public c Ed m.
Proof. exact Thm_Misc.enr_to_public_comb_ed. Qed.
Print Assumptions enr_to_public_comb_ed.

Theorem decode_needs_own_key : forall (c : crypto) kt b r rest,
  bytes_ok b -> decode c kt b = Ok (r, rest) ->
  match kt with
  | K256 | LibSecp => sm_get k_secp (content r) <> None
  | Ed => sm_get k_ed (content r) <> None
  | Toy => sm_get k_toy (content r) <> None
  | Comb => sm_get k_secp (content r) <> None \/ sm_get k_ed (content r) <> None
  end.
Proof. exact Thm_Misc.decode_needs_own_key. Qed.
Print Assumptions decode_needs_own_key.

Theorem combined_precedence : forall (c : crypto) b r rest p,
  bytes_ok b -> decode c Comb b = Ok (r, rest) -> secp_to_public c (content r) = Ok p ->
  verify_v4 c p (signed_payload r) (sig r) = true /\ nid r = node_id_of p.
Proof. exact Thm_Misc.combined_precedence. Qed.
Print Assumptions combined_precedence.

(* CombinedKey accepts exactly what the secp256k1 types accept (records whose secp256k1 entry is a valid
   key) plus what the ed25519 type accepts (the others), and reports the same record *)
Theorem decode_comb_of_k256 : forall (c : crypto) b x, decode c K256 b = Ok x -> decode c Comb b = Ok x.
Proof. exact Thm_Backends.decode_comb_of_k256. Qed.
Print Assumptions decode_comb_of_k256.

Theorem decode_comb_of_ed : forall (c : crypto) b r rest,
  decode c Ed b = Ok (r, rest) -> (forall p, secp_to_public c (content r) <> Ok p) ->
  decode c Comb b = Ok (r, rest).
Proof. exact Thm_Backends.decode_comb_of_ed. Qed.
Print Assumptions decode_comb_of_ed.

Theorem decode_comb_split : forall (c : crypto) b r rest,
  decode c Comb b = Ok (r, rest) ->
  (exists p, secp_to_public c (content r) = Ok p /\ decode c K256 b = Ok (r, rest) /\ decode c LibSecp b = Ok (r, rest)) \/
  ((forall p, secp_to_public c (content r) <> Ok p) /\ decode c Ed b = Ok (r, rest)).
Proof. exact Thm_Backends.decode_comb_split. Qed.
Print Assumptions decode_comb_split.

(* the decoder depends on the key type only through enr_to_public at the parsed pairs *)
Theorem decode_split : forall (c : crypto) kt b, decode c kt b = (do x <- parse_pairs b; finish_decode c kt x).
Proof. exact Thm_Backends.decode_split. Qed.
Print Assumptions decode_split.

(* ---- "a record signed through any of them is accepted by all" ---- *)
Theorem valid_k256_iff_libsecp : forall (c : crypto) r, Valid c K256 r <-> Valid c LibSecp r.
Proof. exact Thm_CrossValid.valid_k256_iff_libsecp. Qed.
Print Assumptions valid_k256_iff_libsecp.

Theorem valid_comb_split : forall (c : crypto) r,
  Valid c Comb r ->
  (exists p, secp_to_public c (content r) = Ok p /\ Valid c K256 r /\ Valid c LibSecp r) \/
  ((forall p, secp_to_public c (content r) <> Ok p) /\ Valid c Ed r).
Proof. exact Thm_CrossValid.valid_comb_split. Qed.
Print Assumptions valid_comb_split.

Theorem secp_record_accepted_by_all : forall (c : crypto) r rest,
  Valid c K256 r \/ Valid c LibSecp r ->
  decode c K256 (encode r ++ rest) = Ok (r, rest) /\
  decode c LibSecp (encode r ++ rest) = Ok (r, rest) /\
  decode c Comb (encode r ++ rest) = Ok (r, rest).
Proof. exact Thm_CrossValid.secp_record_accepted_by_all. Qed.
Print Assumptions secp_record_accepted_by_all.

Theorem ed_record_accepted_by_comb : forall (c : crypto) r rest,
  Valid c Ed r -> (forall p, secp_to_public c (content r) <> Ok p) ->
  decode c Ed (encode r ++ rest) = Ok (r, rest) /\ decode c Comb (encode r ++ rest) = Ok (r, rest).
Proof. exact Thm_CrossValid.ed_record_accepted_by_comb. Qed.
Print Assumptions ed_record_accepted_by_comb.

Theorem built_by_k256_accepted_by_all : forall (c : crypto) sq calls k sg r rest,
  sq < 2 ^ 64 -> Forall bcall_ok calls -> key_bytes_ok k -> KeyOk c K256 k -> GoodSigner c k sg ->
  build c K256 sq calls k sg = Ok r ->
  decode c K256 (encode r ++ rest) = Ok (r, rest) /\
  decode c LibSecp (encode r ++ rest) = Ok (r, rest) /\
  decode c Comb (encode r ++ rest) = Ok (r, rest).
Proof. exact Thm_CrossValid.built_by_k256_accepted_by_all. Qed.
Print Assumptions built_by_k256_accepted_by_all.

Theorem updated_by_comb_accepted : forall (c : crypto) r o k sg x r' rest,
  Valid c Comb r -> op_ok o -> key_bytes_ok k -> KeyOk c Comb k -> GoodSigner c k sg ->
  step c Comb r o k sg = (Ok x, r') ->
  decode c Comb (encode r' ++ rest) = Ok (r', rest) /\
  ((decode c K256 (encode r' ++ rest) = Ok (r', rest) /\ decode c LibSecp (encode r' ++ rest) = Ok (r', rest)) \/
   decode c Ed (encode r' ++ rest) = Ok (r', rest)).
Proof. exact Thm_CrossValid.updated_by_comb_accepted. Qed.
Print Assumptions updated_by_comb_accepted.
