(* C02 — the decoder accepts exactly the well-formed EIP-778 records and nothing else.
   WellFormed (theories/Spec.v) is a declarative grammar: it mentions no decoding function.
   Statements closed by [exact]; proofs in proofs/WellFormedLemmas.v. *)
Require Import Enr.Bytes Enr.Consts Enr.Rlp Enr.SortedMap Enr.Keccak Enr.Record Enr.Update Enr.Spec Enr.Toy.
Require Import EnrProofs.WellFormedLemmas EnrProofs.Thm_Misc.
Open Scope N_scope.

(* the property's sentence, with any remainder [rest] (rest = [] is "exactly one RLP item") *)
Theorem decode_iff_wellformed : forall (c : crypto) kt b rest,
  bytes_ok b ->
  ((exists r, decode c kt b = Ok (r, rest)) <-> (exists item, b = item ++ rest /\ WellFormed c kt item)).
Proof. exact WellFormedLemmas.decode_iff_wellformed. Qed.
Print Assumptions decode_iff_wellformed.

(* accepted: the consumed bytes are the encoding of the returned record, which is Valid *)
Theorem decode_wellformed : forall (c : crypto) kt b r rest,
  bytes_ok b -> decode c kt b = Ok (r, rest) -> b = encode r ++ rest /\ Valid c kt r.
Proof. exact WellFormedLemmas.decode_wellformed. Qed.
Print Assumptions decode_wellformed.

(* well-formed: accepted, and the record reports exactly the grammar's components *)
Theorem wellformed_decodes : forall (c : crypto) kt item sg sq ps pk rest,
  WellFormedAs c kt item sg sq ps pk ->
  decode c kt (item ++ rest) = Ok ({| seq := sq; nid := node_id_of pk; content := ps; sig := sg |}, rest).
Proof. exact WellFormedLemmas.wellformed_decodes. Qed.
Print Assumptions wellformed_decodes.

(* every other input is rejected with an error value: the decoder is total, and what is not well-formed is Err *)
Theorem decode_total : forall (c : crypto) kt b,
  (exists r rest, decode c kt b = Ok (r, rest)) \/ (exists e, decode c kt b = Err e).
Proof.
  intros c kt b. destruct (decode c kt b) as [[r rest]|e|] eqn:E.
  - left. eauto.
  - right. eauto.
  - exfalso. exact (Thm_Misc.decode_no_panic c kt b E).
Qed.
Print Assumptions decode_total.

Theorem not_wellformed_rejected : forall (c : crypto) kt b,
  bytes_ok b -> (forall item rest, b = item ++ rest -> ~ WellFormed c kt item) -> exists e, decode c kt b = Err e.
Proof.
  intros c kt b Hok Hn. destruct (decode_total c kt b) as [(r & rest & H)|H]; [|exact H].
  exfalso. destruct (WellFormedLemmas.decode_wellformed c kt b r rest Hok H) as [Hb (pk & Hw & _)].
  apply (Hn (encode r) rest Hb). exists (sig r), (seq r), (content r), pk. exact Hw.
Qed.
Print Assumptions not_wellformed_rejected.

(* the effective public key of the grammar is the key type's enr_to_public *)
Theorem enr_to_public_iff : forall (c : crypto) kt ps p,
  Forall pair_ok ps -> (enr_to_public c kt ps = Ok p <-> effective_pubkey c kt ps p).
Proof. exact WellFormedLemmas.enr_to_public_iff. Qed.
Print Assumptions enr_to_public_iff.

(* non-vacuity: a concrete record (toy scheme, built by the model's builder) is well-formed and decodes;
   concrete violations of single rules are rejected *)
Example wellformed_inhabited :
  exists r, toy_built = Ok r /\ decode toy_crypto Toy (encode r) = Ok (r, []) /\ bytes_ok (encode r).
Proof.
  destruct toy_built as [r| |] eqn:E; [|vm_compute in E; discriminate..].
  exists r. split; [reflexivity|]. vm_compute in E. inversion E; subst r. clear E.
  split; [vm_compute; reflexivity|]. unfold bytes_ok. apply Forall_forall. intros x Hx.
  vm_compute in Hx. repeat (destruct Hx as [<-|Hx]; [reflexivity|]). destruct Hx.
Qed.

Example wellformed_exists : exists item, WellFormed toy_crypto Toy item.
Proof.
  destruct wellformed_inhabited as (r & _ & Hd & Hok).
  destruct (proj1 (WellFormedLemmas.decode_iff_wellformed toy_crypto Toy (encode r) [] Hok) (ex_intro _ r Hd)) as (item & _ & Hw).
  exists item. exact Hw.
Qed.
