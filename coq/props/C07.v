(* C07 — sequence-number discipline: +1 per successful update, exact set, no wrap.
   The model writes the checked_add explicitly; nothing is computed modulo 2^64. *)
Require Import Enr.Bytes Enr.Consts Enr.Rlp Enr.SortedMap Enr.Keccak Enr.Record Enr.Update.
Require Import EnrProofs.Thm_Update EnrProofs.RlpLemmas EnrProofs.Thm_Decode.
Require Enr.Toy.
Require Import Enr.Spec EnrProofs.RefineLemmas EnrProofs.Thm_Refine EnrProofs.Thm_Cause.
Open Scope N_scope.

(* every successful content update: exactly +1, however many fields it touches; set_seq: exactly n *)
Theorem step_seq : forall (c : crypto) kt r o k sg x r',
  seq r < 2 ^ 64 -> (forall n, o = OSetSeq n -> n < 2 ^ 64) ->
  step c kt r o k sg = (Ok x, r') ->
  seq r' = (match o with OSetSeq n => n | _ => seq r + 1 end) /\ seq r' < 2 ^ 64.
Proof. exact Thm_Update.step_seq. Qed.
Print Assumptions step_seq.

(* an update at 2^64-1 never succeeds *)
Theorem no_wrap : forall (c : crypto) kt r o k sg,
  seq r = U64_MAX -> (forall n, o <> OSetSeq n) ->
  forall x r', step c kt r o k sg <> (Ok x, r').
Proof. exact Thm_Update.no_wrap. Qed.
Print Assumptions no_wrap.

(* ... and fails with the sequence-number error when no earlier cause (key precedence, size) applies *)
Theorem finish_at_max : forall (c : crypto) kt pre r m k sg,
  seq r = U64_MAX ->
  check_keyed_by c kt m k = Ok tt ->
  (pre && (MAX_ENR_SIZE <? size {| seq := seq r; nid := nid r; content := m; sig := sig r |})) = false ->
  finish c kt pre r m k sg = Err ESequenceNumberTooHigh.
Proof. exact Thm_Update.finish_at_max. Qed.
Print Assumptions finish_at_max.

(* the u64 codec is exact for every 64-bit value *)
Theorem seq_codec : forall n rest, n < 256 ^ 8 -> dec_uint 8 (enc_uint n ++ rest) = Ok (n, rest).
Proof. intros n rest H. apply RlpLemmas.dec_uint_enc; [reflexivity | exact H]. Qed.
Print Assumptions seq_codec.

Theorem seq_decoded_in_range : forall (c : crypto) kt b r rest,
  bytes_ok b -> decode c kt b = Ok (r, rest) -> seq r < 2 ^ 64.
Proof. exact Thm_Decode.decode_seq_range. Qed.
Print Assumptions seq_decoded_in_range.

(* at 2^64-1 the error reported is the sequence-number error (no earlier cause applying), and the record stays *)
Theorem step_at_max_reports_seq : forall (c : crypto) kt r o k sg,
  seq r = U64_MAX -> is_set_seq o = false ->
  check_list c (checked_inserts o) = Ok tt ->
  check_keyed_by c kt (spec_pairs o k (content r)) k = Ok tt ->
  (pre_check o = true -> size (cand (seq r) (nid r) (spec_pairs o k (content r)) (sig r)) <= MAX_ENR_SIZE) ->
  step c kt r o k sg = (Err ESequenceNumberTooHigh, r).
Proof. exact Thm_Cause.step_at_max_reports_seq. Qed.
Print Assumptions step_at_max_reports_seq.

(* non-vacuity: the toy record moved to 2^64-1, then a content update: the sequence-number error, the record unchanged *)
Example toy_at_max :
  match Toy.toy_built with
  | Ok r =>
      let '(x1, r1) := step Toy.toy_crypto Toy r (OSetSeq U64_MAX) (Toy.toy_key Toy.toy_pk1) (Toy.toy_signer Toy.toy_pk1 []) in
      let '(x2, r2) := step Toy.toy_crypto Toy r1 (OSetTcp4 8080) (Toy.toy_key Toy.toy_pk1) (Toy.toy_signer Toy.toy_pk1 []) in
      x1 = Ok RUnit /\ seq r1 = U64_MAX /\ x2 = Err ESequenceNumberTooHigh /\ r2 = r1
  | _ => False
  end.
Proof. vm_compute. repeat split. Qed.
