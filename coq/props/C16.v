(* C16 — NodeId value type: exact 32-byte identity, strict parse, hex forms round-trip. *)
Require Import Enr.Bytes Enr.NodeId.
Require Import EnrProofs.Thm_Small EnrProofs.Thm_Sites.
Require Import EnrProofs.Thm_NodeId.
Open Scope N_scope.

Theorem parse_iff : forall x i, nodeid_parse x = Some i <-> lenN x = 32 /\ i = x.
Proof. exact Thm_NodeId.parse_iff. Qed.
Print Assumptions parse_iff.

Theorem ser_def : forall x, nodeid_ser x = [48; 120] ++ hex_encode x.
Proof. exact Thm_NodeId.ser_def. Qed.
Print Assumptions ser_def.

Theorem hex_roundtrip : forall x, bytes_ok x -> hex_decode (hex_encode x) = Some x.
Proof. exact Thm_NodeId.hex_roundtrip. Qed.
Print Assumptions hex_roundtrip.

Theorem deser_ser : forall x, bytes_ok x -> lenN x = 32 -> nodeid_deser (nodeid_ser x) = Some x.
Proof. exact Thm_NodeId.deser_ser. Qed.
Print Assumptions deser_ser.

Theorem deser_plain : forall x, bytes_ok x -> lenN x = 32 -> nodeid_deser (hex_encode x) = Some x.
Proof. exact Thm_NodeId.deser_plain. Qed.
Print Assumptions deser_plain.

(* exactly 64 hex digits of either case, with or without one 0x prefix *)
Theorem deser_iff : forall s i,
  nodeid_deser s = Some i <->
  exists body, (s = body \/ s = prefix_0x ++ body) /\ lenN body = 64 /\ hex_decode body = Some i.
Proof. exact Thm_NodeId.deser_iff. Qed.
Print Assumptions deser_iff.

Theorem deser_result_len : forall s i, nodeid_deser s = Some i -> lenN i = 32 /\ bytes_ok i.
Proof. exact Thm_NodeId.deser_result_len. Qed.
Print Assumptions deser_result_len.

Theorem debug_def : forall x, nodeid_debug x = [48; 120] ++ hex_encode x.
Proof. exact Thm_NodeId.debug_def. Qed.
Print Assumptions debug_def.

Theorem display_def : forall x, lenN x = 32 ->
  nodeid_display x = [48; 120] ++ hex_encode (firstn 2 x) ++ [46; 46] ++ hex_encode (skipn 30 x).
Proof. exact Thm_NodeId.display_def. Qed.
Print Assumptions display_def.

(* "0x followed by 64 lowercase hex digits", literally; and the form determines the id *)
Theorem nodeid_ser_shape : forall x, bytes_ok x -> lenN x = 32 ->
  exists digits, nodeid_ser x = [48; 120] ++ digits /\ lenN digits = 64 /\
                 Forall (fun ch => (48 <= ch <= 57) \/ (97 <= ch <= 102)) digits.
Proof. exact Thm_Small.nodeid_ser_shape. Qed.
Print Assumptions nodeid_ser_shape.
Theorem nodeid_ser_inj : forall x y, bytes_ok x -> bytes_ok y -> nodeid_ser x = nodeid_ser y -> x = y.
Proof. exact Thm_Small.nodeid_ser_inj. Qed.
Print Assumptions nodeid_ser_inj.
