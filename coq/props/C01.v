(* C01 — accepted records are authentic: the signature binds seq and every key/value.
   Only statements closed by [exact]; proofs are in proofs/Thm_Decode.v.
   "Every alteration is rejected" is decode_authentic read contrapositively: an altered input is
   accepted only if it carries a (key, content, signature) triple that the verification equation
   accepts. Unforgeability of ECDSA/Ed25519 is the named residual assumption (not a theorem). *)
Require Import Enr.Bytes Enr.Consts Enr.Rlp Enr.SortedMap Enr.Keccak Enr.Record.
Require Import Enr.Text EnrProofs.Thm_Authentic.
Require Import EnrProofs.Thm_Decode EnrProofs.Thm_Forgery.
Open Scope N_scope.

(* accepted => verified by the key carried in the same record, id = v4 *)
Theorem decode_authentic : forall (c : crypto) kt b r rest,
  bytes_ok b -> decode c kt b = Ok (r, rest) ->
  exists pk, enr_to_public c kt (content r) = Ok pk /\ id r = Some v4 /\
             verify_v4 c pk (signed_payload r) (sig r) = true.
Proof. exact Thm_Decode.decode_authentic. Qed.
Print Assumptions decode_authentic.

(* the signed message is exactly the reported seq and pairs, signature excluded, nothing else *)
Theorem signed_payload_is_input : forall (c : crypto) kt b r rest,
  bytes_ok b -> decode c kt b = Ok (r, rest) ->
  b = enc_list (enc_string (sig r) ++ payload_body (seq r) (content r)) ++ rest /\
  signed_payload r = enc_list (payload_body (seq r) (content r)) /\
  payload_body (seq r) (content r) = enc_uint (seq r) ++ flat_map enc_pair (content r).
Proof. exact Thm_Decode.signed_payload_is_input. Qed.
Print Assumptions signed_payload_is_input.

Theorem decoded_verifies : forall (c : crypto) kt b r rest,
  bytes_ok b -> decode c kt b = Ok (r, rest) -> verify c kt r = Ok true.
Proof. exact Thm_Decode.decoded_verifies. Qed.
Print Assumptions decoded_verifies.

(* a secp256k1 v4 signature: 64 bytes, 0<r<n, 0<s<=(n-1)/2, curve equation over keccak256(msg) *)
Theorem verify_secp_shape : forall (c : crypto) pk m sg,
  verify_secp c pk m sg = true ->
  lenN sg = 64 /\ 0 < be_val (firstn 32 sg) < secp_n /\ 0 < be_val (skipn 32 sg) <= secp_half_n /\
  ecdsa_core c pk (keccak256 m) sg = true.
Proof. exact Thm_Decode.verify_secp_shape. Qed.
Print Assumptions verify_secp_shape.

(* the high-S twin r || n-s of an accepted signature is rejected, whatever the curve equation says *)
Theorem high_s_twin_rejected : forall (c : crypto) pk m sg,
  verify_secp c pk m sg = true ->
  verify_secp c pk m (firstn 32 sg ++ be_pad 32 (secp_n - be_val (skipn 32 sg))) = false.
Proof. exact Thm_Decode.high_s_twin_rejected. Qed.
Print Assumptions high_s_twin_rejected.

Theorem wrong_length_sig_rejected_secp : forall (c : crypto) pk m sg, lenN sg <> 64 -> verify_secp c pk m sg = false.
Proof. exact Thm_Decode.wrong_length_sig_rejected_secp. Qed.
Print Assumptions wrong_length_sig_rejected_secp.

Theorem wrong_length_sig_rejected_ed : forall (c : crypto) pk m sg, lenN sg <> 64 -> verify_ed c pk m sg = false.
Proof. exact Thm_Decode.wrong_length_sig_rejected_ed. Qed.
Print Assumptions wrong_length_sig_rejected_ed.

(* "every alteration is rejected", made precise: two different accepted inputs carry different
   (seq, pairs, signature) triples ... *)
Theorem accepted_inputs_differ_in_triple : forall (c : crypto) kt b1 b2 r1 r2 rest,
  bytes_ok b1 -> bytes_ok b2 ->
  decode c kt b1 = Ok (r1, rest) -> decode c kt b2 = Ok (r2, rest) ->
  b1 <> b2 -> triple r1 <> triple r2.
Proof. exact Thm_Forgery.accepted_inputs_differ_in_triple. Qed.
Print Assumptions accepted_inputs_differ_in_triple.

(* ... and an altered copy of a signed record is accepted only if it brings its own verifying
   (key, content, signature), with a different signed message or a different signature: a forgery, or a
   re-signing by the holder of the key the altered pairs carry *)
Theorem alteration_accepted_only_as_forgery : forall (c : crypto) kt b1 b2 r1 r2 rest,
  bytes_ok b1 -> bytes_ok b2 ->
  decode c kt b1 = Ok (r1, rest) -> decode c kt b2 = Ok (r2, rest) -> b1 <> b2 ->
  exists pk2, enr_to_public c kt (content r2) = Ok pk2 /\
              verify_v4 c pk2 (signed_payload r2) (sig r2) = true /\
              (signed_payload r2 <> signed_payload r1 \/ sig r2 <> sig r1).
Proof. exact Thm_Forgery.alteration_accepted_only_as_forgery. Qed.
Print Assumptions alteration_accepted_only_as_forgery.

(* ---- the text and JSON entry points: same guarantee ---- *)
Theorem from_str_authentic : forall (c : crypto) kt s r, from_str c kt s = Ok r ->
  exists pk, enr_to_public c kt (content r) = Ok pk /\ id r = Some v4 /\
             verify_v4 c pk (signed_payload r) (sig r) = true /\ verify c kt r = Ok true.
Proof. exact Thm_Authentic.from_str_authentic. Qed.
Print Assumptions from_str_authentic.

Theorem from_json_authentic : forall (c : crypto) kt s r, from_json c kt s = Some (Ok r) ->
  exists pk, enr_to_public c kt (content r) = Ok pk /\ id r = Some v4 /\
             verify_v4 c pk (signed_payload r) (sig r) = true /\ verify c kt r = Ok true.
Proof. exact Thm_Authentic.from_json_authentic. Qed.
Print Assumptions from_json_authentic.

(* the signed message determines exactly the sequence number and the pairs the decoded record reports *)
Theorem signed_message_binds : forall (c : crypto) kt b1 b2 r1 r2 rest1 rest2,
  bytes_ok b1 -> bytes_ok b2 -> decode c kt b1 = Ok (r1, rest1) -> decode c kt b2 = Ok (r2, rest2) ->
  signed_payload r1 = signed_payload r2 -> seq r1 = seq r2 /\ content r1 = content r2.
Proof. exact Thm_Authentic.signed_message_binds. Qed.
Print Assumptions signed_message_binds.

(* "every alteration is rejected", relative to the one assumption it needs (unforgeability, as a hypothesis:
   under the record's key nothing but the signed message with its signature verifies): any accepted input
   carrying the same public key IS the original record, byte for byte *)
Theorem only_the_original_is_accepted : forall (c : crypto) kt b1 r1 rest1 pk,
  bytes_ok b1 -> decode c kt b1 = Ok (r1, rest1) -> enr_to_public c kt (content r1) = Ok pk ->
  (forall m' s', verify_v4 c pk m' s' = true -> m' = signed_payload r1 /\ s' = sig r1) ->
  forall b2 r2 rest2, bytes_ok b2 -> decode c kt b2 = Ok (r2, rest2) -> enr_to_public c kt (content r2) = Ok pk ->
    r2 = r1 /\ b2 = encode r1 ++ rest2.
Proof. exact Thm_Authentic.only_the_original_is_accepted. Qed.
Print Assumptions only_the_original_is_accepted.
