(* C05 — every record the library hands out is valid (always-signed invariant).
   Valid (theories/Spec.v): the record's encoding is a well-formed item whose parse is the record's
   own fields (signature verifies under the effective public key carried in the pairs, id = v4,
   at most 300 bytes, sorted well-typed pairs) and the node id is the hash of that key.
   Hypotheses, never axioms: KeyOk (the key object is what its encoding denotes), GoodSigner (the
   signer returns only signatures its public key verifies), op_ok / bcall_ok / key_bytes_ok
   (arguments are byte strings and integers of the Rust types). All are met by the toy scheme
   (Examples below) and checked at run time on every key and signature the harness sees. *)
Require Import Enr.Bytes Enr.Consts Enr.Rlp Enr.SortedMap Enr.Keccak Enr.Record Enr.Update Enr.Spec Enr.Toy.
Require Import EnrProofs.Thm_CrossValid.
Require Import EnrProofs.WellFormedLemmas EnrProofs.Thm_Valid EnrProofs.Thm_Update.
Open Scope N_scope.

Theorem decode_valid : forall (c : crypto) kt b r rest,
  bytes_ok b -> decode c kt b = Ok (r, rest) -> Valid c kt r.
Proof. exact WellFormedLemmas.decode_valid. Qed.
Print Assumptions decode_valid.

Theorem build_valid : forall (c : crypto) kt sq calls k sg r,
  sq < 2 ^ 64 -> Forall bcall_ok calls -> key_bytes_ok k -> KeyOk c kt k -> GoodSigner c k sg ->
  build c kt sq calls k sg = Ok r -> Valid c kt r.
Proof. exact Thm_Valid.build_valid. Qed.
Print Assumptions build_valid.

Theorem step_valid : forall (c : crypto) kt r o k sg x r',
  Valid c kt r -> op_ok o -> key_bytes_ok k -> KeyOk c kt k -> GoodSigner c k sg ->
  step c kt r o k sg = (Ok x, r') -> Valid c kt r'.
Proof. exact Thm_Valid.step_valid. Qed.
Print Assumptions step_valid.

(* every reachable state: induction over arbitrary call sequences; each call may use a different
   key (re-keying) and a different signer; failed calls leave the record as it was *)
Theorem history_valid : forall (c : crypto) kt h r,
  Valid c kt r -> Forall (call_ok c kt) h -> Valid c kt (run c kt r h).
Proof. exact Thm_Valid.history_valid. Qed.
Print Assumptions history_valid.

Theorem history_valid_prefix : forall (c : crypto) kt h n r,
  Valid c kt r -> Forall (call_ok c kt) h -> Valid c kt (run c kt r (firstn n h)).
Proof. exact Thm_Valid.history_valid_prefix. Qed.
Print Assumptions history_valid_prefix.

(* what a valid record shows to its user: verifies under the key it carries, id v4, node id = hash of
   that key, at most 300 bytes, accepted again by the decoder as itself *)
Theorem valid_observables : forall (c : crypto) kt r,
  Valid c kt r ->
  exists pk, public_key c kt r = Ok pk /\ verify c kt r = Ok true /\ id r = Some v4 /\
             nid r = node_id_of pk /\ size r <= MAX_ENR_SIZE /\ seq r < 2 ^ 64 /\
             decode c kt (encode r) = Ok (r, []).
Proof. exact Thm_Valid.valid_observables. Qed.
Print Assumptions valid_observables.

Theorem valid_redecodes : forall (c : crypto) kt r rest,
  Valid c kt r -> decode c kt (encode r ++ rest) = Ok (r, rest).
Proof. exact WellFormedLemmas.valid_redecodes. Qed.
Print Assumptions valid_redecodes.

(* re-keying: after an update with another key the record's key, node id and signature are that key's *)
Theorem step_rekeys : forall (c : crypto) kt r o k sg x r',
  seq r < 2 ^ 64 -> (forall n, o = OSetSeq n -> n < 2 ^ 64) ->
  step c kt r o k sg = (Ok x, r') ->
  exists p, enr_to_public c kt (content r') = Ok p /\ pk_enc p = pk_enc (sk_pub k) /\
            nid r' = node_id_of (sk_pub k) /\ sg (signed_payload r') = Some (sig r').
Proof. exact Thm_Update.step_rekeys. Qed.
Print Assumptions step_rekeys.

(* ---- non-vacuity: the toy scheme (variable-length signatures) meets every hypothesis ---- *)
Example toy_key_ok : forall b, KeyOk toy_crypto Toy (toy_key b).
Proof. intros b. apply Thm_Valid.toy_key_ok. Qed.

Example toy_signer_good : forall b pad, lenN b = 8 -> GoodSigner toy_crypto (toy_key b) (toy_signer b pad).
Proof. intros b pad H. apply Thm_Valid.toy_signer_good. exact H. Qed.

Example toy_built_valid : exists r, toy_built = Ok r /\ Valid toy_crypto Toy r.
Proof.
  destruct toy_built as [r| |] eqn:E; [|vm_compute in E; discriminate..].
  exists r. split; [reflexivity|].
  unfold toy_built in E. eapply (Thm_Valid.build_valid toy_crypto Toy); [| | | | |exact E].
  - vm_compute; reflexivity.
  - repeat constructor; vm_compute; try reflexivity; repeat constructor.
  - split; [repeat constructor | vm_compute; reflexivity].
  - apply toy_key_ok.
  - apply toy_signer_good. reflexivity.
Qed.

Example toy_history_ok : Forall (call_ok toy_crypto Toy) toy_history.
Proof.
  assert (H : forall o b pad, op_ok o -> lenN b = 8 -> bytes_ok b ->
              call_ok toy_crypto Toy (o, toy_key b, toy_signer b pad)).
  { intros o b pad Ho Hl Hb. split; [exact Ho|]. split.
    - split; [exact Hb | cbn [toy_key toy_pub sk_pub pk_enc]; rewrite Hl; vm_compute; reflexivity].
    - split; [apply toy_key_ok | apply toy_signer_good; exact Hl]. }
  assert (B1 : bytes_ok toy_pk1) by (unfold bytes_ok, toy_pk1; repeat (constructor; [reflexivity|]); constructor).
  assert (B2 : bytes_ok toy_pk2) by (unfold bytes_ok, toy_pk2; repeat (constructor; [reflexivity|]); constructor).
  unfold toy_history.
  constructor; [apply H; [vm_compute; reflexivity | reflexivity | exact B1]|].
  constructor; [apply H; [split; [unfold bytes_ok; repeat (constructor; [reflexivity|]); constructor | left; reflexivity] | reflexivity | exact B1]|].
  constructor; [apply H; [exact I | reflexivity | exact B2]|].
  constructor; [apply H; [vm_compute; reflexivity | reflexivity | exact B2]|].
  constructor.
Qed.

(* the history really runs: three successful updates (two of them re-keying) and the final seq *)
Example toy_history_runs :
  match toy_built with
  | Ok r => seq (run toy_crypto Toy r toy_history) = 255 /\
            sm_get k_udp (content (run toy_crypto Toy r toy_history)) = None /\
            sm_get k_toy (content (run toy_crypto Toy r toy_history)) = Some (enc_string toy_pk2)
  | _ => False
  end.
Proof. vm_compute. repeat split. Qed.

(* the last sentence of the property with the hypotheses on the key discharged: after a successful update made with key k
   the public-key accessor returns k's public key; node id and signature are k's; the record verifies and is Valid *)
Theorem rekeyed_record : forall (c : crypto) kt r o k sg x r',
  Valid c kt r -> op_ok o -> key_bytes_ok k -> KeyOk c kt k -> GoodSigner c k sg ->
  step c kt r o k sg = (Ok x, r') ->
  public_key c kt r' = Ok (sk_pub k) /\ nid r' = node_id_of (sk_pub k) /\
  verify_v4 c (sk_pub k) (signed_payload r') (sig r') = true /\ verify c kt r' = Ok true /\ Valid c kt r'.
Proof. exact Thm_CrossValid.rekeyed_record. Qed.
Print Assumptions rekeyed_record.
