(* C09 — the 300-byte limit: never exceeded, size() exact. *)
Require Import Enr.Bytes Enr.Consts Enr.Rlp Enr.SortedMap Enr.Keccak Enr.Record Enr.Update.
Require Import EnrProofs.Thm_Decode EnrProofs.Thm_Update.
Open Scope N_scope.

Theorem size_is_encoding_length : forall r, size r = lenN (encode r).
Proof. reflexivity. Qed.
Print Assumptions size_is_encoding_length.

Theorem decode_size : forall (c : crypto) kt b r rest,
  bytes_ok b -> decode c kt b = Ok (r, rest) -> size r <= MAX_ENR_SIZE.
Proof. exact Thm_Decode.decode_size. Qed.
Print Assumptions decode_size.

(* any operation, any key type, any signature length *)
Theorem step_size : forall (c : crypto) kt r o k sg x r',
  seq r < 2 ^ 64 -> (forall n, o = OSetSeq n -> n < 2 ^ 64) ->
  step c kt r o k sg = (Ok x, r') -> size r' <= MAX_ENR_SIZE.
Proof. exact Thm_Update.step_size. Qed.
Print Assumptions step_size.
