(* C09 — the 300-byte limit: never exceeded, size() exact. *)
Require Import Enr.Bytes Enr.Consts Enr.Rlp Enr.SortedMap Enr.Keccak Enr.Record Enr.Update Enr.Spec Enr.Toy.
Require Import EnrProofs.Thm_Cause.
Require Import EnrProofs.Thm_Decode EnrProofs.Thm_Update EnrProofs.RefineLemmas EnrProofs.Thm_Refine EnrProofs.Thm_Size.
Open Scope N_scope.

Theorem size_is_encoding_length : forall r, size r = lenN (encode r).
Proof. reflexivity. Qed.
Print Assumptions size_is_encoding_length.

Theorem decode_size : forall (c : crypto) kt b r rest,
  bytes_ok b -> decode c kt b = Ok (r, rest) -> size r <= MAX_ENR_SIZE.
Proof. exact Thm_Decode.decode_size. Qed.
Print Assumptions decode_size.

(* any operation, any key type, any signature length *)
Theorem step_size : forall (c : crypto) kt r o k sg x r',
  seq r < 2 ^ 64 -> (forall n, o = OSetSeq n -> n < 2 ^ 64) ->
  step c kt r o k sg = (Ok x, r') -> size r' <= MAX_ENR_SIZE.
Proof. exact Thm_Update.step_size. Qed.
Print Assumptions step_size.

(* encoded sizes are monotone in the sequence number (the first size check uses the old number) *)
Theorem enc_uint_len_mono : forall n n', n <= n' -> n' < 2 ^ 64 -> lenN (enc_uint n) <= lenN (enc_uint n').
Proof. exact Thm_Size.enc_uint_len_mono. Qed.
Print Assumptions enc_uint_len_mono.

Theorem size_mono : forall sq sq' nd nd' m s s',
  sq <= sq' -> sq' < 2 ^ 64 -> lenN (enc_string s) <= lenN (enc_string s') ->
  size (cand sq nd m s) <= size (cand sq' nd' m s').
Proof. exact Thm_Size.size_mono. Qed.
Print Assumptions size_mono.

(* equal-length signatures (the built-in 64-byte schemes): refused for size exactly when the result
   (new pairs, incremented sequence number, new signature) would exceed 300 bytes *)
Theorem step_refused_iff : forall (c : crypto) kt r o k sg s,
  seq r < 2 ^ 64 -> seq r <> U64_MAX -> (forall n, o <> OSetSeq n) ->
  check_list c (checked_inserts o) = Ok tt ->
  check_keyed_by c kt (spec_pairs o k (content r)) k = Ok tt ->
  id_is_v4 (cand (seq r + 1) (nid r) (spec_pairs o k (content r)) (sig r)) = true ->
  sg (signed_payload_of (seq r + 1) (spec_pairs o k (content r))) = Some s ->
  lenN (sig r) = lenN s -> 2 <= lenN s ->
  (fst (step c kt r o k sg) = Err EExceedsMaxSize <->
   MAX_ENR_SIZE < size (cand (seq r + 1) (node_id_of (sk_pub k)) (spec_pairs o k (content r)) s)).
Proof. exact Thm_Size.step_refused_iff. Qed.
Print Assumptions step_refused_iff.

(* the builder: refuses every result above 300 bytes, nothing at or below 292, returns at most 300 *)
Theorem build_refusal : forall (c : crypto) kt sq calls k sg s nd,
  let m := with_key (sm_insert k_id (enc_string v4) (fold_left apply_bcall calls [])) k in
  check_all c (fold_left apply_bcall calls []) = Ok tt ->
  check_keyed_by c kt m k = Ok tt ->
  sg (signed_payload_of sq m) = Some s ->
  (build c kt sq calls k sg = Err EExceedsMaxSize <-> MAX_ENR_SIZE < lenN (signed_payload_of sq m) + lenN s + 8) /\
  (MAX_ENR_SIZE < size (cand sq nd m s) -> build c kt sq calls k sg = Err EExceedsMaxSize) /\
  (build c kt sq calls k sg = Err EExceedsMaxSize -> 292 < size (cand sq nd m s)) /\
  (forall r, build c kt sq calls k sg = Ok r -> r = cand sq (node_id_of (sk_pub k)) m s /\ size r <= MAX_ENR_SIZE).
Proof. exact Thm_Size.build_refusal. Qed.
Print Assumptions build_refusal.

(* non-vacuity: the toy record is 61 bytes *)
Example toy_size : match toy_built with Ok r => size r = lenN (encode r) /\ size r <= 300 | _ => False end.
Proof. vm_compute. split; [reflexivity | discriminate]. Qed.

(* set_seq: refused for size exactly when the record with the requested number and the new signature exceeds
   300 bytes; otherwise it is exactly that record (any signature length) *)
Theorem set_seq_outcome : forall (c : crypto) kt r n k sg s,
  check_keyed_by c kt (with_key (content r) k) k = Ok tt ->
  sm_get k_id (with_key (content r) k) = Some (enc_string v4) ->
  sg (signed_payload_of n (with_key (content r) k)) = Some s ->
  step c kt r (OSetSeq n) k sg =
  if MAX_ENR_SIZE <? size (cand n (node_id_of (sk_pub k)) (with_key (content r) k) s)
  then (Err EExceedsMaxSize, r) else (Ok RUnit, cand n (node_id_of (sk_pub k)) (with_key (content r) k) s).
Proof. exact Thm_Cause.set_seq_outcome. Qed.
Print Assumptions set_seq_outcome.
Theorem set_seq_refused_iff : forall (c : crypto) kt r n k sg s,
  check_keyed_by c kt (with_key (content r) k) k = Ok tt ->
  sm_get k_id (with_key (content r) k) = Some (enc_string v4) ->
  sg (signed_payload_of n (with_key (content r) k)) = Some s ->
  (fst (step c kt r (OSetSeq n) k sg) = Err EExceedsMaxSize <->
   MAX_ENR_SIZE < size (cand n (node_id_of (sk_pub k)) (with_key (content r) k) s)).
Proof. exact Thm_Cause.set_seq_refused_iff. Qed.
Print Assumptions set_seq_refused_iff.
