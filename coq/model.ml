
(** val negb : bool -> bool **)

let negb = function
| true -> false
| false -> true

type nat =
| O
| S of nat

(** val option_map : ('a1 -> 'a2) -> 'a1 option -> 'a2 option **)

let option_map f = function
| Some a -> Some (f a)
| None -> None

(** val fst : ('a1 * 'a2) -> 'a1 **)

let fst = function
| (x, _) -> x

(** val snd : ('a1 * 'a2) -> 'a2 **)

let snd = function
| (_, y) -> y

(** val length : 'a1 list -> nat **)

let rec length = function
| [] -> O
| _ :: l' -> S (length l')

(** val app : 'a1 list -> 'a1 list -> 'a1 list **)

let rec app l m =
  match l with
  | [] -> m
  | a :: l1 -> a :: (app l1 m)

type comparison =
| Eq
| Lt
| Gt

module Coq__1 = struct
 (** val add : nat -> nat -> nat **)
 let rec add n0 m =
   match n0 with
   | O -> m
   | S p -> S (add p m)
end
include Coq__1

(** val mul : nat -> nat -> nat **)

let rec mul n0 m =
  match n0 with
  | O -> O
  | S p -> add m (mul p m)

(** val sub : nat -> nat -> nat **)

let rec sub n0 m =
  match n0 with
  | O -> n0
  | S k -> (match m with
            | O -> n0
            | S l -> sub k l)

(** val eqb : nat -> nat -> bool **)

let rec eqb n0 m =
  match n0 with
  | O -> (match m with
          | O -> true
          | S _ -> false)
  | S n' -> (match m with
             | O -> false
             | S m' -> eqb n' m')

(** val eqb0 : bool -> bool -> bool **)

let eqb0 b1 b2 =
  if b1 then b2 else if b2 then false else true

module Nat =
 struct
  (** val sub : nat -> nat -> nat **)

  let rec sub n0 m =
    match n0 with
    | O -> n0
    | S k -> (match m with
              | O -> n0
              | S l -> sub k l)

  (** val eqb : nat -> nat -> bool **)

  let rec eqb n0 m =
    match n0 with
    | O -> (match m with
            | O -> true
            | S _ -> false)
    | S n' -> (match m with
               | O -> false
               | S m' -> eqb n' m')

  (** val divmod : nat -> nat -> nat -> nat -> nat * nat **)

  let rec divmod x y q u =
    match x with
    | O -> (q, u)
    | S x' ->
      (match u with
       | O -> divmod x' y (S q) y
       | S u' -> divmod x' y q u')

  (** val div : nat -> nat -> nat **)

  let div x y = match y with
  | O -> y
  | S y' -> fst (divmod x y' O y')

  (** val modulo : nat -> nat -> nat **)

  let modulo x = function
  | O -> x
  | S y' -> sub y' (snd (divmod x y' O y'))
 end

(** val nth : nat -> 'a1 list -> 'a1 -> 'a1 **)

let rec nth n0 l default =
  match n0 with
  | O -> (match l with
          | [] -> default
          | x :: _ -> x)
  | S m -> (match l with
            | [] -> default
            | _ :: t -> nth m t default)

(** val rev : 'a1 list -> 'a1 list **)

let rec rev = function
| [] -> []
| x :: l' -> app (rev l') (x :: [])

(** val map : ('a1 -> 'a2) -> 'a1 list -> 'a2 list **)

let rec map f = function
| [] -> []
| a :: t -> (f a) :: (map f t)

(** val flat_map : ('a1 -> 'a2 list) -> 'a1 list -> 'a2 list **)

let rec flat_map f = function
| [] -> []
| x :: t -> app (f x) (flat_map f t)

(** val fold_left : ('a1 -> 'a2 -> 'a1) -> 'a2 list -> 'a1 -> 'a1 **)

let rec fold_left f l a0 =
  match l with
  | [] -> a0
  | b :: t -> fold_left f t (f a0 b)

(** val forallb : ('a1 -> bool) -> 'a1 list -> bool **)

let rec forallb f = function
| [] -> true
| a :: l0 -> (&&) (f a) (forallb f l0)

(** val firstn : nat -> 'a1 list -> 'a1 list **)

let rec firstn n0 l =
  match n0 with
  | O -> []
  | S n1 -> (match l with
             | [] -> []
             | a :: l0 -> a :: (firstn n1 l0))

(** val skipn : nat -> 'a1 list -> 'a1 list **)

let rec skipn n0 l =
  match n0 with
  | O -> l
  | S n1 -> (match l with
             | [] -> []
             | _ :: l0 -> skipn n1 l0)

(** val seq : nat -> nat -> nat list **)

let rec seq start = function
| O -> []
| S len0 -> start :: (seq (S start) len0)

(** val repeat : 'a1 -> nat -> 'a1 list **)

let rec repeat x = function
| O -> []
| S k -> x :: (repeat x k)

type positive =
| XI of positive
| XO of positive
| XH

type n =
| N0
| Npos of positive

module Pos =
 struct
  type mask =
  | IsNul
  | IsPos of positive
  | IsNeg
 end

module Coq_Pos =
 struct
  (** val succ : positive -> positive **)

  let rec succ = function
  | XI p -> XO (succ p)
  | XO p -> XI p
  | XH -> XO XH

  (** val add : positive -> positive -> positive **)

  let rec add x y =
    match x with
    | XI p ->
      (match y with
       | XI q -> XO (add_carry p q)
       | XO q -> XI (add p q)
       | XH -> XO (succ p))
    | XO p ->
      (match y with
       | XI q -> XI (add p q)
       | XO q -> XO (add p q)
       | XH -> XI p)
    | XH -> (match y with
             | XI q -> XO (succ q)
             | XO q -> XI q
             | XH -> XO XH)

  (** val add_carry : positive -> positive -> positive **)

  and add_carry x y =
    match x with
    | XI p ->
      (match y with
       | XI q -> XI (add_carry p q)
       | XO q -> XO (add_carry p q)
       | XH -> XI (succ p))
    | XO p ->
      (match y with
       | XI q -> XO (add_carry p q)
       | XO q -> XI (add p q)
       | XH -> XO (succ p))
    | XH ->
      (match y with
       | XI q -> XI (succ q)
       | XO q -> XO (succ q)
       | XH -> XI XH)

  (** val pred_double : positive -> positive **)

  let rec pred_double = function
  | XI p -> XI (XO p)
  | XO p -> XI (pred_double p)
  | XH -> XH

  type mask = Pos.mask =
  | IsNul
  | IsPos of positive
  | IsNeg

  (** val succ_double_mask : mask -> mask **)

  let succ_double_mask = function
  | IsNul -> IsPos XH
  | IsPos p -> IsPos (XI p)
  | IsNeg -> IsNeg

  (** val double_mask : mask -> mask **)

  let double_mask = function
  | IsPos p -> IsPos (XO p)
  | x0 -> x0

  (** val double_pred_mask : positive -> mask **)

  let double_pred_mask = function
  | XI p -> IsPos (XO (XO p))
  | XO p -> IsPos (XO (pred_double p))
  | XH -> IsNul

  (** val sub_mask : positive -> positive -> mask **)

  let rec sub_mask x y =
    match x with
    | XI p ->
      (match y with
       | XI q -> double_mask (sub_mask p q)
       | XO q -> succ_double_mask (sub_mask p q)
       | XH -> IsPos (XO p))
    | XO p ->
      (match y with
       | XI q -> succ_double_mask (sub_mask_carry p q)
       | XO q -> double_mask (sub_mask p q)
       | XH -> IsPos (pred_double p))
    | XH -> (match y with
             | XH -> IsNul
             | _ -> IsNeg)

  (** val sub_mask_carry : positive -> positive -> mask **)

  and sub_mask_carry x y =
    match x with
    | XI p ->
      (match y with
       | XI q -> succ_double_mask (sub_mask_carry p q)
       | XO q -> double_mask (sub_mask p q)
       | XH -> IsPos (pred_double p))
    | XO p ->
      (match y with
       | XI q -> double_mask (sub_mask_carry p q)
       | XO q -> succ_double_mask (sub_mask_carry p q)
       | XH -> double_pred_mask p)
    | XH -> IsNeg

  (** val mul : positive -> positive -> positive **)

  let rec mul x y =
    match x with
    | XI p -> add y (XO (mul p y))
    | XO p -> XO (mul p y)
    | XH -> y

  (** val iter : ('a1 -> 'a1) -> 'a1 -> positive -> 'a1 **)

  let rec iter f x = function
  | XI n' -> f (iter f (iter f x n') n')
  | XO n' -> iter f (iter f x n') n'
  | XH -> f x

  (** val size : positive -> positive **)

  let rec size = function
  | XI p0 -> succ (size p0)
  | XO p0 -> succ (size p0)
  | XH -> XH

  (** val compare_cont : comparison -> positive -> positive -> comparison **)

  let rec compare_cont r x y =
    match x with
    | XI p ->
      (match y with
       | XI q -> compare_cont r p q
       | XO q -> compare_cont Gt p q
       | XH -> Gt)
    | XO p ->
      (match y with
       | XI q -> compare_cont Lt p q
       | XO q -> compare_cont r p q
       | XH -> Gt)
    | XH -> (match y with
             | XH -> r
             | _ -> Lt)

  (** val compare : positive -> positive -> comparison **)

  let compare =
    compare_cont Eq

  (** val eqb : positive -> positive -> bool **)

  let rec eqb p q =
    match p with
    | XI p0 -> (match q with
                | XI q0 -> eqb p0 q0
                | _ -> false)
    | XO p0 -> (match q with
                | XO q0 -> eqb p0 q0
                | _ -> false)
    | XH -> (match q with
             | XH -> true
             | _ -> false)

  (** val coq_Nsucc_double : n -> n **)

  let coq_Nsucc_double = function
  | N0 -> Npos XH
  | Npos p -> Npos (XI p)

  (** val coq_Ndouble : n -> n **)

  let coq_Ndouble = function
  | N0 -> N0
  | Npos p -> Npos (XO p)

  (** val coq_lor : positive -> positive -> positive **)

  let rec coq_lor p q =
    match p with
    | XI p0 ->
      (match q with
       | XI q0 -> XI (coq_lor p0 q0)
       | XO q0 -> XI (coq_lor p0 q0)
       | XH -> p)
    | XO p0 ->
      (match q with
       | XI q0 -> XI (coq_lor p0 q0)
       | XO q0 -> XO (coq_lor p0 q0)
       | XH -> XI p0)
    | XH -> (match q with
             | XO q0 -> XI q0
             | _ -> q)

  (** val coq_land : positive -> positive -> n **)

  let rec coq_land p q =
    match p with
    | XI p0 ->
      (match q with
       | XI q0 -> coq_Nsucc_double (coq_land p0 q0)
       | XO q0 -> coq_Ndouble (coq_land p0 q0)
       | XH -> Npos XH)
    | XO p0 ->
      (match q with
       | XI q0 -> coq_Ndouble (coq_land p0 q0)
       | XO q0 -> coq_Ndouble (coq_land p0 q0)
       | XH -> N0)
    | XH -> (match q with
             | XO _ -> N0
             | _ -> Npos XH)

  (** val ldiff : positive -> positive -> n **)

  let rec ldiff p q =
    match p with
    | XI p0 ->
      (match q with
       | XI q0 -> coq_Ndouble (ldiff p0 q0)
       | XO q0 -> coq_Nsucc_double (ldiff p0 q0)
       | XH -> Npos (XO p0))
    | XO p0 ->
      (match q with
       | XI q0 -> coq_Ndouble (ldiff p0 q0)
       | XO q0 -> coq_Ndouble (ldiff p0 q0)
       | XH -> Npos p)
    | XH -> (match q with
             | XO _ -> Npos XH
             | _ -> N0)

  (** val coq_lxor : positive -> positive -> n **)

  let rec coq_lxor p q =
    match p with
    | XI p0 ->
      (match q with
       | XI q0 -> coq_Ndouble (coq_lxor p0 q0)
       | XO q0 -> coq_Nsucc_double (coq_lxor p0 q0)
       | XH -> Npos (XO p0))
    | XO p0 ->
      (match q with
       | XI q0 -> coq_Nsucc_double (coq_lxor p0 q0)
       | XO q0 -> coq_Ndouble (coq_lxor p0 q0)
       | XH -> Npos (XI p0))
    | XH ->
      (match q with
       | XI q0 -> Npos (XO q0)
       | XO q0 -> Npos (XI q0)
       | XH -> N0)

  (** val shiftl : positive -> n -> positive **)

  let shiftl p = function
  | N0 -> p
  | Npos n1 -> iter (fun x -> XO x) p n1

  (** val iter_op : ('a1 -> 'a1 -> 'a1) -> positive -> 'a1 -> 'a1 **)

  let rec iter_op op0 p a =
    match p with
    | XI p0 -> op0 a (iter_op op0 p0 (op0 a a))
    | XO p0 -> iter_op op0 p0 (op0 a a)
    | XH -> a

  (** val to_nat : positive -> nat **)

  let to_nat x =
    iter_op Coq__1.add x (S O)

  (** val of_succ_nat : nat -> positive **)

  let rec of_succ_nat = function
  | O -> XH
  | S x -> succ (of_succ_nat x)
 end

module N =
 struct
  (** val succ_double : n -> n **)

  let succ_double = function
  | N0 -> Npos XH
  | Npos p -> Npos (XI p)

  (** val double : n -> n **)

  let double = function
  | N0 -> N0
  | Npos p -> Npos (XO p)

  (** val add : n -> n -> n **)

  let add n0 m =
    match n0 with
    | N0 -> m
    | Npos p -> (match m with
                 | N0 -> n0
                 | Npos q -> Npos (Coq_Pos.add p q))

  (** val sub : n -> n -> n **)

  let sub n0 m =
    match n0 with
    | N0 -> N0
    | Npos n' ->
      (match m with
       | N0 -> n0
       | Npos m' ->
         (match Coq_Pos.sub_mask n' m' with
          | Coq_Pos.IsPos p -> Npos p
          | _ -> N0))

  (** val mul : n -> n -> n **)

  let mul n0 m =
    match n0 with
    | N0 -> N0
    | Npos p -> (match m with
                 | N0 -> N0
                 | Npos q -> Npos (Coq_Pos.mul p q))

  (** val compare : n -> n -> comparison **)

  let compare n0 m =
    match n0 with
    | N0 -> (match m with
             | N0 -> Eq
             | Npos _ -> Lt)
    | Npos n' -> (match m with
                  | N0 -> Gt
                  | Npos m' -> Coq_Pos.compare n' m')

  (** val eqb : n -> n -> bool **)

  let eqb n0 m =
    match n0 with
    | N0 -> (match m with
             | N0 -> true
             | Npos _ -> false)
    | Npos p -> (match m with
                 | N0 -> false
                 | Npos q -> Coq_Pos.eqb p q)

  (** val leb : n -> n -> bool **)

  let leb x y =
    match compare x y with
    | Gt -> false
    | _ -> true

  (** val ltb : n -> n -> bool **)

  let ltb x y =
    match compare x y with
    | Lt -> true
    | _ -> false

  (** val div2 : n -> n **)

  let div2 = function
  | N0 -> N0
  | Npos p0 -> (match p0 with
                | XI p -> Npos p
                | XO p -> Npos p
                | XH -> N0)

  (** val size : n -> n **)

  let size = function
  | N0 -> N0
  | Npos p -> Npos (Coq_Pos.size p)

  (** val pos_div_eucl : positive -> n -> n * n **)

  let rec pos_div_eucl a b =
    match a with
    | XI a' ->
      let (q, r) = pos_div_eucl a' b in
      let r' = succ_double r in
      if leb b r' then ((succ_double q), (sub r' b)) else ((double q), r')
    | XO a' ->
      let (q, r) = pos_div_eucl a' b in
      let r' = double r in
      if leb b r' then ((succ_double q), (sub r' b)) else ((double q), r')
    | XH ->
      (match b with
       | N0 -> (N0, (Npos XH))
       | Npos p -> (match p with
                    | XH -> ((Npos XH), N0)
                    | _ -> (N0, (Npos XH))))

  (** val div_eucl : n -> n -> n * n **)

  let div_eucl a b =
    match a with
    | N0 -> (N0, N0)
    | Npos na -> (match b with
                  | N0 -> (N0, a)
                  | Npos _ -> pos_div_eucl na b)

  (** val div : n -> n -> n **)

  let div a b =
    fst (div_eucl a b)

  (** val modulo : n -> n -> n **)

  let modulo a b =
    snd (div_eucl a b)

  (** val coq_lor : n -> n -> n **)

  let coq_lor n0 m =
    match n0 with
    | N0 -> m
    | Npos p -> (match m with
                 | N0 -> n0
                 | Npos q -> Npos (Coq_Pos.coq_lor p q))

  (** val coq_land : n -> n -> n **)

  let coq_land n0 m =
    match n0 with
    | N0 -> N0
    | Npos p -> (match m with
                 | N0 -> N0
                 | Npos q -> Coq_Pos.coq_land p q)

  (** val ldiff : n -> n -> n **)

  let ldiff n0 m =
    match n0 with
    | N0 -> N0
    | Npos p -> (match m with
                 | N0 -> n0
                 | Npos q -> Coq_Pos.ldiff p q)

  (** val coq_lxor : n -> n -> n **)

  let coq_lxor n0 m =
    match n0 with
    | N0 -> m
    | Npos p -> (match m with
                 | N0 -> n0
                 | Npos q -> Coq_Pos.coq_lxor p q)

  (** val shiftl : n -> n -> n **)

  let shiftl a n0 =
    match a with
    | N0 -> N0
    | Npos a0 -> Npos (Coq_Pos.shiftl a0 n0)

  (** val shiftr : n -> n -> n **)

  let shiftr a = function
  | N0 -> a
  | Npos p -> Coq_Pos.iter div2 a p

  (** val to_nat : n -> nat **)

  let to_nat = function
  | N0 -> O
  | Npos p -> Coq_Pos.to_nat p

  (** val of_nat : nat -> n **)

  let of_nat = function
  | O -> N0
  | S n' -> Npos (Coq_Pos.of_succ_nat n')
 end

type ascii =
| Ascii of bool * bool * bool * bool * bool * bool * bool * bool

(** val n_of_digits : bool list -> n **)

let rec n_of_digits = function
| [] -> N0
| b :: l' ->
  N.add (if b then Npos XH else N0) (N.mul (Npos (XO XH)) (n_of_digits l'))

(** val n_of_ascii : ascii -> n **)

let n_of_ascii = function
| Ascii (a0, a1, a2, a3, a4, a5, a6, a7) ->
  n_of_digits
    (a0 :: (a1 :: (a2 :: (a3 :: (a4 :: (a5 :: (a6 :: (a7 :: []))))))))

type string =
| EmptyString
| String of ascii * string

(** val list_ascii_of_string : string -> ascii list **)

let rec list_ascii_of_string = function
| EmptyString -> []
| String (ch, s0) -> ch :: (list_ascii_of_string s0)

type bytes = n list

(** val lenN : 'a1 list -> n **)

let lenN l =
  N.of_nat (length l)

(** val takeN : n -> 'a1 list -> 'a1 list **)

let takeN n0 b =
  firstn (N.to_nat n0) b

(** val dropN : n -> 'a1 list -> 'a1 list **)

let dropN n0 b =
  skipn (N.to_nat n0) b

(** val str : string -> bytes **)

let str s =
  map n_of_ascii (list_ascii_of_string s)

(** val be_val_acc : n -> bytes -> n **)

let rec be_val_acc acc = function
| [] -> acc
| x :: t ->
  be_val_acc
    (N.add (N.mul acc (Npos (XO (XO (XO (XO (XO (XO (XO (XO XH)))))))))) x) t

(** val be_val : bytes -> n **)

let be_val =
  be_val_acc N0

(** val be_trim_fuel : nat -> n -> bytes -> bytes **)

let rec be_trim_fuel fuel n0 acc =
  match fuel with
  | O -> acc
  | S f ->
    if N.eqb n0 N0
    then acc
    else be_trim_fuel f
           (N.div n0 (Npos (XO (XO (XO (XO (XO (XO (XO (XO XH))))))))))
           ((N.modulo n0 (Npos (XO (XO (XO (XO (XO (XO (XO (XO XH)))))))))) :: acc)

(** val be_trim : n -> bytes **)

let be_trim n0 =
  be_trim_fuel (N.to_nat (N.size n0)) n0 []

(** val be_pad : nat -> n -> bytes **)

let be_pad k n0 =
  let t = be_trim n0 in app (repeat N0 (sub k (length t))) t

(** val bytes_eqb : bytes -> bytes -> bool **)

let rec bytes_eqb a b =
  match a with
  | [] -> (match b with
           | [] -> true
           | _ :: _ -> false)
  | x :: a' ->
    (match b with
     | [] -> false
     | y :: b' -> (&&) (N.eqb x y) (bytes_eqb a' b'))

(** val bytes_ltb : bytes -> bytes -> bool **)

let rec bytes_ltb a b =
  match a with
  | [] -> (match b with
           | [] -> false
           | _ :: _ -> true)
  | x :: a' ->
    (match b with
     | [] -> false
     | y :: b' ->
       if N.ltb x y
       then true
       else if N.ltb y x then false else bytes_ltb a' b')

(** val is_empty : 'a1 list -> bool **)

let is_empty = function
| [] -> true
| _ :: _ -> false

type err =
| EInputTooShort
| ENonCanonicalSingleByte
| ENonCanonicalSize
| ELeadingZero
| EOverflow
| EUnexpectedList
| EUnexpectedString
| EUnexpectedLength
| ECustom
| EExceedsMaxSize
| ESequenceNumberTooHigh
| ESigningError
| EUnsupportedIdentityScheme
| EFuel

type 'a res =
| Ok of 'a
| Err of err
| Panic

(** val bind : 'a1 res -> ('a1 -> 'a2 res) -> 'a2 res **)

let bind x f =
  match x with
  | Ok a -> f a
  | Err e -> Err e
  | Panic -> Panic

(** val k_id : bytes **)

let k_id =
  str (String ((Ascii (true, false, false, true, false, true, true, false)),
    (String ((Ascii (false, false, true, false, false, true, true, false)),
    EmptyString))))

(** val k_ip : bytes **)

let k_ip =
  str (String ((Ascii (true, false, false, true, false, true, true, false)),
    (String ((Ascii (false, false, false, false, true, true, true, false)),
    EmptyString))))

(** val k_ip6 : bytes **)

let k_ip6 =
  str (String ((Ascii (true, false, false, true, false, true, true, false)),
    (String ((Ascii (false, false, false, false, true, true, true, false)),
    (String ((Ascii (false, true, true, false, true, true, false, false)),
    EmptyString))))))

(** val k_tcp : bytes **)

let k_tcp =
  str (String ((Ascii (false, false, true, false, true, true, true, false)),
    (String ((Ascii (true, true, false, false, false, true, true, false)),
    (String ((Ascii (false, false, false, false, true, true, true, false)),
    EmptyString))))))

(** val k_tcp6 : bytes **)

let k_tcp6 =
  str (String ((Ascii (false, false, true, false, true, true, true, false)),
    (String ((Ascii (true, true, false, false, false, true, true, false)),
    (String ((Ascii (false, false, false, false, true, true, true, false)),
    (String ((Ascii (false, true, true, false, true, true, false, false)),
    EmptyString))))))))

(** val k_udp : bytes **)

let k_udp =
  str (String ((Ascii (true, false, true, false, true, true, true, false)),
    (String ((Ascii (false, false, true, false, false, true, true, false)),
    (String ((Ascii (false, false, false, false, true, true, true, false)),
    EmptyString))))))

(** val k_udp6 : bytes **)

let k_udp6 =
  str (String ((Ascii (true, false, true, false, true, true, true, false)),
    (String ((Ascii (false, false, true, false, false, true, true, false)),
    (String ((Ascii (false, false, false, false, true, true, true, false)),
    (String ((Ascii (false, true, true, false, true, true, false, false)),
    EmptyString))))))))

(** val k_secp : bytes **)

let k_secp =
  str (String ((Ascii (true, true, false, false, true, true, true, false)),
    (String ((Ascii (true, false, true, false, false, true, true, false)),
    (String ((Ascii (true, true, false, false, false, true, true, false)),
    (String ((Ascii (false, false, false, false, true, true, true, false)),
    (String ((Ascii (false, true, false, false, true, true, false, false)),
    (String ((Ascii (true, false, true, false, true, true, false, false)),
    (String ((Ascii (false, true, true, false, true, true, false, false)),
    (String ((Ascii (true, true, false, true, false, true, true, false)),
    (String ((Ascii (true, false, false, false, true, true, false, false)),
    EmptyString))))))))))))))))))

(** val k_ed : bytes **)

let k_ed =
  str (String ((Ascii (true, false, true, false, false, true, true, false)),
    (String ((Ascii (false, false, true, false, false, true, true, false)),
    (String ((Ascii (false, true, false, false, true, true, false, false)),
    (String ((Ascii (true, false, true, false, true, true, false, false)),
    (String ((Ascii (true, false, true, false, true, true, false, false)),
    (String ((Ascii (true, false, false, false, true, true, false, false)),
    (String ((Ascii (true, false, false, true, true, true, false, false)),
    EmptyString))))))))))))))

(** val k_toy : bytes **)

let k_toy =
  str (String ((Ascii (false, false, true, false, true, true, true, false)),
    (String ((Ascii (true, true, true, true, false, true, true, false)),
    (String ((Ascii (true, false, false, true, true, true, true, false)),
    EmptyString))))))

(** val k_client : bytes **)

let k_client =
  str (String ((Ascii (true, true, false, false, false, true, true, false)),
    (String ((Ascii (false, false, true, true, false, true, true, false)),
    (String ((Ascii (true, false, false, true, false, true, true, false)),
    (String ((Ascii (true, false, true, false, false, true, true, false)),
    (String ((Ascii (false, true, true, true, false, true, true, false)),
    (String ((Ascii (false, false, true, false, true, true, true, false)),
    EmptyString))))))))))))

(** val v4 : bytes **)

let v4 =
  str (String ((Ascii (false, true, true, false, true, true, true, false)),
    (String ((Ascii (false, false, true, false, true, true, false, false)),
    EmptyString))))

(** val hdr_encode : bool -> n -> bytes **)

let hdr_encode list0 n0 =
  if N.ltb n0 (Npos (XO (XO (XO (XI (XI XH))))))
  then (N.add
         (if list0
          then Npos (XO (XO (XO (XO (XO (XO (XI XH)))))))
          else Npos (XO (XO (XO (XO (XO (XO (XO XH)))))))) n0) :: []
  else let lb = be_trim n0 in
       (N.add
         (if list0
          then Npos (XI (XI (XI (XO (XI (XI (XI XH)))))))
          else Npos (XI (XI (XI (XO (XI (XI (XO XH)))))))) (lenN lb)) :: lb

(** val hdr_long : bool -> n -> bytes -> ((bool * n) * bytes) res **)

let hdr_long list0 ll t =
  if N.ltb (lenN t) ll
  then Err EInputTooShort
  else let lb = takeN ll t in
       let t' = dropN ll t in
       if N.ltb (Npos (XO (XO (XO XH)))) (lenN lb)
       then Err EOverflow
       else (match lb with
             | [] -> Err ENonCanonicalSize
             | z :: _ ->
               if N.eqb z N0
               then Err ELeadingZero
               else let n0 = be_val lb in
                    if N.ltb n0 (Npos (XO (XO (XO (XI (XI XH))))))
                    then Err ENonCanonicalSize
                    else if N.ltb (lenN t') n0
                         then Err EInputTooShort
                         else Ok ((list0, n0), t'))

(** val hdr_decode : bytes -> ((bool * n) * bytes) res **)

let hdr_decode buf = match buf with
| [] -> Err EInputTooShort
| b :: t ->
  if N.ltb b (Npos (XO (XO (XO (XO (XO (XO (XO XH))))))))
  then Ok ((false, (Npos XH)), buf)
  else if N.ltb b (Npos (XO (XO (XO (XI (XI (XI (XO XH))))))))
       then let n0 = N.sub b (Npos (XO (XO (XO (XO (XO (XO (XO XH)))))))) in
            bind
              (if N.eqb n0 (Npos XH)
               then (match t with
                     | [] -> Err EInputTooShort
                     | c :: _ ->
                       if N.ltb c (Npos (XO (XO (XO (XO (XO (XO (XO XH))))))))
                       then Err ENonCanonicalSingleByte
                       else Ok ())
               else Ok ()) (fun _ ->
              if N.ltb (lenN t) n0
              then Err EInputTooShort
              else Ok ((false, n0), t))
       else if N.ltb b (Npos (XO (XO (XO (XO (XO (XO (XI XH))))))))
            then hdr_long false
                   (N.sub b (Npos (XI (XI (XI (XO (XI (XI (XO XH))))))))) t
            else if N.ltb b (Npos (XO (XO (XO (XI (XI (XI (XI XH))))))))
                 then let n0 =
                        N.sub b (Npos (XO (XO (XO (XO (XO (XO (XI XH))))))))
                      in
                      if N.ltb (lenN t) n0
                      then Err EInputTooShort
                      else Ok ((true, n0), t)
                 else hdr_long true
                        (N.sub b (Npos (XI (XI (XI (XO (XI (XI (XI XH)))))))))
                        t

(** val dec_payload : bool -> bytes -> (bytes * bytes) res **)

let dec_payload want_list buf =
  bind (hdr_decode buf) (fun pat ->
    let (p0, p) = pat in
    let (l, n0) = p0 in
    if eqb0 l want_list
    then Ok ((takeN n0 p), (dropN n0 p))
    else Err (if want_list then EUnexpectedString else EUnexpectedList))

(** val dec_string : bytes -> (bytes * bytes) res **)

let dec_string =
  dec_payload false

(** val dec_list : bytes -> (bytes * bytes) res **)

let dec_list =
  dec_payload true

(** val left_pad_val : n -> bytes -> n res **)

let left_pad_val k data =
  if N.ltb k (lenN data)
  then Err EOverflow
  else (match data with
        | [] -> Ok N0
        | z :: _ -> if N.eqb z N0 then Err ELeadingZero else Ok (be_val data))

(** val dec_uint : n -> bytes -> (n * bytes) res **)

let dec_uint k buf =
  bind (dec_string buf) (fun pat ->
    let (s, rest) = pat in bind (left_pad_val k s) (fun v -> Ok (v, rest)))

(** val enc_string : bytes -> bytes **)

let enc_string s = match s with
| [] -> app (hdr_encode false (lenN s)) s
| x :: l ->
  (match l with
   | [] ->
     if N.ltb x (Npos (XO (XO (XO (XO (XO (XO (XO XH))))))))
     then x :: []
     else app (hdr_encode false (Npos XH)) s
   | _ :: _ -> app (hdr_encode false (lenN s)) s)

(** val enc_uint : n -> bytes **)

let enc_uint n0 =
  enc_string (be_trim n0)

(** val enc_list : bytes -> bytes **)

let enc_list payload =
  app (hdr_encode true (lenN payload)) payload

(** val dec_fixed : n -> bytes -> (bytes * bytes) res **)

let dec_fixed k buf =
  bind (dec_string buf) (fun pat ->
    let (s, rest) = pat in
    if N.eqb (lenN s) k then Ok (s, rest) else Err EUnexpectedLength)

(** val dec_strings : nat -> bytes -> bytes list res **)

let rec dec_strings fuel payload = match payload with
| [] -> Ok []
| _ :: _ ->
  (match fuel with
   | O -> Err EFuel
   | S f ->
     bind (dec_string payload) (fun pat ->
       let (s, rest) = pat in bind (dec_strings f rest) (fun l -> Ok (s :: l))))

(** val dec_vec_bytes : bytes -> (bytes list * bytes) res **)

let dec_vec_bytes buf =
  bind (dec_list buf) (fun pat ->
    let (payload, rest) = pat in
    bind (dec_strings (length payload) payload) (fun l -> Ok (l, rest)))

(** val enc_strings : bytes list -> bytes **)

let enc_strings l =
  enc_list (flat_map enc_string l)

(** val dec_item : bytes -> ((bool * bytes) * bytes) res **)

let dec_item buf =
  bind (hdr_decode buf) (fun pat ->
    let (p0, p) = pat in
    let (l, n0) = p0 in Ok ((l, (takeN n0 p)), (dropN n0 p)))

(** val reframe : bool -> bytes -> bytes **)

let reframe l payload =
  if l
  then app (hdr_encode true (lenN payload)) payload
  else enc_string payload

type smap = (bytes * bytes) list

(** val sm_get : bytes -> smap -> bytes option **)

let rec sm_get k = function
| [] -> None
| p :: t -> let (k', v) = p in if bytes_eqb k k' then Some v else sm_get k t

(** val sm_insert : bytes -> bytes -> smap -> smap **)

let rec sm_insert k v m = match m with
| [] -> (k, v) :: []
| p :: t ->
  let (k', v') = p in
  if bytes_ltb k k'
  then (k, v) :: m
  else if bytes_eqb k k' then (k, v) :: t else (k', v') :: (sm_insert k v t)

(** val sm_remove : bytes -> smap -> smap **)

let rec sm_remove k = function
| [] -> []
| p :: t ->
  let (k', v') = p in
  if bytes_eqb k k' then t else (k', v') :: (sm_remove k t)

(** val mask64 : n **)

let mask64 =
  Npos (XI (XI (XI (XI (XI (XI (XI (XI (XI (XI (XI (XI (XI (XI (XI (XI (XI
    (XI (XI (XI (XI (XI (XI (XI (XI (XI (XI (XI (XI (XI (XI (XI (XI (XI (XI
    (XI (XI (XI (XI (XI (XI (XI (XI (XI (XI (XI (XI (XI (XI (XI (XI (XI (XI
    (XI (XI (XI (XI (XI (XI (XI (XI (XI (XI
    XH)))))))))))))))))))))))))))))))))))))))))))))))))))))))))))))))

(** val rotl : n -> n -> n **)

let rotl x n0 =
  if N.eqb n0 N0
  then x
  else N.coq_lor (N.coq_land (N.shiftl x n0) mask64)
         (N.shiftr x (N.sub (Npos (XO (XO (XO (XO (XO (XO XH))))))) n0))

(** val lane : n list -> nat -> n **)

let lane st i =
  nth i st N0

(** val idx5 : nat list **)

let idx5 =
  O :: ((S O) :: ((S (S O)) :: ((S (S (S O))) :: ((S (S (S (S O)))) :: []))))

(** val idx25 : nat list **)

let idx25 =
  seq O (S (S (S (S (S (S (S (S (S (S (S (S (S (S (S (S (S (S (S (S (S (S (S
    (S (S O)))))))))))))))))))))))))

(** val rots : n list **)

let rots =
  N0 :: ((Npos XH) :: ((Npos (XO (XI (XI (XI (XI XH)))))) :: ((Npos (XO (XO
    (XI (XI XH))))) :: ((Npos (XI (XI (XO (XI XH))))) :: ((Npos (XO (XO (XI
    (XO (XO XH)))))) :: ((Npos (XO (XO (XI (XI (XO XH)))))) :: ((Npos (XO (XI
    XH))) :: ((Npos (XI (XI (XI (XO (XI XH)))))) :: ((Npos (XO (XO (XI (XO
    XH))))) :: ((Npos (XI XH)) :: ((Npos (XO (XI (XO XH)))) :: ((Npos (XI (XI
    (XO (XI (XO XH)))))) :: ((Npos (XI (XO (XO (XI XH))))) :: ((Npos (XI (XI
    (XI (XO (XO XH)))))) :: ((Npos (XI (XO (XO (XI (XO XH)))))) :: ((Npos (XI
    (XO (XI (XI (XO XH)))))) :: ((Npos (XI (XI (XI XH)))) :: ((Npos (XI (XO
    (XI (XO XH))))) :: ((Npos (XO (XO (XO XH)))) :: ((Npos (XO (XI (XO (XO
    XH))))) :: ((Npos (XO XH)) :: ((Npos (XI (XO (XI (XI (XI
    XH)))))) :: ((Npos (XO (XO (XO (XI (XI XH)))))) :: ((Npos (XO (XI (XI
    XH)))) :: []))))))))))))))))))))))))

(** val rcs : n list **)

let rcs =
  (Npos XH) :: ((Npos (XO (XI (XO (XO (XO (XO (XO (XI (XO (XO (XO (XO (XO (XO
    (XO XH)))))))))))))))) :: ((Npos (XO (XI (XO (XI (XO (XO (XO (XI (XO (XO
    (XO (XO (XO (XO (XO (XI (XO (XO (XO (XO (XO (XO (XO (XO (XO (XO (XO (XO
    (XO (XO (XO (XO (XO (XO (XO (XO (XO (XO (XO (XO (XO (XO (XO (XO (XO (XO
    (XO (XO (XO (XO (XO (XO (XO (XO (XO (XO (XO (XO (XO (XO (XO (XO (XO
    XH)))))))))))))))))))))))))))))))))))))))))))))))))))))))))))))))) :: ((Npos
    (XO (XO (XO (XO (XO (XO (XO (XO (XO (XO (XO (XO (XO (XO (XO (XI (XO (XO
    (XO (XO (XO (XO (XO (XO (XO (XO (XO (XO (XO (XO (XO (XI (XO (XO (XO (XO
    (XO (XO (XO (XO (XO (XO (XO (XO (XO (XO (XO (XO (XO (XO (XO (XO (XO (XO
    (XO (XO (XO (XO (XO (XO (XO (XO (XO
    XH)))))))))))))))))))))))))))))))))))))))))))))))))))))))))))))))) :: ((Npos
    (XI (XI (XO (XI (XO (XO (XO (XI (XO (XO (XO (XO (XO (XO (XO
    XH)))))))))))))))) :: ((Npos (XI (XO (XO (XO (XO (XO (XO (XO (XO (XO (XO
    (XO (XO (XO (XO (XO (XO (XO (XO (XO (XO (XO (XO (XO (XO (XO (XO (XO (XO
    (XO (XO XH)))))))))))))))))))))))))))))))) :: ((Npos (XI (XO (XO (XO (XO
    (XO (XO (XI (XO (XO (XO (XO (XO (XO (XO (XI (XO (XO (XO (XO (XO (XO (XO
    (XO (XO (XO (XO (XO (XO (XO (XO (XI (XO (XO (XO (XO (XO (XO (XO (XO (XO
    (XO (XO (XO (XO (XO (XO (XO (XO (XO (XO (XO (XO (XO (XO (XO (XO (XO (XO
    (XO (XO (XO (XO
    XH)))))))))))))))))))))))))))))))))))))))))))))))))))))))))))))))) :: ((Npos
    (XI (XO (XO (XI (XO (XO (XO (XO (XO (XO (XO (XO (XO (XO (XO (XI (XO (XO
    (XO (XO (XO (XO (XO (XO (XO (XO (XO (XO (XO (XO (XO (XO (XO (XO (XO (XO
    (XO (XO (XO (XO (XO (XO (XO (XO (XO (XO (XO (XO (XO (XO (XO (XO (XO (XO
    (XO (XO (XO (XO (XO (XO (XO (XO (XO
    XH)))))))))))))))))))))))))))))))))))))))))))))))))))))))))))))))) :: ((Npos
    (XO (XI (XO (XI (XO (XO (XO XH)))))))) :: ((Npos (XO (XO (XO (XI (XO (XO
    (XO XH)))))))) :: ((Npos (XI (XO (XO (XI (XO (XO (XO (XO (XO (XO (XO (XO
    (XO (XO (XO (XI (XO (XO (XO (XO (XO (XO (XO (XO (XO (XO (XO (XO (XO (XO
    (XO XH)))))))))))))))))))))))))))))))) :: ((Npos (XO (XI (XO (XI (XO (XO
    (XO (XO (XO (XO (XO (XO (XO (XO (XO (XO (XO (XO (XO (XO (XO (XO (XO (XO
    (XO (XO (XO (XO (XO (XO (XO XH)))))))))))))))))))))))))))))))) :: ((Npos
    (XI (XI (XO (XI (XO (XO (XO (XI (XO (XO (XO (XO (XO (XO (XO (XI (XO (XO
    (XO (XO (XO (XO (XO (XO (XO (XO (XO (XO (XO (XO (XO
    XH)))))))))))))))))))))))))))))))) :: ((Npos (XI (XI (XO (XI (XO (XO (XO
    (XI (XO (XO (XO (XO (XO (XO (XO (XO (XO (XO (XO (XO (XO (XO (XO (XO (XO
    (XO (XO (XO (XO (XO (XO (XO (XO (XO (XO (XO (XO (XO (XO (XO (XO (XO (XO
    (XO (XO (XO (XO (XO (XO (XO (XO (XO (XO (XO (XO (XO (XO (XO (XO (XO (XO
    (XO (XO
    XH)))))))))))))))))))))))))))))))))))))))))))))))))))))))))))))))) :: ((Npos
    (XI (XO (XO (XI (XO (XO (XO (XI (XO (XO (XO (XO (XO (XO (XO (XI (XO (XO
    (XO (XO (XO (XO (XO (XO (XO (XO (XO (XO (XO (XO (XO (XO (XO (XO (XO (XO
    (XO (XO (XO (XO (XO (XO (XO (XO (XO (XO (XO (XO (XO (XO (XO (XO (XO (XO
    (XO (XO (XO (XO (XO (XO (XO (XO (XO
    XH)))))))))))))))))))))))))))))))))))))))))))))))))))))))))))))))) :: ((Npos
    (XI (XI (XO (XO (XO (XO (XO (XO (XO (XO (XO (XO (XO (XO (XO (XI (XO (XO
    (XO (XO (XO (XO (XO (XO (XO (XO (XO (XO (XO (XO (XO (XO (XO (XO (XO (XO
    (XO (XO (XO (XO (XO (XO (XO (XO (XO (XO (XO (XO (XO (XO (XO (XO (XO (XO
    (XO (XO (XO (XO (XO (XO (XO (XO (XO
    XH)))))))))))))))))))))))))))))))))))))))))))))))))))))))))))))))) :: ((Npos
    (XO (XI (XO (XO (XO (XO (XO (XO (XO (XO (XO (XO (XO (XO (XO (XI (XO (XO
    (XO (XO (XO (XO (XO (XO (XO (XO (XO (XO (XO (XO (XO (XO (XO (XO (XO (XO
    (XO (XO (XO (XO (XO (XO (XO (XO (XO (XO (XO (XO (XO (XO (XO (XO (XO (XO
    (XO (XO (XO (XO (XO (XO (XO (XO (XO
    XH)))))))))))))))))))))))))))))))))))))))))))))))))))))))))))))))) :: ((Npos
    (XO (XO (XO (XO (XO (XO (XO (XI (XO (XO (XO (XO (XO (XO (XO (XO (XO (XO
    (XO (XO (XO (XO (XO (XO (XO (XO (XO (XO (XO (XO (XO (XO (XO (XO (XO (XO
    (XO (XO (XO (XO (XO (XO (XO (XO (XO (XO (XO (XO (XO (XO (XO (XO (XO (XO
    (XO (XO (XO (XO (XO (XO (XO (XO (XO
    XH)))))))))))))))))))))))))))))))))))))))))))))))))))))))))))))))) :: ((Npos
    (XO (XI (XO (XI (XO (XO (XO (XO (XO (XO (XO (XO (XO (XO (XO
    XH)))))))))))))))) :: ((Npos (XO (XI (XO (XI (XO (XO (XO (XO (XO (XO (XO
    (XO (XO (XO (XO (XO (XO (XO (XO (XO (XO (XO (XO (XO (XO (XO (XO (XO (XO
    (XO (XO (XI (XO (XO (XO (XO (XO (XO (XO (XO (XO (XO (XO (XO (XO (XO (XO
    (XO (XO (XO (XO (XO (XO (XO (XO (XO (XO (XO (XO (XO (XO (XO (XO
    XH)))))))))))))))))))))))))))))))))))))))))))))))))))))))))))))))) :: ((Npos
    (XI (XO (XO (XO (XO (XO (XO (XI (XO (XO (XO (XO (XO (XO (XO (XI (XO (XO
    (XO (XO (XO (XO (XO (XO (XO (XO (XO (XO (XO (XO (XO (XI (XO (XO (XO (XO
    (XO (XO (XO (XO (XO (XO (XO (XO (XO (XO (XO (XO (XO (XO (XO (XO (XO (XO
    (XO (XO (XO (XO (XO (XO (XO (XO (XO
    XH)))))))))))))))))))))))))))))))))))))))))))))))))))))))))))))))) :: ((Npos
    (XO (XO (XO (XO (XO (XO (XO (XI (XO (XO (XO (XO (XO (XO (XO (XI (XO (XO
    (XO (XO (XO (XO (XO (XO (XO (XO (XO (XO (XO (XO (XO (XO (XO (XO (XO (XO
    (XO (XO (XO (XO (XO (XO (XO (XO (XO (XO (XO (XO (XO (XO (XO (XO (XO (XO
    (XO (XO (XO (XO (XO (XO (XO (XO (XO
    XH)))))))))))))))))))))))))))))))))))))))))))))))))))))))))))))))) :: ((Npos
    (XI (XO (XO (XO (XO (XO (XO (XO (XO (XO (XO (XO (XO (XO (XO (XO (XO (XO
    (XO (XO (XO (XO (XO (XO (XO (XO (XO (XO (XO (XO (XO
    XH)))))))))))))))))))))))))))))))) :: ((Npos (XO (XO (XO (XI (XO (XO (XO
    (XO (XO (XO (XO (XO (XO (XO (XO (XI (XO (XO (XO (XO (XO (XO (XO (XO (XO
    (XO (XO (XO (XO (XO (XO (XI (XO (XO (XO (XO (XO (XO (XO (XO (XO (XO (XO
    (XO (XO (XO (XO (XO (XO (XO (XO (XO (XO (XO (XO (XO (XO (XO (XO (XO (XO
    (XO (XO
    XH)))))))))))))))))))))))))))))))))))))))))))))))))))))))))))))))) :: [])))))))))))))))))))))))

(** val theta : n list -> n list **)

let theta st =
  let c =
    map (fun x ->
      N.coq_lxor (lane st x)
        (N.coq_lxor (lane st (add x (S (S (S (S (S O)))))))
          (N.coq_lxor
            (lane st (add x (S (S (S (S (S (S (S (S (S (S O))))))))))))
            (N.coq_lxor
              (lane st
                (add x (S (S (S (S (S (S (S (S (S (S (S (S (S (S (S
                  O)))))))))))))))))
              (lane st
                (add x (S (S (S (S (S (S (S (S (S (S (S (S (S (S (S (S (S (S
                  (S (S O)))))))))))))))))))))))))) idx5
  in
  let d =
    map (fun x ->
      N.coq_lxor
        (nth (Nat.modulo (add x (S (S (S (S O))))) (S (S (S (S (S O)))))) c
          N0)
        (rotl (nth (Nat.modulo (add x (S O)) (S (S (S (S (S O)))))) c N0)
          (Npos XH))) idx5
  in
  map (fun i ->
    N.coq_lxor (lane st i) (nth (Nat.modulo i (S (S (S (S (S O)))))) d N0))
    idx25

(** val rhopi : n list -> n list **)

let rhopi st =
  map (fun j ->
    let x = Nat.modulo j (S (S (S (S (S O))))) in
    let y = Nat.div j (S (S (S (S (S O))))) in
    let x0 = Nat.modulo (add x (mul (S (S (S O))) y)) (S (S (S (S (S O))))) in
    let i = add x0 (mul (S (S (S (S (S O))))) x) in
    rotl (lane st i) (nth i rots N0)) idx25

(** val chi : n list -> n list **)

let chi st =
  map (fun j ->
    let x = Nat.modulo j (S (S (S (S (S O))))) in
    let y5 = mul (S (S (S (S (S O))))) (Nat.div j (S (S (S (S (S O)))))) in
    N.coq_lxor (lane st j)
      (N.ldiff
        (lane st
          (add (Nat.modulo (add x (S (S O))) (S (S (S (S (S O)))))) y5))
        (lane st (add (Nat.modulo (add x (S O)) (S (S (S (S (S O)))))) y5))))
    idx25

(** val iota : n -> n list -> n list **)

let iota rc = function
| [] -> []
| a :: t -> (N.coq_lxor a rc) :: t

(** val kround : n list -> n -> n list **)

let kround st rc =
  iota rc (chi (rhopi (theta st)))

(** val keccak_f : n list -> n list **)

let keccak_f st =
  fold_left kround rcs st

(** val le_val : bytes -> n **)

let rec le_val = function
| [] -> N0
| x :: t ->
  N.add x (N.mul (Npos (XO (XO (XO (XO (XO (XO (XO (XO XH))))))))) (le_val t))

(** val le_bytes : nat -> n -> bytes **)

let rec le_bytes k n0 =
  match k with
  | O -> []
  | S k' ->
    (N.modulo n0 (Npos (XO (XO (XO (XO (XO (XO (XO (XO XH)))))))))) :: 
      (le_bytes k'
        (N.div n0 (Npos (XO (XO (XO (XO (XO (XO (XO (XO XH)))))))))))

(** val lanes_of : nat -> bytes -> n list **)

let rec lanes_of k b =
  match k with
  | O -> []
  | S k' ->
    (le_val (firstn (S (S (S (S (S (S (S (S O)))))))) b)) :: (lanes_of k'
                                                               (skipn (S (S
                                                                 (S (S (S (S
                                                                 (S (S
                                                                 O)))))))) b))

(** val rate : nat **)

let rate =
  S (S (S (S (S (S (S (S (S (S (S (S (S (S (S (S (S (S (S (S (S (S (S (S (S
    (S (S (S (S (S (S (S (S (S (S (S (S (S (S (S (S (S (S (S (S (S (S (S (S
    (S (S (S (S (S (S (S (S (S (S (S (S (S (S (S (S (S (S (S (S (S (S (S (S
    (S (S (S (S (S (S (S (S (S (S (S (S (S (S (S (S (S (S (S (S (S (S (S (S
    (S (S (S (S (S (S (S (S (S (S (S (S (S (S (S (S (S (S (S (S (S (S (S (S
    (S (S (S (S (S (S (S (S (S (S (S (S (S (S (S
    O)))))))))))))))))))))))))))))))))))))))))))))))))))))))))))))))))))))))))))))))))))))))))))))))))))))))))))))))))))))))))))))))))))))))

(** val kpad : bytes -> bytes **)

let kpad msg =
  let padlen = sub rate (Nat.modulo (length msg) rate) in
  if Nat.eqb padlen (S O)
  then app msg ((Npos (XI (XO (XO (XO (XO (XO (XO XH)))))))) :: [])
  else app msg
         (app ((Npos XH) :: [])
           (app (repeat N0 (sub padlen (S (S O)))) ((Npos (XO (XO (XO (XO (XO
             (XO (XO XH)))))))) :: [])))

(** val xor_lanes : n list -> n list -> n list **)

let rec xor_lanes st blk =
  match st with
  | [] -> (match blk with
           | [] -> st
           | _ :: _ -> [])
  | s :: st' ->
    (match blk with
     | [] -> st
     | b :: blk' -> (N.coq_lxor s b) :: (xor_lanes st' blk'))

(** val absorb : nat -> n list -> bytes -> n list **)

let rec absorb fuel st b =
  match fuel with
  | O -> st
  | S f ->
    (match b with
     | [] -> st
     | _ :: _ ->
       absorb f
         (keccak_f
           (xor_lanes st
             (lanes_of (S (S (S (S (S (S (S (S (S (S (S (S (S (S (S (S (S
               O))))))))))))))))) (firstn rate b)))) (skipn rate b))

(** val keccak256 : bytes -> bytes **)

let keccak256 msg =
  let p = kpad msg in
  let st =
    absorb (S (Nat.div (length p) rate))
      (repeat N0 (S (S (S (S (S (S (S (S (S (S (S (S (S (S (S (S (S (S (S (S
        (S (S (S (S (S O)))))))))))))))))))))))))) p
  in
  flat_map (le_bytes (S (S (S (S (S (S (S (S O)))))))))
    (firstn (S (S (S (S O)))) st)

(** val mAX_ENR_SIZE : n **)

let mAX_ENR_SIZE =
  Npos (XO (XO (XI (XI (XO (XI (XO (XO XH))))))))

type crypto = { secp_pk : (bytes -> (bytes * bytes) option);
                ecdsa_core : (bytes -> bytes -> bytes -> bool);
                ed_pk_ok : (bytes -> bool);
                ed_core : (bytes -> bytes -> bytes -> bool);
                secp_chk : (bytes -> bool) }

type keytype =
| K256
| LibSecp
| Ed
| Comb
| Toy

type scheme =
| SSecp
| SEd
| SToy

type pubkey = { pk_scheme : scheme; pk_enc : bytes; pk_unc : bytes }

(** val scheme_key : scheme -> bytes **)

let scheme_key = function
| SSecp -> k_secp
| SEd -> k_ed
| SToy -> k_toy

(** val secp_n : n **)

let secp_n =
  Npos (XI (XO (XO (XO (XO (XO (XI (XO (XI (XO (XO (XO (XO (XO (XI (XO (XO
    (XI (XI (XO (XI (XI (XO (XO (XO (XO (XO (XO (XI (XO (XI (XI (XO (XO (XI
    (XI (XO (XO (XO (XI (XO (XI (XI (XI (XI (XO (XI (XO (XO (XI (XO (XO (XI
    (XO (XI (XI (XI (XI (XI (XI (XI (XI (XO (XI (XI (XI (XO (XI (XI (XI (XO
    (XO (XO (XO (XO (XO (XO (XI (XO (XI (XO (XO (XO (XI (XO (XO (XI (XO (XI
    (XI (XI (XI (XO (XI (XO (XI (XO (XI (XI (XO (XO (XI (XI (XI (XO (XO (XI
    (XI (XI (XO (XI (XI (XO (XI (XI (XI (XO (XI (XO (XI (XO (XI (XO (XI (XI
    (XI (XO (XI (XO (XI (XI (XI (XI (XI (XI (XI (XI (XI (XI (XI (XI (XI (XI
    (XI (XI (XI (XI (XI (XI (XI (XI (XI (XI (XI (XI (XI (XI (XI (XI (XI (XI
    (XI (XI (XI (XI (XI (XI (XI (XI (XI (XI (XI (XI (XI (XI (XI (XI (XI (XI
    (XI (XI (XI (XI (XI (XI (XI (XI (XI (XI (XI (XI (XI (XI (XI (XI (XI (XI
    (XI (XI (XI (XI (XI (XI (XI (XI (XI (XI (XI (XI (XI (XI (XI (XI (XI (XI
    (XI (XI (XI (XI (XI (XI (XI (XI (XI (XI (XI (XI (XI (XI (XI (XI (XI (XI
    (XI (XI (XI (XI (XI (XI (XI (XI (XI (XI (XI (XI (XI (XI (XI (XI (XI (XI
    (XI (XI (XI (XI
    XH)))))))))))))))))))))))))))))))))))))))))))))))))))))))))))))))))))))))))))))))))))))))))))))))))))))))))))))))))))))))))))))))))))))))))))))))))))))))))))))))))))))))))))))))))))))))))))))))))))))))))))))))))))))))))))))))))))))))))))))))))))))))))))))))

(** val secp_half_n : n **)

let secp_half_n =
  Npos (XO (XO (XO (XO (XO (XI (XO (XI (XO (XO (XO (XO (XO (XI (XO (XO (XI
    (XI (XO (XI (XI (XO (XO (XO (XO (XO (XO (XI (XO (XI (XI (XO (XO (XI (XI
    (XO (XO (XO (XI (XO (XI (XI (XI (XI (XO (XI (XO (XO (XI (XO (XO (XI (XO
    (XI (XI (XI (XI (XI (XI (XI (XI (XO (XI (XI (XI (XO (XI (XI (XI (XO (XO
    (XO (XO (XO (XO (XO (XI (XO (XI (XO (XO (XO (XI (XO (XO (XI (XO (XI (XI
    (XI (XI (XO (XI (XO (XI (XO (XI (XI (XO (XO (XI (XI (XI (XO (XO (XI (XI
    (XI (XO (XI (XI (XO (XI (XI (XI (XO (XI (XO (XI (XO (XI (XO (XI (XI (XI
    (XO (XI (XO (XI (XI (XI (XI (XI (XI (XI (XI (XI (XI (XI (XI (XI (XI (XI
    (XI (XI (XI (XI (XI (XI (XI (XI (XI (XI (XI (XI (XI (XI (XI (XI (XI (XI
    (XI (XI (XI (XI (XI (XI (XI (XI (XI (XI (XI (XI (XI (XI (XI (XI (XI (XI
    (XI (XI (XI (XI (XI (XI (XI (XI (XI (XI (XI (XI (XI (XI (XI (XI (XI (XI
    (XI (XI (XI (XI (XI (XI (XI (XI (XI (XI (XI (XI (XI (XI (XI (XI (XI (XI
    (XI (XI (XI (XI (XI (XI (XI (XI (XI (XI (XI (XI (XI (XI (XI (XI (XI (XI
    (XI (XI (XI (XI (XI (XI (XI (XI (XI (XI (XI (XI (XI (XI (XI (XI (XI (XI
    (XI (XI (XI
    XH))))))))))))))))))))))))))))))))))))))))))))))))))))))))))))))))))))))))))))))))))))))))))))))))))))))))))))))))))))))))))))))))))))))))))))))))))))))))))))))))))))))))))))))))))))))))))))))))))))))))))))))))))))))))))))))))))))))))))))))))))))))))))))))

(** val secp_to_public : crypto -> smap -> pubkey res **)

let secp_to_public c m =
  match sm_get k_secp m with
  | Some v ->
    bind (dec_string v) (fun pat ->
      let (b, _) = pat in
      (match c.secp_pk b with
       | Some p ->
         let (cp, un) = p in
         Ok { pk_scheme = SSecp; pk_enc = cp; pk_unc = un }
       | None -> Err ECustom))
  | None -> Err ECustom

(** val ed_to_public : crypto -> smap -> pubkey res **)

let ed_to_public c m =
  match sm_get k_ed m with
  | Some v ->
    bind (dec_string v) (fun pat ->
      let (b, _) = pat in
      if (&&) (N.eqb (lenN b) (Npos (XO (XO (XO (XO (XO XH)))))))
           (c.ed_pk_ok b)
      then Ok { pk_scheme = SEd; pk_enc = b; pk_unc = b }
      else Err ECustom)
  | None -> Err ECustom

(** val toy_to_public : smap -> pubkey res **)

let toy_to_public m =
  match sm_get k_toy m with
  | Some v ->
    bind (dec_string v) (fun pat ->
      let (b, _) = pat in
      if N.eqb (lenN b) (Npos (XO (XO (XO XH))))
      then Ok { pk_scheme = SToy; pk_enc = b; pk_unc = b }
      else Err ECustom)
  | None -> Err ECustom

(** val enr_to_public : crypto -> keytype -> smap -> pubkey res **)

let enr_to_public c kt m =
  match kt with
  | Ed -> ed_to_public c m
  | Comb ->
    (match secp_to_public c m with
     | Ok p -> Ok p
     | _ -> ed_to_public c m)
  | Toy -> toy_to_public m
  | _ -> secp_to_public c m

(** val verify_secp : crypto -> bytes -> bytes -> bytes -> bool **)

let verify_secp c pk msg sg =
  (&&)
    ((&&) (N.eqb (lenN sg) (Npos (XO (XO (XO (XO (XO (XO XH))))))))
      (let r =
         be_val
           (firstn (S (S (S (S (S (S (S (S (S (S (S (S (S (S (S (S (S (S (S
             (S (S (S (S (S (S (S (S (S (S (S (S (S
             O)))))))))))))))))))))))))))))))) sg)
       in
       let s =
         be_val
           (skipn (S (S (S (S (S (S (S (S (S (S (S (S (S (S (S (S (S (S (S (S
             (S (S (S (S (S (S (S (S (S (S (S (S
             O)))))))))))))))))))))))))))))))) sg)
       in
       (&&) ((&&) ((&&) (N.ltb N0 r) (N.ltb r secp_n)) (N.ltb N0 s))
         (N.leb s secp_half_n))) (c.ecdsa_core pk (keccak256 msg) sg)

(** val verify_ed : crypto -> bytes -> bytes -> bytes -> bool **)

let verify_ed c pk msg sg =
  (&&) (N.eqb (lenN sg) (Npos (XO (XO (XO (XO (XO (XO XH))))))))
    (c.ed_core pk msg sg)

(** val toy_tag : bytes -> bytes -> bytes **)

let toy_tag pk msg =
  firstn (S (S (S (S (S (S (S (S O)))))))) (keccak256 (app pk msg))

(** val verify_toy : bytes -> bytes -> bytes -> bool **)

let verify_toy pk msg sg =
  (&&) (N.leb (Npos (XO (XO (XO (XO XH))))) (lenN sg))
    (bytes_eqb
      (firstn (S (S (S (S (S (S (S (S (S (S (S (S (S (S (S (S
        O)))))))))))))))) sg) (app pk (toy_tag pk msg)))

(** val verify_v4 : crypto -> pubkey -> bytes -> bytes -> bool **)

let verify_v4 c p msg sg =
  match p.pk_scheme with
  | SSecp -> verify_secp c p.pk_enc msg sg
  | SEd -> verify_ed c p.pk_enc msg sg
  | SToy -> verify_toy p.pk_enc msg sg

(** val node_id_of : pubkey -> bytes **)

let node_id_of p =
  keccak256 p.pk_unc

type record = { seq0 : n; nid : bytes; content : smap; sig0 : bytes }

(** val enc_pair : (bytes * bytes) -> bytes **)

let enc_pair kv =
  app (enc_string (fst kv)) (snd kv)

(** val payload_body : n -> smap -> bytes **)

let payload_body sq m =
  app (enc_uint sq) (flat_map enc_pair m)

(** val signed_payload_of : n -> smap -> bytes **)

let signed_payload_of sq m =
  enc_list (payload_body sq m)

(** val signed_payload : record -> bytes **)

let signed_payload r =
  signed_payload_of r.seq0 r.content

(** val encode : record -> bytes **)

let encode r =
  enc_list (app (enc_string r.sig0) (payload_body r.seq0 r.content))

(** val size0 : record -> n **)

let size0 r =
  lenN (encode r)

(** val get_raw : record -> bytes -> bytes option **)

let get_raw r k =
  sm_get k r.content

(** val get : record -> bytes -> bytes res option **)

let get r k =
  match get_raw r k with
  | Some v ->
    Some
      (match hdr_decode v with
       | Ok a -> let (p0, p) = a in let (_, n0) = p0 in Ok (takeN n0 p)
       | _ -> Panic)
  | None -> None

(** val get_bytes : record -> bytes -> bytes res option **)

let get_bytes r k =
  option_map (fun v ->
    bind (dec_string v) (fun pat -> let (s, _) = pat in Ok s)) (get_raw r k)

(** val get_uint : n -> record -> bytes -> n res option **)

let get_uint w r k =
  option_map (fun v ->
    bind (dec_uint w v) (fun pat -> let (x, _) = pat in Ok x)) (get_raw r k)

(** val get_strings : record -> bytes -> bytes list res option **)

let get_strings r k =
  option_map (fun v ->
    bind (dec_vec_bytes v) (fun pat -> let (l, _) = pat in Ok l))
    (get_raw r k)

(** val ok_some : 'a1 res option -> 'a1 option **)

let ok_some = function
| Some r -> (match r with
             | Ok a -> Some a
             | _ -> None)
| None -> None

(** val id : record -> bytes option **)

let id r =
  ok_some (get_bytes r k_id)

(** val ip4 : record -> bytes option **)

let ip4 r =
  match ok_some (get_bytes r k_ip) with
  | Some b -> if N.eqb (lenN b) (Npos (XO (XO XH))) then Some b else None
  | None -> None

(** val ip6 : record -> bytes option **)

let ip6 r =
  match ok_some (get_bytes r k_ip6) with
  | Some b ->
    if N.eqb (lenN b) (Npos (XO (XO (XO (XO XH))))) then Some b else None
  | None -> None

(** val port : record -> bytes -> n option **)

let port r k =
  ok_some (get_uint (Npos (XO XH)) r k)

(** val tcp4 : record -> n option **)

let tcp4 r =
  port r k_tcp

(** val tcp6 : record -> n option **)

let tcp6 r =
  port r k_tcp6

(** val udp4 : record -> n option **)

let udp4 r =
  port r k_udp

(** val udp6 : record -> n option **)

let udp6 r =
  port r k_udp6

(** val sock : bytes option -> n option -> (bytes * n) option **)

let sock ip p =
  match ip with
  | Some a -> (match p with
               | Some q -> Some (a, q)
               | None -> None)
  | None -> None

(** val udp4_socket : record -> (bytes * n) option **)

let udp4_socket r =
  sock (ip4 r) (udp4 r)

(** val udp6_socket : record -> (bytes * n) option **)

let udp6_socket r =
  sock (ip6 r) (udp6 r)

(** val tcp4_socket : record -> (bytes * n) option **)

let tcp4_socket r =
  sock (ip4 r) (tcp4 r)

(** val tcp6_socket : record -> (bytes * n) option **)

let tcp6_socket r =
  sock (ip6 r) (tcp6 r)

(** val is_some : 'a1 option -> bool **)

let is_some = function
| Some _ -> true
| None -> false

(** val is_udp_reachable : record -> bool **)

let is_udp_reachable r =
  (||) (is_some (udp4_socket r)) (is_some (udp6_socket r))

(** val is_tcp_reachable : record -> bool **)

let is_tcp_reachable r =
  (||) (is_some (tcp4_socket r)) (is_some (tcp6_socket r))

(** val client_info : record -> bytes list option **)

let client_info r =
  match ok_some (get_strings r k_client) with
  | Some l ->
    if (||) (eqb (length l) (S (S O))) (eqb (length l) (S (S (S O))))
    then Some l
    else None
  | None -> None

(** val public_key : crypto -> keytype -> record -> pubkey res **)

let public_key c kt r =
  match enr_to_public c kt r.content with
  | Ok p -> Ok p
  | _ -> Panic

(** val id_is_v4 : record -> bool **)

let id_is_v4 r =
  match id r with
  | Some b -> bytes_eqb b v4
  | None -> false

(** val verify : crypto -> keytype -> record -> bool res **)

let verify c kt r =
  bind (public_key c kt r) (fun p -> Ok
    ((&&) (id_is_v4 r) (verify_v4 c p (signed_payload r) r.sig0)))

(** val is_port_key : bytes -> bool **)

let is_port_key k =
  (||)
    ((||) ((||) (bytes_eqb k k_tcp) (bytes_eqb k k_tcp6)) (bytes_eqb k k_udp))
    (bytes_eqb k k_udp6)

(** val dec_value : bytes -> bytes -> (bytes * bytes) res **)

let dec_value key payload =
  if bytes_eqb key k_id
  then bind (dec_string payload) (fun pat ->
         let (s, rest) = pat in
         if bytes_eqb s v4 then Ok ((enc_string s), rest) else Err ECustom)
  else if is_port_key key
       then bind (dec_uint (Npos (XO XH)) payload) (fun pat ->
              let (p, rest) = pat in Ok ((enc_uint p), rest))
       else if bytes_eqb key k_ip
            then bind (dec_fixed (Npos (XO (XO XH))) payload) (fun pat ->
                   let (s, rest) = pat in Ok ((enc_string s), rest))
            else if bytes_eqb key k_ip6
                 then bind (dec_fixed (Npos (XO (XO (XO (XO XH))))) payload)
                        (fun pat ->
                        let (s, rest) = pat in Ok ((enc_string s), rest))
                 else if (||) (bytes_eqb key k_secp) (bytes_eqb key k_ed)
                      then bind (dec_string payload) (fun pat ->
                             let (s, rest) = pat in Ok ((enc_string s), rest))
                      else bind (dec_item payload) (fun pat ->
                             let (p, rest) = pat in
                             let (l, v) = p in Ok ((reframe l v), rest))

(** val dec_pairs : nat -> bytes option -> bytes -> smap res **)

let rec dec_pairs fuel prev payload = match payload with
| [] -> Ok []
| _ :: _ ->
  (match fuel with
   | O -> Err EFuel
   | S f ->
     bind (dec_string payload) (fun pat ->
       let (key, p1) = pat in
       if match prev with
          | Some pk -> negb (bytes_ltb pk key)
          | None -> false
       then Err ECustom
       else bind (dec_value key p1) (fun pat0 ->
              let (v, p2) = pat0 in
              bind (dec_pairs f (Some key) p2) (fun rest -> Ok ((key,
                v) :: rest)))))

(** val decode : crypto -> keytype -> bytes -> (record * bytes) res **)

let decode c kt buf =
  bind (hdr_decode buf) (fun pat ->
    let (p0, p) = pat in
    let (_, n0) = p0 in
    if N.ltb mAX_ENR_SIZE (N.add (N.sub (lenN buf) (lenN p)) n0)
    then Err ECustom
    else bind (dec_list buf) (fun pat0 ->
           let (payload, rest) = pat0 in
           if is_empty payload
           then Err ECustom
           else bind (dec_string payload) (fun pat1 ->
                  let (sg, p1) = pat1 in
                  if is_empty p1
                  then Err ECustom
                  else bind (dec_uint (Npos (XO (XO (XO XH)))) p1)
                         (fun pat2 ->
                         let (sq, p2) = pat2 in
                         bind (dec_pairs (length p2) None p2) (fun m ->
                           bind (enr_to_public c kt m) (fun pk ->
                             let r = { seq0 = sq; nid = (node_id_of pk);
                               content = m; sig0 = sg }
                             in
                             bind (verify c kt r) (fun ok ->
                               if ok then Ok (r, rest) else Err ECustom)))))))

(** val dec_records : crypto -> keytype -> nat -> bytes -> record list res **)

let rec dec_records c kt fuel payload = match payload with
| [] -> Ok []
| _ :: _ ->
  (match fuel with
   | O -> Err EFuel
   | S f ->
     bind (decode c kt payload) (fun pat ->
       let (r, rest) = pat in
       bind (dec_records c kt f rest) (fun l -> Ok (r :: l))))

(** val decode_vec :
    crypto -> keytype -> bytes -> (record list * bytes) res **)

let decode_vec c kt buf =
  bind (dec_list buf) (fun pat ->
    let (payload, rest) = pat in
    bind (dec_records c kt (length payload) payload) (fun l -> Ok (l, rest)))

(** val rec_eqb : record -> record -> bool **)

let rec_eqb a b =
  (&&) ((&&) (N.eqb a.seq0 b.seq0) (bytes_eqb a.nid b.nid))
    (bytes_eqb a.sig0 b.sig0)

(** val hash_input : record -> (n * bytes) * bytes **)

let hash_input r =
  ((r.seq0, r.nid), r.sig0)

(** val compare_content : record -> record -> bool **)

let compare_content a b =
  bytes_eqb (signed_payload a) (signed_payload b)

type skey = pubkey
  (* singleton inductive, whose constructor was Build_skey *)

(** val sk_pub : skey -> pubkey **)

let sk_pub s =
  s

type signer = bytes -> bytes option

(** val u64_MAX : n **)

let u64_MAX =
  Npos (XI (XI (XI (XI (XI (XI (XI (XI (XI (XI (XI (XI (XI (XI (XI (XI (XI
    (XI (XI (XI (XI (XI (XI (XI (XI (XI (XI (XI (XI (XI (XI (XI (XI (XI (XI
    (XI (XI (XI (XI (XI (XI (XI (XI (XI (XI (XI (XI (XI (XI (XI (XI (XI (XI
    (XI (XI (XI (XI (XI (XI (XI (XI (XI (XI
    XH)))))))))))))))))))))))))))))))))))))))))))))))))))))))))))))))

type tval =
| TBytes of bytes
| TU16 of n
| TU64 of n
| TStr of bytes
| TList of bytes list
| TIp4 of bytes
| TIp6 of bytes

(** val enc_tval : tval -> bytes **)

let enc_tval = function
| TBytes b -> enc_string b
| TU16 n0 -> enc_uint n0
| TU64 n0 -> enc_uint n0
| TStr s -> enc_string s
| TList l -> enc_strings l
| TIp4 a -> enc_string a
| TIp6 a -> enc_string a

(** val pub_key_name : skey -> bytes **)

let pub_key_name k =
  scheme_key (sk_pub k).pk_scheme

(** val pub_entry : skey -> bytes **)

let pub_entry k =
  enc_string (sk_pub k).pk_enc

(** val check_reserved : crypto -> bytes -> bytes -> unit res **)

let check_reserved c key value =
  bind
    (if is_port_key key
     then bind (dec_uint (Npos (XO XH)) value) (fun pat ->
            let (_, rest) = pat in Ok rest)
     else if bytes_eqb key k_id
          then bind (dec_string value) (fun pat ->
                 let (s, rest) = pat in
                 if bytes_eqb s v4
                 then Ok rest
                 else Err EUnsupportedIdentityScheme)
          else if bytes_eqb key k_ip
               then bind (dec_fixed (Npos (XO (XO XH))) value) (fun pat ->
                      let (_, rest) = pat in Ok rest)
               else if bytes_eqb key k_ip6
                    then bind (dec_fixed (Npos (XO (XO (XO (XO XH))))) value)
                           (fun pat -> let (_, rest) = pat in Ok rest)
                    else if bytes_eqb key k_secp
                         then bind (dec_string value) (fun pat ->
                                let (s, rest) = pat in
                                if c.secp_chk s then Ok rest else Err ECustom)
                         else if bytes_eqb key k_ed
                              then bind (dec_string value) (fun pat ->
                                     let (_, rest) = pat in Ok rest)
                              else bind (dec_item value) (fun pat ->
                                     let (_, rest) = pat in Ok rest))
    (fun rest -> if is_empty rest then Ok () else Err EUnexpectedLength)

(** val check_keyed_by : crypto -> keytype -> smap -> skey -> unit res **)

let check_keyed_by c kt m k =
  match enr_to_public c kt m with
  | Ok p ->
    if bytes_eqb p.pk_enc (sk_pub k).pk_enc then Ok () else Err ECustom
  | Err e -> Err e
  | Panic -> Panic

(** val compute_signature : record -> signer -> bytes res **)

let compute_signature r sg =
  if id_is_v4 r
  then (match sg (signed_payload r) with
        | Some s -> Ok s
        | None -> Err ESigningError)
  else Err EUnsupportedIdentityScheme

(** val with_key : smap -> skey -> smap **)

let with_key m k =
  sm_insert (pub_key_name k) (pub_entry k) m

(** val checked_succ : n -> n res **)

let checked_succ n0 =
  if N.eqb n0 u64_MAX
  then Err ESequenceNumberTooHigh
  else Ok (N.add n0 (Npos XH))

(** val finish :
    crypto -> keytype -> bool -> record -> smap -> skey -> signer -> record
    res **)

let finish c kt pre_size_check r m k sg =
  bind (check_keyed_by c kt m k) (fun _ ->
    bind
      (if (&&) pre_size_check
            (N.ltb mAX_ENR_SIZE
              (size0 { seq0 = r.seq0; nid = r.nid; content = m; sig0 =
                r.sig0 }))
       then Err EExceedsMaxSize
       else Ok ()) (fun _ ->
      bind (checked_succ r.seq0) (fun sq ->
        let r1 = { seq0 = sq; nid = r.nid; content = m; sig0 = r.sig0 } in
        bind (compute_signature r1 sg) (fun s ->
          let r2 = { seq0 = sq; nid = (node_id_of (sk_pub k)); content = m;
            sig0 = s }
          in
          if N.ltb mAX_ENR_SIZE (size0 r2) then Err EExceedsMaxSize else Ok r2))))

(** val set_seq :
    crypto -> keytype -> record -> n -> skey -> signer -> record res **)

let set_seq c kt r n0 k sg =
  let m = with_key r.content k in
  bind (check_keyed_by c kt m k) (fun _ ->
    let r1 = { seq0 = n0; nid = r.nid; content = m; sig0 = r.sig0 } in
    bind (compute_signature r1 sg) (fun s ->
      let r2 = { seq0 = n0; nid = (node_id_of (sk_pub k)); content = m;
        sig0 = s }
      in
      if N.ltb mAX_ENR_SIZE (size0 r2) then Err EExceedsMaxSize else Ok r2))

(** val insert_raw :
    crypto -> keytype -> record -> bytes -> bytes -> skey -> signer -> (bytes
    option * record) res **)

let insert_raw c kt r key value k sg =
  bind (check_reserved c key value) (fun _ ->
    let prev = sm_get key r.content in
    let m = with_key (sm_insert key value r.content) k in
    bind (finish c kt true r m k sg) (fun r' -> Ok (prev, r')))

(** val set_ip :
    crypto -> keytype -> record -> bytes -> skey -> signer -> (bytes
    option * record) res **)

let set_ip c kt r addr k sg =
  let v6 = negb (N.eqb (lenN addr) (Npos (XO (XO XH)))) in
  bind
    (insert_raw c kt r (if v6 then k_ip6 else k_ip) (enc_string addr) k sg)
    (fun pat ->
    let (prev, r') = pat in
    let prev_addr =
      match prev with
      | Some v ->
        (match dec_fixed
                 (if v6
                  then Npos (XO (XO (XO (XO XH))))
                  else Npos (XO (XO XH))) v with
         | Ok a0 -> let (a, _) = a0 in Some a
         | _ -> None)
      | None -> None
    in
    Ok (prev_addr, r'))

(** val set_port :
    crypto -> keytype -> record -> bytes -> n -> skey -> signer -> (n
    option * record) res **)

let set_port c kt r key p k sg =
  bind (insert_raw c kt r key (enc_uint p) k sg) (fun pat ->
    let (prev, r') = pat in
    let prev_port =
      match prev with
      | Some v ->
        (match dec_uint (Npos (XO XH)) v with
         | Ok a -> let (q, _) = a in Some q
         | _ -> None)
      | None -> None
    in
    Ok (prev_port, r'))

(** val set_client_info :
    crypto -> keytype -> record -> bytes list -> skey -> signer -> record res **)

let set_client_info c kt r strs k sg =
  bind (insert_raw c kt r k_client (enc_strings strs) k sg) (fun pat ->
    let (_, r') = pat in Ok r')

(** val set_socket :
    crypto -> keytype -> record -> bytes -> n -> bool -> skey -> signer ->
    record res **)

let set_socket c kt r addr p is_tcp k sg =
  let v6 = negb (N.eqb (lenN addr) (Npos (XO (XO XH)))) in
  let ipk = if v6 then k_ip6 else k_ip in
  let pk =
    if is_tcp
    then if v6 then k_tcp6 else k_tcp
    else if v6 then k_udp6 else k_udp
  in
  let m =
    with_key
      (sm_insert pk (enc_uint p) (sm_insert ipk (enc_string addr) r.content))
      k
  in
  finish c kt true r m k sg

(** val remove_key :
    crypto -> keytype -> record -> bytes -> skey -> signer -> record res **)

let remove_key c kt r key k sg =
  let m = with_key (sm_remove key r.content) k in finish c kt false r m k sg

(** val remove_all : bytes list -> smap -> bytes option list * smap **)

let rec remove_all keys m =
  match keys with
  | [] -> ([], m)
  | key :: t ->
    let (l, m') = remove_all t (sm_remove key m) in
    (((sm_get key m) :: l), m')

(** val insert_all :
    crypto -> (bytes * bytes) list -> smap -> (bytes option list * smap) res **)

let rec insert_all c kvs m =
  match kvs with
  | [] -> Ok ([], m)
  | p :: t ->
    let (key, raw) = p in
    let v = enc_string raw in
    bind (check_reserved c key v) (fun _ ->
      bind (insert_all c t (sm_insert key v m)) (fun pat ->
        let (l, m') = pat in Ok (((sm_get key m) :: l), m')))

(** val remove_insert :
    crypto -> keytype -> record -> bytes list -> (bytes * bytes) list -> skey
    -> signer -> ((bytes option list * bytes option list) * record) res **)

let remove_insert c kt r rm ins k sg =
  let (removed, m1) = remove_all rm r.content in
  bind (insert_all c ins m1) (fun pat ->
    let (inserted, m2) = pat in
    bind (finish c kt false r (with_key m2 k) k sg) (fun r' -> Ok ((removed,
      inserted), r')))

(** val set_public_key :
    crypto -> keytype -> record -> pubkey -> skey -> signer -> record res **)

let set_public_key c kt r p k sg =
  bind
    (insert_raw c kt r (scheme_key p.pk_scheme) (enc_string p.pk_enc) k sg)
    (fun pat -> let (_, r') = pat in Ok r')

type op =
| OSetSeq of n
| OInsert of bytes * tval
| OInsertRaw of bytes * bytes
| OSetIp of bytes
| OSetUdp4 of n
| OSetUdp6 of n
| OSetTcp4 of n
| OSetTcp6 of n
| ORemoveUdp4
| ORemoveUdp6
| ORemoveTcp
| ORemoveTcp6
| OSetClientInfo of bytes list
| OSetUdpSocket of bytes * n
| OSetTcpSocket of bytes * n
| ORemoveUdpSocket
| ORemoveUdp6Socket
| ORemoveTcpSocket
| ORemoveTcp6Socket
| ORemoveKey of bytes
| ORemoveInsert of bytes list * (bytes * bytes) list
| OSetPublicKey of pubkey

type ret =
| RUnit
| RRaw of bytes option
| RIp of bytes option
| RPort of n option
| RLists of bytes option list * bytes option list

(** val unit_ret : record res -> (ret * record) res **)

let unit_ret x =
  bind x (fun r' -> Ok (RUnit, r'))

(** val apply_op :
    crypto -> keytype -> record -> op -> skey -> signer -> (ret * record) res **)

let apply_op c kt r o k sg =
  match o with
  | OSetSeq n0 -> unit_ret (set_seq c kt r n0 k sg)
  | OInsert (key, v) ->
    bind (insert_raw c kt r key (enc_tval v) k sg) (fun pat ->
      let (p, r') = pat in Ok ((RRaw p), r'))
  | OInsertRaw (key, v) ->
    bind (insert_raw c kt r key v k sg) (fun pat ->
      let (p, r') = pat in Ok ((RRaw p), r'))
  | OSetIp a ->
    bind (set_ip c kt r a k sg) (fun pat ->
      let (p, r') = pat in Ok ((RIp p), r'))
  | OSetUdp4 p ->
    bind (set_port c kt r k_udp p k sg) (fun pat ->
      let (q, r') = pat in Ok ((RPort q), r'))
  | OSetUdp6 p ->
    bind (set_port c kt r k_udp6 p k sg) (fun pat ->
      let (q, r') = pat in Ok ((RPort q), r'))
  | OSetTcp4 p ->
    bind (set_port c kt r k_tcp p k sg) (fun pat ->
      let (q, r') = pat in Ok ((RPort q), r'))
  | OSetTcp6 p ->
    bind (set_port c kt r k_tcp6 p k sg) (fun pat ->
      let (q, r') = pat in Ok ((RPort q), r'))
  | ORemoveUdp4 -> unit_ret (remove_key c kt r k_udp k sg)
  | ORemoveUdp6 -> unit_ret (remove_key c kt r k_udp6 k sg)
  | ORemoveTcp -> unit_ret (remove_key c kt r k_tcp k sg)
  | ORemoveTcp6 -> unit_ret (remove_key c kt r k_tcp6 k sg)
  | OSetClientInfo strs -> unit_ret (set_client_info c kt r strs k sg)
  | OSetUdpSocket (a, p) -> unit_ret (set_socket c kt r a p false k sg)
  | OSetTcpSocket (a, p) -> unit_ret (set_socket c kt r a p true k sg)
  | ORemoveUdpSocket ->
    bind (remove_insert c kt r (k_ip :: (k_udp :: [])) [] k sg) (fun pat ->
      let (_, r') = pat in Ok (RUnit, r'))
  | ORemoveUdp6Socket ->
    bind (remove_insert c kt r (k_ip6 :: (k_udp6 :: [])) [] k sg) (fun pat ->
      let (_, r') = pat in Ok (RUnit, r'))
  | ORemoveTcpSocket ->
    bind (remove_insert c kt r (k_ip :: (k_tcp :: [])) [] k sg) (fun pat ->
      let (_, r') = pat in Ok (RUnit, r'))
  | ORemoveTcp6Socket ->
    bind (remove_insert c kt r (k_ip6 :: (k_tcp6 :: [])) [] k sg) (fun pat ->
      let (_, r') = pat in Ok (RUnit, r'))
  | ORemoveKey key -> unit_ret (remove_key c kt r key k sg)
  | ORemoveInsert (rm, ins) ->
    bind (remove_insert c kt r rm ins k sg) (fun pat ->
      let (p, r') = pat in
      let (rem, inserted) = p in Ok ((RLists (rem, inserted)), r'))
  | OSetPublicKey p -> unit_ret (set_public_key c kt r p k sg)

(** val step :
    crypto -> keytype -> record -> op -> skey -> signer -> ret res * record **)

let step c kt r o k sg =
  match apply_op c kt r o k sg with
  | Ok a -> let (x, r') = a in ((Ok x), r')
  | Err e -> ((Err e), r)
  | Panic -> (Panic, r)

type bcall =
| BIp4 of bytes
| BIp6 of bytes
| BTcp4 of n
| BTcp6 of n
| BUdp4 of n
| BUdp6 of n
| BClient of bytes list
| BVal of bytes * tval
| BRaw of bytes * bytes

(** val apply_bcall : smap -> bcall -> smap **)

let apply_bcall m = function
| BIp4 a -> sm_insert k_ip (enc_string a) m
| BIp6 a -> sm_insert k_ip6 (enc_string a) m
| BTcp4 p -> sm_insert k_tcp (enc_uint p) m
| BTcp6 p -> sm_insert k_tcp6 (enc_uint p) m
| BUdp4 p -> sm_insert k_udp (enc_uint p) m
| BUdp6 p -> sm_insert k_udp6 (enc_uint p) m
| BClient strs -> sm_insert k_client (enc_strings strs) m
| BVal (key, v) -> sm_insert key (enc_tval v) m
| BRaw (key, v) -> sm_insert key v m

(** val check_all : crypto -> smap -> unit res **)

let rec check_all c = function
| [] -> Ok ()
| p :: t ->
  let (key, v) = p in bind (check_reserved c key v) (fun _ -> check_all c t)

(** val build :
    crypto -> keytype -> n -> bcall list -> skey -> signer -> record res **)

let build c kt sq calls k sg =
  let m0 = fold_left apply_bcall calls [] in
  bind (check_all c m0) (fun _ ->
    let m = with_key (sm_insert k_id (enc_string v4) m0) k in
    bind (check_keyed_by c kt m k) (fun _ ->
      let content_rlp = signed_payload_of sq m in
      bind
        (match sg content_rlp with
         | Some s -> Ok s
         | None -> Err ESigningError) (fun s ->
        if N.ltb mAX_ENR_SIZE
             (N.add (N.add (lenN content_rlp) (lenN s)) (Npos (XO (XO (XO
               XH)))))
        then Err EExceedsMaxSize
        else Ok { seq0 = sq; nid = (node_id_of (sk_pub k)); content = m;
               sig0 = s })))

(** val b64_char : n -> n **)

let b64_char v =
  if N.ltb v (Npos (XO (XI (XO (XI XH)))))
  then N.add (Npos (XI (XO (XO (XO (XO (XO XH))))))) v
  else if N.ltb v (Npos (XO (XO (XI (XO (XI XH))))))
       then N.add (Npos (XI (XO (XO (XO (XO (XI XH)))))))
              (N.sub v (Npos (XO (XI (XO (XI XH))))))
       else if N.ltb v (Npos (XO (XI (XI (XI (XI XH))))))
            then N.add (Npos (XO (XO (XO (XO (XI XH))))))
                   (N.sub v (Npos (XO (XO (XI (XO (XI XH)))))))
            else if N.eqb v (Npos (XO (XI (XI (XI (XI XH))))))
                 then Npos (XI (XO (XI (XI (XO XH)))))
                 else Npos (XI (XI (XI (XI (XI (XO XH))))))

(** val b64_val : n -> n option **)

let b64_val ch =
  if (&&) (N.leb (Npos (XI (XO (XO (XO (XO (XO XH))))))) ch)
       (N.leb ch (Npos (XO (XI (XO (XI (XI (XO XH))))))))
  then Some (N.sub ch (Npos (XI (XO (XO (XO (XO (XO XH))))))))
  else if (&&) (N.leb (Npos (XI (XO (XO (XO (XO (XI XH))))))) ch)
            (N.leb ch (Npos (XO (XI (XO (XI (XI (XI XH))))))))
       then Some
              (N.add (N.sub ch (Npos (XI (XO (XO (XO (XO (XI XH)))))))) (Npos
                (XO (XI (XO (XI XH))))))
       else if (&&) (N.leb (Npos (XO (XO (XO (XO (XI XH)))))) ch)
                 (N.leb ch (Npos (XI (XO (XO (XI (XI XH)))))))
            then Some
                   (N.add (N.sub ch (Npos (XO (XO (XO (XO (XI XH))))))) (Npos
                     (XO (XO (XI (XO (XI XH)))))))
            else if N.eqb ch (Npos (XI (XO (XI (XI (XO XH))))))
                 then Some (Npos (XO (XI (XI (XI (XI XH))))))
                 else if N.eqb ch (Npos (XI (XI (XI (XI (XI (XO XH)))))))
                      then Some (Npos (XI (XI (XI (XI (XI XH))))))
                      else None

(** val b64_encode : bytes -> bytes **)

let rec b64_encode = function
| [] -> []
| x :: l ->
  (match l with
   | [] ->
     (b64_char (N.div x (Npos (XO (XO XH))))) :: ((b64_char
                                                    (N.mul
                                                      (N.modulo x (Npos (XO
                                                        (XO XH)))) (Npos (XO
                                                      (XO (XO (XO XH))))))) :: [])
   | y :: l0 ->
     (match l0 with
      | [] ->
        (b64_char (N.div x (Npos (XO (XO XH))))) :: ((b64_char
                                                       (N.add
                                                         (N.mul
                                                           (N.modulo x (Npos
                                                             (XO (XO XH))))
                                                           (Npos (XO (XO (XO
                                                           (XO XH))))))
                                                         (N.div y (Npos (XO
                                                           (XO (XO (XO
                                                           XH)))))))) :: (
          (b64_char
            (N.mul (N.modulo y (Npos (XO (XO (XO (XO XH)))))) (Npos (XO (XO
              XH))))) :: []))
      | z :: t ->
        (b64_char (N.div x (Npos (XO (XO XH))))) :: ((b64_char
                                                       (N.add
                                                         (N.mul
                                                           (N.modulo x (Npos
                                                             (XO (XO XH))))
                                                           (Npos (XO (XO (XO
                                                           (XO XH))))))
                                                         (N.div y (Npos (XO
                                                           (XO (XO (XO
                                                           XH)))))))) :: (
          (b64_char
            (N.add
              (N.mul (N.modulo y (Npos (XO (XO (XO (XO XH)))))) (Npos (XO (XO
                XH)))) (N.div z (Npos (XO (XO (XO (XO (XO (XO XH)))))))))) :: (
          (b64_char (N.modulo z (Npos (XO (XO (XO (XO (XO (XO XH))))))))) :: 
          (b64_encode t))))))

(** val b64_decode : bytes -> bytes option **)

let rec b64_decode = function
| [] -> Some []
| c1 :: l ->
  (match l with
   | [] -> None
   | c2 :: l0 ->
     (match l0 with
      | [] ->
        (match b64_val c1 with
         | Some w ->
           (match b64_val c2 with
            | Some x ->
              if N.eqb (N.modulo x (Npos (XO (XO (XO (XO XH)))))) N0
              then Some
                     ((N.add (N.mul w (Npos (XO (XO XH))))
                        (N.div x (Npos (XO (XO (XO (XO XH))))))) :: [])
              else None
            | None -> None)
         | None -> None)
      | c3 :: l1 ->
        (match l1 with
         | [] ->
           (match b64_val c1 with
            | Some w ->
              (match b64_val c2 with
               | Some x ->
                 (match b64_val c3 with
                  | Some y ->
                    if N.eqb (N.modulo y (Npos (XO (XO XH)))) N0
                    then Some
                           ((N.add (N.mul w (Npos (XO (XO XH))))
                              (N.div x (Npos (XO (XO (XO (XO XH))))))) :: (
                           (N.add
                             (N.mul
                               (N.modulo x (Npos (XO (XO (XO (XO XH))))))
                               (Npos (XO (XO (XO (XO XH))))))
                             (N.div y (Npos (XO (XO XH))))) :: []))
                    else None
                  | None -> None)
               | None -> None)
            | None -> None)
         | c4 :: t ->
           (match b64_val c1 with
            | Some w ->
              (match b64_val c2 with
               | Some x ->
                 (match b64_val c3 with
                  | Some y ->
                    (match b64_val c4 with
                     | Some z ->
                       (match b64_decode t with
                        | Some r ->
                          Some
                            ((N.add (N.mul w (Npos (XO (XO XH))))
                               (N.div x (Npos (XO (XO (XO (XO XH))))))) :: (
                            (N.add
                              (N.mul
                                (N.modulo x (Npos (XO (XO (XO (XO XH))))))
                                (Npos (XO (XO (XO (XO XH))))))
                              (N.div y (Npos (XO (XO XH))))) :: ((N.add
                                                                   (N.mul
                                                                    (N.modulo
                                                                    y (Npos
                                                                    (XO (XO
                                                                    XH))))
                                                                    (Npos (XO
                                                                    (XO (XO
                                                                    (XO (XO
                                                                    (XO
                                                                    XH))))))))
                                                                   z) :: r)))
                        | None -> None)
                     | None -> None)
                  | None -> None)
               | None -> None)
            | None -> None))))

(** val enr_prefix : bytes **)

let enr_prefix =
  (Npos (XI (XO (XI (XO (XO (XI XH))))))) :: ((Npos (XO (XI (XI (XI (XO (XI
    XH))))))) :: ((Npos (XO (XI (XO (XO (XI (XI XH))))))) :: ((Npos (XO (XI
    (XO (XI (XI XH)))))) :: [])))

(** val starts_with : bytes -> bytes -> bool **)

let starts_with p s =
  bytes_eqb (firstn (length p) s) p

(** val to_text : record -> bytes **)

let to_text r =
  app enr_prefix (b64_encode (encode r))

(** val from_str : crypto -> keytype -> bytes -> record res **)

let from_str c kt s =
  if N.ltb (lenN s) (Npos (XO (XO XH)))
  then Err ECustom
  else let body =
         if starts_with enr_prefix s then skipn (S (S (S (S O)))) s else s
       in
       (match b64_decode body with
        | Some b ->
          bind (decode c kt b) (fun pat ->
            let (r, rest) = pat in if is_empty rest then Ok r else Err ECustom)
        | None -> Err ECustom)

(** val to_json : record -> bytes **)

let to_json r =
  app ((Npos (XO (XI (XO (XO (XO XH)))))) :: [])
    (app (to_text r) ((Npos (XO (XI (XO (XO (XO XH)))))) :: []))

(** val plain_json_char : n -> bool **)

let plain_json_char ch =
  (&&)
    ((&&) (N.leb (Npos (XO (XO (XO (XO (XO XH)))))) ch)
      (negb (N.eqb ch (Npos (XO (XI (XO (XO (XO XH)))))))))
    (negb (N.eqb ch (Npos (XO (XO (XI (XI (XI (XO XH)))))))))

(** val from_json : crypto -> keytype -> bytes -> record res option **)

let from_json c kt = function
| [] -> None
| n0 :: t ->
  (match n0 with
   | N0 -> None
   | Npos p ->
     (match p with
      | XO p0 ->
        (match p0 with
         | XI p1 ->
           (match p1 with
            | XO p2 ->
              (match p2 with
               | XO p3 ->
                 (match p3 with
                  | XO p4 ->
                    (match p4 with
                     | XH ->
                       (match rev t with
                        | [] -> None
                        | n1 :: rbody ->
                          (match n1 with
                           | N0 -> None
                           | Npos p5 ->
                             (match p5 with
                              | XO p6 ->
                                (match p6 with
                                 | XI p7 ->
                                   (match p7 with
                                    | XO p8 ->
                                      (match p8 with
                                       | XO p9 ->
                                         (match p9 with
                                          | XO p10 ->
                                            (match p10 with
                                             | XH ->
                                               let body = rev rbody in
                                               if forallb plain_json_char body
                                               then Some (from_str c kt body)
                                               else None
                                             | _ -> None)
                                          | _ -> None)
                                       | _ -> None)
                                    | _ -> None)
                                 | _ -> None)
                              | _ -> None)))
                     | _ -> None)
                  | _ -> None)
               | _ -> None)
            | _ -> None)
         | _ -> None)
      | _ -> None))

(** val nodeid_parse : bytes -> bytes option **)

let nodeid_parse x =
  if N.eqb (lenN x) (Npos (XO (XO (XO (XO (XO XH)))))) then Some x else None

(** val hex_digit : n -> n **)

let hex_digit v =
  if N.ltb v (Npos (XO (XI (XO XH))))
  then N.add (Npos (XO (XO (XO (XO (XI XH)))))) v
  else N.add (Npos (XI (XO (XO (XO (XO (XI XH)))))))
         (N.sub v (Npos (XO (XI (XO XH)))))

(** val hex_encode : bytes -> bytes **)

let rec hex_encode = function
| [] -> []
| x :: t ->
  (hex_digit (N.div x (Npos (XO (XO (XO (XO XH))))))) :: ((hex_digit
                                                            (N.modulo x (Npos
                                                              (XO (XO (XO (XO
                                                              XH))))))) :: 
    (hex_encode t))

(** val hex_val : n -> n option **)

let hex_val ch =
  if (&&) (N.leb (Npos (XO (XO (XO (XO (XI XH)))))) ch)
       (N.leb ch (Npos (XI (XO (XO (XI (XI XH)))))))
  then Some (N.sub ch (Npos (XO (XO (XO (XO (XI XH)))))))
  else if (&&) (N.leb (Npos (XI (XO (XO (XO (XO (XI XH))))))) ch)
            (N.leb ch (Npos (XO (XI (XI (XO (XO (XI XH))))))))
       then Some
              (N.add (N.sub ch (Npos (XI (XO (XO (XO (XO (XI XH)))))))) (Npos
                (XO (XI (XO XH)))))
       else if (&&) (N.leb (Npos (XI (XO (XO (XO (XO (XO XH))))))) ch)
                 (N.leb ch (Npos (XO (XI (XI (XO (XO (XO XH))))))))
            then Some
                   (N.add (N.sub ch (Npos (XI (XO (XO (XO (XO (XO XH))))))))
                     (Npos (XO (XI (XO XH)))))
            else None

(** val hex_decode : bytes -> bytes option **)

let rec hex_decode = function
| [] -> Some []
| h :: l0 ->
  (match l0 with
   | [] -> None
   | l :: t ->
     (match hex_val h with
      | Some a ->
        (match hex_val l with
         | Some b ->
           (match hex_decode t with
            | Some r ->
              Some ((N.add (N.mul a (Npos (XO (XO (XO (XO XH)))))) b) :: r)
            | None -> None)
         | None -> None)
      | None -> None))

(** val prefix_0x : bytes **)

let prefix_0x =
  (Npos (XO (XO (XO (XO (XI XH)))))) :: ((Npos (XO (XO (XO (XI (XI (XI
    XH))))))) :: [])

(** val nodeid_ser : bytes -> bytes **)

let nodeid_ser x =
  app prefix_0x (hex_encode x)

(** val nodeid_deser : bytes -> bytes option **)

let nodeid_deser s =
  let body =
    if bytes_eqb (firstn (S (S O)) s) prefix_0x then skipn (S (S O)) s else s
  in
  if N.eqb (lenN body) (Npos (XO (XO (XO (XO (XO (XO XH)))))))
  then hex_decode body
  else None

(** val nodeid_debug : bytes -> bytes **)

let nodeid_debug x =
  app prefix_0x (hex_encode x)

(** val nodeid_display : bytes -> bytes **)

let nodeid_display x =
  let h = hex_encode x in
  app prefix_0x
    (app (firstn (S (S (S (S O)))) h)
      (app ((Npos (XO (XI (XI (XI (XO XH)))))) :: ((Npos (XO (XI (XI (XI (XO
        XH)))))) :: [])) (skipn (sub (length h) (S (S (S (S O))))) h)))

type import_result = { imp_ok : bytes option; imp_buf : bytes }

(** val import_secp : bytes -> import_result **)

let import_secp x =
  let len = lenN x in
  if (&&)
       ((&&)
         ((&&) (N.leb (Npos (XO (XO (XO (XI XH))))) len)
           (N.leb len (Npos (XO (XO (XO (XO (XO XH))))))))
         (N.ltb N0 (be_val x))) (N.ltb (be_val x) secp_n)
  then { imp_ok = (Some
         (be_pad (S (S (S (S (S (S (S (S (S (S (S (S (S (S (S (S (S (S (S (S
           (S (S (S (S (S (S (S (S (S (S (S (S
           O)))))))))))))))))))))))))))))))) (be_val x))); imp_buf =
         (repeat N0 (length x)) }
  else { imp_ok = None; imp_buf = x }

(** val import_ed : bytes -> import_result **)

let import_ed x =
  if N.eqb (lenN x) (Npos (XO (XO (XO (XO (XO XH))))))
  then { imp_ok = (Some x); imp_buf = (repeat N0 (length x)) }
  else { imp_ok = None; imp_buf = x }
