(* model_run: runs the extracted Gallina model on the same command lines as enr_impl and prints
   observation lines in the same canonical format.
   usage: model_run <kt> <cmds-file> <impl-output-file> <oracle-binary>
   The implementation's output is read only for (a) the signatures its signer produced (the model's
   signer is "return what the real signer returned for this call") and (b) the record bytes of
   ckimport. Crypto cores are answered by `<oracle-binary> oracle` (direct library calls). *)
open Model
type string = Stdlib.String.t

let rec pos_of_int n =
  if n = 1 then XH else if n land 1 = 1 then XI (pos_of_int (n lsr 1)) else XO (pos_of_int (n lsr 1))
let n_of_int i = if i = 0 then N0 else Npos (pos_of_int i)
let rec int_of_pos = function XH -> 1 | XO p -> 2 * int_of_pos p | XI p -> (2 * int_of_pos p) + 1
let int_of_n = function N0 -> 0 | Npos p -> int_of_pos p
let ten = n_of_int 10
let n_of_dec s =
  let acc = ref N0 in
  String.iter (fun ch -> acc := N.add (N.mul !acc ten) (n_of_int (Char.code ch - 48))) s;
  !acc
let dec_of_n n =
  if n = N0 then "0"
  else
    let rec go n acc = if n = N0 then acc else go (N.div n ten) (string_of_int (int_of_n (N.modulo n ten)) ^ acc) in
    go n ""
let rec int_of_nat = function O -> 0 | S n -> 1 + int_of_nat n

let unhx s : bytes =
  if s = "-" then []
  else begin
    let n = String.length s / 2 in
    List.init n (fun i -> n_of_int (int_of_string ("0x" ^ String.sub s (2 * i) 2)))
  end
let hx (b : bytes) =
  if b = [] then "-"
  else begin
    let buf = Buffer.create 64 in
    List.iter (fun x -> Buffer.add_string buf (Printf.sprintf "%02x" (int_of_n x))) b;
    Buffer.contents buf
  end
let hx_raw (b : bytes) = if b = [] then "" else hx b
let bytes_of_string s : bytes = List.init (String.length s) (fun i -> n_of_int (Char.code s.[i]))
let string_of_bytes (b : bytes) = String.concat "" (List.map (fun x -> String.make 1 (Char.chr (int_of_n x))) b)
let blen b = List.length b

(* ---- oracle ---- *)
let oracle_in = ref stdin
let oracle_out = ref stdout
let cache : (string, string) Hashtbl.t = Hashtbl.create 1024
let oracle_queries = ref 0
let query q =
  match Hashtbl.find_opt cache q with
  | Some r -> r
  | None ->
      incr oracle_queries;
      output_string !oracle_out (q ^ "\n");
      flush !oracle_out;
      let r = input_line !oracle_in in
      Hashtbl.add cache q r;
      r

let split_ws s = List.filter (fun x -> x <> "") (String.split_on_char ' ' s)

let mk_crypto ?(chk = "l") backend : crypto =
  { secp_pk =
      (fun b ->
        match split_ws (query ("secp_pk " ^ backend ^ " " ^ hx b)) with
        | [ "ok"; c; u ] -> Some (unhx c, unhx u)
        | _ -> None);
    ecdsa_core = (fun pk d sg -> query (Printf.sprintf "ecdsa %s %s %s %s" backend (hx pk) (hx d) (hx sg)) = "1");
    ed_pk_ok = (fun b -> query ("edpk " ^ hx b) = "1");
    ed_core = (fun pk m sg -> query (Printf.sprintf "ed %s %s %s" (hx pk) (hx m) (hx sg)) = "1");
    secp_chk = (fun b -> query ("secp_pk " ^ chk ^ " " ^ hx b) <> "err") }

(* ---- printing ---- *)
let opt f = function None -> "none" | Some v -> f v
exception ModelPanic

let err_kind = function
  | EExceedsMaxSize -> "ExceedsMaxSize"
  | ESequenceNumberTooHigh -> "SequenceNumberTooHigh"
  | ESigningError -> "SigningError"
  | EUnsupportedIdentityScheme -> "UnsupportedIdentityScheme"
  | EFuel -> "FUEL"
  | _ -> "InvalidRlpData"

let rec_obs c kt (r : record) : string =
  try
    let b = Buffer.create 2048 in
    let add = Buffer.add_string b in
    add (Printf.sprintf "seq=%s nid=%s sig=%s" (dec_of_n r.seq0) (hx r.nid) (hx r.sig0));
    let pairs = List.map (fun (k, v) -> hx k ^ ":" ^ hx v) r.content in
    add (" pairs=" ^ if pairs = [] then "-" else String.concat "," pairs);
    let pk = match public_key c kt r with Ok p -> p | _ -> raise ModelPanic in
    add (Printf.sprintf " pk=%s pku=%s" (hx pk.pk_enc) (hx pk.pk_unc));
    add (" nidpk=" ^ hx (node_id_of pk));
    (match verify c kt r with
    | Ok v -> add (" verify=" ^ if v then "1" else "0")
    | _ -> raise ModelPanic);
    let enc = encode r in
    add (Printf.sprintf " size=%s enc=%s" (dec_of_n (size0 r)) (hx enc));
    add (Printf.sprintf " text=%s disp=1 json=%s" (string_of_bytes (to_text r)) (hx (to_json r)));
    add (" id=" ^ opt hx (id r));
    add (" ip4=" ^ opt hx_raw (ip4 r));
    add (" ip6=" ^ opt hx_raw (ip6 r));
    add (" tcp4=" ^ opt dec_of_n (tcp4 r));
    add (" tcp6=" ^ opt dec_of_n (tcp6 r));
    add (" udp4=" ^ opt dec_of_n (udp4 r));
    add (" udp6=" ^ opt dec_of_n (udp6 r));
    let so = opt (fun (a, p) -> hx_raw a ^ ":" ^ dec_of_n p) in
    add (" s_udp4=" ^ so (udp4_socket r));
    add (" s_udp6=" ^ so (udp6_socket r));
    add (" s_tcp4=" ^ so (tcp4_socket r));
    add (" s_tcp6=" ^ so (tcp6_socket r));
    add (Printf.sprintf " r_udp=%d r_tcp=%d" (if is_udp_reachable r then 1 else 0) (if is_tcp_reachable r then 1 else 0));
    add (" client=" ^ opt (fun l -> String.concat "," (List.map hx l)) (client_info r));
    let acc =
      List.map
        (fun (k, _) ->
          let g = match get r k with None -> "none" | Some (Ok x) -> hx x | Some _ -> raise ModelPanic in
          let gb = match get_bytes r k with Some (Ok x) -> hx x | _ -> "e" in
          let g16 = match get_uint (n_of_int 2) r k with Some (Ok x) -> dec_of_n x | _ -> "e" in
          let g64 = match get_uint (n_of_int 8) r k with Some (Ok x) -> dec_of_n x | _ -> "e" in
          let gl =
            match get_strings r k with
            | Some (Ok []) -> "nil"
            | Some (Ok l) -> String.concat "+" (List.map hx l)
            | _ -> "e"
          in
          let raw = opt hx (get_raw r k) in
          String.concat ":" [ hx k; raw; g; gb; g16; g64; gl ])
        r.content
    in
    add (" acc=" ^ if acc = [] then "-" else String.concat "," acc);
    add " glue=1";
    (* Valid records re-decode as themselves (valid_redecodes); an invalid one is not re-decoded by the model here *)
    add (match decode c kt (encode r) with Ok (d, []) when d = r -> " redec=1" | _ -> " redec=0");
    Buffer.contents b
  with ModelPanic -> "panic model"

(* ---- sign log taken from the implementation's line ---- *)
let field name line =
  let pre = name ^ "=" in
  let n = String.length pre in
  List.find_map
    (fun t -> if String.length t >= n && String.sub t 0 n = pre then Some (String.sub t n (String.length t - n)) else None)
    (split_ws line)

let impl_sigs line : (string * string) list =
  match field "sgn" line with
  | None | Some "-" -> []
  | Some s ->
      List.filter_map
        (fun e -> match String.split_on_char ':' e with [ m; sg ] -> Some (m, sg) | _ -> None)
        (String.split_on_char ';' s)

(* the model's signer for one command: answers the i-th call with what the real signer returned *)
let mk_signer ?(fallback = fun (_ : bytes) -> (None : bytes option)) impl_line =
  let avail = ref (impl_sigs impl_line) in
  let log = ref [] in
  let sg (m : bytes) : bytes option =
    match !avail with
    | [] -> (
        (* the implementation did not get as far as signing at this call: the model asks the library to sign,
           so that "the model succeeds where the implementation gave up early" shows as ok vs err *)
        match fallback m with
        | Some s ->
            log := (hx m ^ ":" ^ hx s) :: !log;
            Some s
        | None ->
            log := (hx m ^ ":nosig") :: !log;
            None)
    | (_, s) :: t ->
        avail := t;
        log := (hx m ^ ":" ^ s) :: !log;
        if s = "fail" then None else Some (unhx s)
  in
  let show () = "sgn=" ^ if !log = [] then "-" else String.concat ";" (List.rev !log) in
  (sg, show)

(* ---- argument parsing ---- *)
let parse_tval s =
  let i = String.index s ':' in
  let t = String.sub s 0 i and a = String.sub s (i + 1) (String.length s - i - 1) in
  match t with
  | "b" -> TBytes (unhx a)
  | "u16" -> TU16 (n_of_dec a)
  | "u64" -> TU64 (n_of_dec a)
  | "s" -> TStr (unhx a)
  | "l" -> TList (if a = "-" then [] else List.map unhx (String.split_on_char ',' a))
  | "ip4" -> TIp4 (unhx a)
  | "ip6" -> TIp6 (unhx a)
  | _ -> failwith ("tval " ^ s)

let client_strs n v b = [ unhx n; unhx v ] @ if b = "none" then [] else [ unhx b ]

type st = {
  secrets : (string, string * string) Hashtbl.t; (* slot -> (oracle scheme, secret hex) *)
  mutable bcalls : bcall list;
  mutable bseq : n;
  mutable cur : record option;
  saved : (int, record) Hashtbl.t;
  keys : (string, skey) Hashtbl.t;
}

let make_key c kt spec : skey option =
  let secp backend h =
    match split_ws (query ("pub " ^ backend ^ " " ^ h)) with
    | [ "ok"; p ] -> (
        match c.secp_pk (unhx p) with
        | Some (cp, un) -> Some { pk_scheme = SSecp; pk_enc = cp; pk_unc = un }
        | None -> None)
    | _ -> None
  in
  let ed h =
    match split_ws (query ("pub ed " ^ h)) with
    | [ "ok"; p ] -> Some { pk_scheme = SEd; pk_enc = unhx p; pk_unc = unhx p }
    | _ -> None
  in
  match kt with
  | K256 -> secp "k" spec
  | LibSecp -> secp "l" spec
  | Ed -> ed spec
  | Comb -> (
      match String.split_on_char ':' spec with
      | [ "secp"; h ] -> secp "k" h
      | [ "ed"; h ] -> ed h
      | _ -> None)
  | Toy ->
      let p = List.hd (String.split_on_char ':' spec) in
      let b = unhx p in
      if blen b = 8 then Some { pk_scheme = SToy; pk_enc = b; pk_unc = b } else None

let ret_str = function
  | RUnit -> "unit"
  | RRaw p -> opt hx p
  | RIp p -> opt hx_raw p
  | RPort p -> opt dec_of_n p
  | RLists (r, i) ->
      let f l = if l = [] then "nil" else String.concat "," (List.map (opt hx) l) in
      f r ^ ";" ^ f i

let parse_op (st : st) name (a : string array) : op =
  match name with
  | "set_seq" -> OSetSeq (n_of_dec a.(0))
  | "insert" -> OInsert (unhx a.(0), parse_tval a.(1))
  | "insert_raw" -> OInsertRaw (unhx a.(0), unhx a.(1))
  | "insert_enr" -> (
      (* a saved record inserted as a value: its own encoding is the raw item; without a slot, the list of the current record *)
      match Hashtbl.find_opt st.saved (try int_of_string a.(1) with _ -> -1) with
      | Some v -> OInsertRaw (unhx a.(0), encode v)
      | None -> (
          match st.cur with
          | Some r -> OInsertRaw (unhx a.(0), enc_list (encode r))
          | None -> failwith "insert_enr without record"))
  | "set_ip" -> OSetIp (unhx a.(0))
  | "set_udp4" -> OSetUdp4 (n_of_dec a.(0))
  | "set_udp6" -> OSetUdp6 (n_of_dec a.(0))
  | "set_tcp4" -> OSetTcp4 (n_of_dec a.(0))
  | "set_tcp6" -> OSetTcp6 (n_of_dec a.(0))
  | "remove_udp4" -> ORemoveUdp4
  | "remove_udp6" -> ORemoveUdp6
  | "remove_tcp" -> ORemoveTcp
  | "remove_tcp6" -> ORemoveTcp6
  | "set_client_info" -> OSetClientInfo (client_strs a.(0) a.(1) a.(2))
  | "set_udp_socket" -> OSetUdpSocket (unhx (List.hd (String.split_on_char '%' a.(0))), n_of_dec a.(1))
  | "set_tcp_socket" -> OSetTcpSocket (unhx (List.hd (String.split_on_char '%' a.(0))), n_of_dec a.(1))
  | "remove_udp_socket" -> ORemoveUdpSocket
  | "remove_udp6_socket" -> ORemoveUdp6Socket
  | "remove_tcp_socket" -> ORemoveTcpSocket
  | "remove_tcp6_socket" -> ORemoveTcp6Socket
  | "remove_key" -> ORemoveKey (unhx a.(0))
  | "remove_insert" ->
      let rk = if a.(0) = "none" then [] else List.map unhx (String.split_on_char ',' a.(0)) in
      let ik =
        if a.(1) = "none" then []
        else
          List.map
            (fun kv -> match String.split_on_char ':' kv with [ k; v ] -> (unhx k, unhx v) | _ -> failwith "kv")
            (String.split_on_char ',' a.(1))
      in
      ORemoveInsert (rk, ik)
  | "set_public_key" -> OSetPublicKey (sk_pub (Hashtbl.find st.keys a.(0)))
  | _ -> failwith ("op " ^ name)

let parse_bcall m : bcall =
  match String.split_on_char '/' m with
  | [ ("ip4" | "ip6" | "ip"); h ] ->
      let b = unhx h in
      if blen b = 4 then BIp4 b else BIp6 b
  | [ "tcp4"; p ] -> BTcp4 (n_of_dec p)
  | [ "tcp6"; p ] -> BTcp6 (n_of_dec p)
  | [ "udp4"; p ] -> BUdp4 (n_of_dec p)
  | [ "udp6"; p ] -> BUdp6 (n_of_dec p)
  | [ "client"; n; v; b ] -> BClient (client_strs n v b)
  | [ "val"; k; tv ] -> BVal (unhx k, parse_tval tv)
  | [ "raw"; k; v ] -> BRaw (unhx k, unhx v)
  | _ -> failwith ("bcall " ^ m)

let oracle_signer (st : st) slot : bytes -> bytes option =
 fun m ->
  match Hashtbl.find_opt st.secrets slot with
  | None -> None
  | Some (sch, sec) -> (
      match split_ws (query (Printf.sprintf "sign %s %s %s" sch sec (hx m))) with
      | [ s ] when s <> "err" && s <> "-" -> Some (unhx s)
      | _ -> None)

let vfy_of (r : record) = Printf.sprintf "vfy=%s:%s:1" (hx (signed_payload r)) (hx r.sig0)

let run_line c kt (st : st) (line : string) (impl_line : string) : string =
  let t = Array.of_list (split_ws line) in
  if Array.length t = 0 || t.(0).[0] = '#' then "-"
  else
    match t.(0) with
    | "key" -> (
        match make_key c kt t.(2) with
        | Some k ->
            Hashtbl.replace st.keys t.(1) k;
            (let spec = t.(2) in
             let sch, sec =
               match (kt, String.split_on_char ':' spec) with
               | Comb, [ "secp"; h ] -> ("k", h)
               | Comb, [ "ed"; h ] -> ("ed", h)
               | Ed, _ -> ("ed", spec)
               | Toy, p :: _ -> ("toy", p)
               | _, _ -> ("k", spec)
             in
             Hashtbl.replace st.secrets t.(1) (sch, sec));
            Printf.sprintf "key pk=%s pku=%s nid=%s ek=%s" (hx k.pk_enc) (hx k.pk_unc) (hx (node_id_of k))
              (hx (scheme_key k.pk_scheme))
        | None -> "err")
    | "decode" | "load" -> (
        match decode c kt (unhx t.(1)) with
        | Ok (r, rest) ->
            st.cur <- Some r;
            Printf.sprintf "ok rest=%d sgn=- %s %s" (blen rest) (vfy_of r) (rec_obs c kt r)
        | Err _ -> "err"
        | Panic -> "panic model")
    | "decvec" -> (
        match decode_vec c kt (unhx t.(1)) with
        | Ok (l, rest) ->
            let encs = List.map (fun r -> hx (encode r)) l in
            Printf.sprintf "ok rest=%d n=%d recs=%s" (blen rest) (List.length l)
              (if encs = [] then "-" else String.concat "," encs)
        | Err _ -> "err"
        | Panic -> "panic model")
    | "parse" -> (
        match from_str c kt (unhx t.(1)) with
        | Ok r ->
            st.cur <- Some r;
            Printf.sprintf "ok sgn=- %s %s" (vfy_of r) (rec_obs c kt r)
        | Err _ -> "err"
        | Panic -> "panic model")
    | "json" -> (
        match from_json c kt (unhx t.(1)) with
        | None -> "unmodelled"
        | Some (Ok r) ->
            st.cur <- Some r;
            Printf.sprintf "ok sgn=- %s alt=1 %s" (vfy_of r) (rec_obs c kt r)
        | Some (Err _) -> "err alt=1"
        | Some Panic -> "panic model")
    | "build" -> (
        match Hashtbl.find_opt st.keys t.(1) with
        | None -> "nokey"
        | Some k -> (
            let sg, show = mk_signer ~fallback:(oracle_signer st t.(1)) impl_line in
            let sq = if t.(3) = "-" then n_of_int 1 else n_of_dec t.(3) in
            let calls = List.map parse_bcall (Array.to_list (Array.sub t 4 (Array.length t - 4))) in
            st.bcalls <- calls;
            st.bseq <- sq;
            match build c kt sq calls k sg with
            | Ok r ->
                st.cur <- Some r;
                Printf.sprintf "ok %s vfy=- %s" (show ()) (rec_obs c kt r)
            | Err e -> Printf.sprintf "err kind=%s %s vfy=-" (err_kind e) (show ())
            | Panic -> "panic model"))
    | "rebuild" -> (
        (* the same builder object again: its earlier calls, then the new ones *)
        match Hashtbl.find_opt st.keys t.(1) with
        | None -> "nokey"
        | Some k -> (
            let sg, show = mk_signer ~fallback:(oracle_signer st t.(1)) impl_line in
            let calls = st.bcalls @ List.map parse_bcall (Array.to_list (Array.sub t 3 (Array.length t - 3))) in
            st.bcalls <- calls;
            match build c kt st.bseq calls k sg with
            | Ok r ->
                st.cur <- Some r;
                Printf.sprintf "ok %s vfy=- %s" (show ()) (rec_obs c kt r)
            | Err e -> Printf.sprintf "err kind=%s %s vfy=-" (err_kind e) (show ())
            | Panic -> "panic model"))
    | "op" -> (
        match (Hashtbl.find_opt st.keys t.(2), st.cur) with
        | None, _ -> "nokey"
        | _, None -> "norec"
        | Some k, Some r ->
            let sg, show = mk_signer ~fallback:(oracle_signer st t.(2)) impl_line in
            let o = parse_op st t.(1) (Array.sub t 4 (Array.length t - 4)) in
            let res, r' = step c kt r o k sg in
            st.cur <- Some r';
            let head =
              match res with
              | Ok x -> "ok ret=" ^ ret_str x
              | Err e ->
                  (* every cause that holds of this call before signing is an admissible kind (the order in which an
                     implementation looks for them is not part of any property) *)
                  let ks = List.sort_uniq compare (List.map err_kind (e :: presign_causes c kt r o k)) in
                  "err kind=" ^ err_kind e ^ " kinds=" ^ String.concat "+" ks
              | Panic -> "panic model"
            in
            Printf.sprintf "%s %s vfy=- %s" head (show ()) (rec_obs c kt r'))
    | "reset" ->
        st.cur <- None;
        st.bcalls <- [];
        st.bseq <- n_of_int 1;
        Hashtbl.reset st.saved;
        Hashtbl.reset st.keys;
        Hashtbl.reset st.secrets;
        "reset"
    | "save" -> (
        match st.cur with
        | Some r ->
            Hashtbl.replace st.saved (int_of_string t.(1)) r;
            "saved"
        | None -> "norec")
    | "use" -> (
        match Hashtbl.find_opt st.saved (int_of_string t.(1)) with
        | Some r ->
            st.cur <- Some r;
            "used"
        | None -> "norec")
    | "recode" -> (
        match st.cur with
        | Some r -> (
            match decode c kt (encode r) with
            | Ok (d, _) ->
                Hashtbl.replace st.saved (int_of_string t.(1)) d;
                "recoded"
            | Err _ -> "err"
            | Panic -> "panic model")
        | None -> "norec")
    | "show" -> ( match st.cur with Some r -> "rec " ^ rec_obs c kt r | None -> "norec")
    | "pair" -> (
        match (Hashtbl.find_opt st.saved (int_of_string t.(1)), Hashtbl.find_opt st.saved (int_of_string t.(2))) with
        | Some a, Some b ->
            let bi x = if x then 1 else 0 in
            Printf.sprintf "pair eq=%d heq=%d cc=%d eqc=1" (bi (rec_eqb a b)) (bi (hash_input a = hash_input b))
              (bi (compare_content a b))
        | _ -> "norec")
    | "nodeid" -> (
        match t.(1) with
        | "parse" -> ( match nodeid_parse (unhx t.(2)) with Some x -> "ok " ^ hx x | None -> "err")
        | "new" ->
            let x = unhx t.(2) in
            Printf.sprintf "raw=%s asref=%s from=%s eqraw=1 ser=%s disp=%s dbg=%s dbgp=%s" (hx x) (hx x) (hx x)
              (hx (([ n_of_int 34 ] @ nodeid_ser x) @ [ n_of_int 34 ]))
              (hx (nodeid_display x)) (hx (nodeid_debug x)) (hx (nodeid_debug x))
        | "deser" -> (
            match nodeid_deser (unhx t.(2)) with Some x -> "ok " ^ hx x ^ " glue=1" | None -> "err glue=1")
        | "eq" ->
            (* an id is its 32 bytes: equal exactly when the bytes are *)
            let e = if unhx t.(2) = unhx t.(3) then "1" else "0" in
            Printf.sprintf "eq=%s eqraw=%s hash=%s" e e e
        | _ -> "badcmd")
    | "ckimport" -> (
        let x = unhx t.(2) in
        let res, pubq =
          match t.(1) with
          | "secp" -> (import_secp x, fun e -> query ("pub l " ^ hx e))
          | _ -> (import_ed x, fun e -> query ("pub ed " ^ hx e))
        in
        match res.imp_ok with
        | None -> "err buf=" ^ hx res.imp_buf ^ " offs=1"
        | Some e ->
            let pub = match split_ws (pubq e) with [ "ok"; p ] -> p | _ -> "nopub" in
            (* the record the implementation built with the imported key must decode, verify and carry this key *)
            let rec_field =
              match field "rec" impl_line with
              | Some f -> (
                  match String.split_on_char ':' f with
                  | [ h; _ ] -> (
                      match decode c Comb (unhx h) with
                      | Ok (r, []) -> (
                          match public_key c Comb r with
                          | Ok p when hx p.pk_enc = pub -> h ^ ":1"
                          | _ -> "badkey")
                      | _ -> "undecodable")
                  | _ -> "norec")
              | None -> "norec"
            in
            Printf.sprintf "ok buf=%s export=%s pub=%s rec=%s offs=1" (hx res.imp_buf) (hx e) pub rec_field)
    | _ -> "badcmd"

let () =
  let kt_s = Sys.argv.(1) in
  let kt, backend =
    match kt_s with
    | "k256" | "k256_plain" | "k256_default" -> (K256, "k")
    | "libsecp" -> (LibSecp, "l")
    | "ed" -> (Ed, "k")
    | "comb" | "comb_plain" -> (Comb, "k")
    | "toy" -> (Toy, "k")
    | _ -> failwith "kt"
  in
  let cmds = open_in Sys.argv.(2) in
  let impl = open_in Sys.argv.(3) in
  let i, o = Unix.open_process (Sys.argv.(4) ^ " oracle") in
  oracle_in := i;
  oracle_out := o;
  (* check_spec_reserved_keys validates a secp256k1 entry with libsecp256k1 when that feature is compiled in, else with k256 *)
  let c = mk_crypto ~chk:(if kt_s = "k256_default" then "k" else "l") backend in
  let st = { secrets = Hashtbl.create 16; bcalls = []; bseq = n_of_int 1; cur = None; saved = Hashtbl.create 16; keys = Hashtbl.create 16 } in
  (try
     while true do
       let line = input_line cmds in
       let impl_line = try input_line impl with End_of_file -> "" in
       let out = try run_line c kt st line impl_line with Failure m -> "modelfail " ^ m | Not_found -> "modelfail notfound" | Invalid_argument m -> "modelfail " ^ m in
       print_string out;
       print_char '\n'
     done
   with End_of_file -> ());
  flush stdout;
  Printf.eprintf "oracle_queries=%d\n" !oracle_queries;
  ignore (Unix.close_process (i, o))
