// Crypto oracle (calls the crypto libraries directly, never through `enr`) and the NodeId /
// CombinedKey-import commands (which do call `enr`).
use crate::{hx, unhx};
use alloy_rlp::Encodable;
use enr::k256::ecdsa::signature::hazmat::{PrehashSigner, PrehashVerifier};
use enr::{CombinedKey, Enr, EnrKey, EnrPublicKey, NodeId};
use sha3::{Digest, Keccak256};
use std::io::{BufRead, Write};

fn keccak(b: &[u8]) -> [u8; 32] {
    let mut o = [0u8; 32];
    o.copy_from_slice(&Keccak256::digest(b));
    o
}

fn arr32(b: &[u8]) -> Option<[u8; 32]> {
    if b.len() != 32 {
        return None;
    }
    let mut a = [0u8; 32];
    a.copy_from_slice(b);
    Some(a)
}

fn answer(t: &[&str]) -> String {
    match t[0] {
        "keccak" => hx(&keccak(&unhx(t[1]))),
        "secp_pk" => {
            let b = unhx(t[2]);
            if t[1] == "k" {
                match enr::k256::ecdsa::VerifyingKey::from_sec1_bytes(&b) {
                    Ok(vk) => {
                        let c = vk.to_encoded_point(true);
                        let u = vk.to_encoded_point(false);
                        format!("ok {} {}", hx(c.as_bytes()), hx(&u.as_bytes()[1..]))
                    }
                    Err(_) => "err".into(),
                }
            } else {
                match enr::secp256k1::PublicKey::from_slice(&b) {
                    Ok(pk) => format!("ok {} {}", hx(&pk.serialize()), hx(&pk.serialize_uncompressed()[1..])),
                    Err(_) => "err".into(),
                }
            }
        }
        "ecdsa" => {
            let pk = unhx(t[2]);
            let d = unhx(t[3]);
            let s = unhx(t[4]);
            let r = if t[1] == "k" {
                match (
                    enr::k256::ecdsa::VerifyingKey::from_sec1_bytes(&pk),
                    enr::k256::ecdsa::Signature::try_from(s.as_slice()),
                ) {
                    (Ok(vk), Ok(sig)) => vk.verify_prehash(&d, &sig).is_ok(),
                    _ => false,
                }
            } else {
                match (
                    enr::secp256k1::PublicKey::from_slice(&pk),
                    enr::secp256k1::ecdsa::Signature::from_compact(&s),
                    arr32(&d),
                ) {
                    (Ok(p), Ok(sig), Some(d)) => enr::secp256k1::SECP256K1
                        .verify_ecdsa(&enr::secp256k1::Message::from_digest(d), &sig, &p)
                        .is_ok(),
                    _ => false,
                }
            };
            (r as u8).to_string()
        }
        "edpk" => {
            let b = unhx(t[1]);
            (enr::ed25519_dalek::VerifyingKey::try_from(b.as_slice()).is_ok() as u8).to_string()
        }
        "ed" => {
            use enr::ed25519_dalek::Verifier;
            let pk = unhx(t[1]);
            let m = unhx(t[2]);
            let s = unhx(t[3]);
            let r = match (
                enr::ed25519_dalek::VerifyingKey::try_from(pk.as_slice()),
                enr::ed25519_dalek::Signature::try_from(s.as_slice()),
            ) {
                (Ok(vk), Ok(sig)) => vk.verify(&m, &sig).is_ok(),
                _ => false,
            };
            (r as u8).to_string()
        }
        "pub" => {
            let s = unhx(t[2]);
            match t[1] {
                "k" => match enr::k256::ecdsa::SigningKey::from_slice(&s) {
                    Ok(k) => format!("ok {}", hx(k.verifying_key().to_encoded_point(true).as_bytes())),
                    Err(_) => "err".into(),
                },
                "l" => match arr32(&s).and_then(|a| enr::secp256k1::SecretKey::from_byte_array(&a).ok()) {
                    Some(k) => format!(
                        "ok {}",
                        hx(&enr::secp256k1::PublicKey::from_secret_key(enr::secp256k1::SECP256K1, &k).serialize())
                    ),
                    None => "err".into(),
                },
                "ed" => match arr32(&s) {
                    Some(a) => format!("ok {}", hx(enr::ed25519_dalek::SigningKey::from_bytes(&a).verifying_key().as_bytes())),
                    None => "err".into(),
                },
                _ => "err".into(),
            }
        }
        "sign" => {
            // independent signer used by the generators: deterministic, over keccak256(msg) for secp256k1
            let s = unhx(t[2]);
            let m = unhx(t[3]);
            match t[1] {
                "k" | "l" => match enr::k256::ecdsa::SigningKey::from_slice(&s) {
                    Ok(k) => {
                        let sig: enr::k256::ecdsa::Signature = k.sign_prehash(&keccak(&m)).expect("sign");
                        let sig = sig.normalize_s().unwrap_or(sig);
                        hx(&sig.to_vec())
                    }
                    Err(_) => "err".into(),
                },
                "ed" => {
                    use enr::ed25519_dalek::Signer;
                    match arr32(&s) {
                        Some(a) => hx(&enr::ed25519_dalek::SigningKey::from_bytes(&a).sign(&m).to_bytes()),
                        None => "err".into(),
                    }
                }
                "toy" => {
                    // secret = the 8 public bytes
                    let mut x = s.clone();
                    let d = Keccak256::new().chain_update(&s).chain_update(&m).finalize();
                    x.extend_from_slice(&d[..8]);
                    hx(&x)
                }
                _ => "err".into(),
            }
        }
        _ => "badquery".into(),
    }
}

pub fn serve(input: &mut dyn BufRead, out: &mut dyn Write) {
    for line in input.lines() {
        let line = line.unwrap();
        let t: Vec<&str> = line.split_whitespace().collect();
        let r = if t.is_empty() {
            "-".to_string()
        } else {
            match std::panic::catch_unwind(|| answer(&t)) {
                Ok(s) => s,
                Err(_) => "oraclepanic".into(),
            }
        };
        writeln!(out, "{r}").unwrap();
        out.flush().unwrap();
    }
}

pub fn nodeid_cmd(t: &[&str]) -> String {
    match t[0] {
        "parse" => match NodeId::parse(&unhx(t[1])) {
            Ok(n) => format!("ok {}", hx(&n.raw())),
            Err(_) => "err".into(),
        },
        "new" => {
            let a = arr32(&unhx(t[1])).expect("32 bytes");
            let n = NodeId::new(&a);
            let from: NodeId = a.into();
            // a serialisation that fails half way (a closed sink) must not affect the next one
            struct Closed;
            impl std::io::Write for Closed {
                fn write(&mut self, _: &[u8]) -> std::io::Result<usize> {
                    Err(std::io::Error::new(std::io::ErrorKind::BrokenPipe, "closed"))
                }
                fn flush(&mut self) -> std::io::Result<()> {
                    Ok(())
                }
            }
            let other = NodeId::new(&[0x11; 32]);
            let _ = serde_json::to_writer(Closed, &other);
            let ser = serde_json::to_string(&n).unwrap();
            format!(
                "raw={} asref={} from={} eqraw={} ser={} disp={} dbg={} dbgp={}",
                hx(&n.raw()),
                hx(n.as_ref()),
                hx(&from.raw()),
                (n == a && n == from && n.clone() == n) as u8,
                hx(ser.as_bytes()),
                hx(format!("{n}").as_bytes()),
                hx(format!("{n:?}").as_bytes()),
                hx(format!("{n:#?}").as_bytes())
            )
        }
        "eq" => {
            // equality, equality with a raw array and hashing of two ids given as 32 bytes each
            use std::hash::{Hash, Hasher};
            let a = arr32(&unhx(t[1])).expect("32 bytes");
            let b = arr32(&unhx(t[2])).expect("32 bytes");
            let (na, nb) = (NodeId::new(&a), NodeId::new(&b));
            let h = |n: &NodeId| {
                let mut s = std::collections::hash_map::DefaultHasher::new();
                n.hash(&mut s);
                s.finish()
            };
            format!("eq={} eqraw={} hash={}", (na == nb && nb == na) as u8, (na == b && nb == a) as u8, (h(&na) == h(&nb)) as u8)
        }
        "deser" => {
            // the string is delivered as a JSON string literal produced by serde_json itself
            let s = String::from_utf8_lossy(&unhx(t[1])).to_string();
            let lit = serde_json::to_string(&s).unwrap();
            let a = serde_json::from_str::<NodeId>(&lit).ok();
            let b = serde_json::from_slice::<NodeId>(lit.as_bytes()).ok();
            let c = serde_json::from_value::<NodeId>(serde_json::Value::String(s)).ok();
            let glue = (a == b && b == c) as u8;
            match a {
                Some(n) => format!("ok {} glue={glue}", hx(&n.raw())),
                None => format!("err glue={glue}"),
            }
        }
        _ => "badcmd".into(),
    }
}

/// the same import from a buffer that starts at every offset 0..8 inside a larger allocation (a sub-slice of a
/// frame, as callers have it): outcome, buffer afterwards and exported key must not depend on the alignment
fn ckimport_at_offsets(which: &str, secret: &[u8]) -> bool {
    let mut seen: Option<(bool, Vec<u8>, Vec<u8>)> = None;
    for off in 0..9usize {
        let mut frame = vec![0xAAu8; off + secret.len() + 11];
        frame[off..off + secret.len()].copy_from_slice(secret);
        let r = {
            let b = &mut frame[off..off + secret.len()];
            match which {
                "secp" => CombinedKey::secp256k1_from_bytes(b),
                _ => CombinedKey::ed25519_from_bytes(b),
            }
        };
        let after = frame[off..off + secret.len()].to_vec();
        let untouched = frame[..off].iter().all(|x| *x == 0xAA) && frame[off + secret.len()..].iter().all(|x| *x == 0xAA);
        let obs = (r.is_ok() && untouched, after, r.map(|k| k.encode()).unwrap_or_default());
        match &seen {
            None => seen = Some(obs),
            Some(first) => {
                if *first != obs {
                    return false;
                }
            }
        }
        if !untouched {
            return false;
        }
    }
    true
}

pub fn ckimport_cmd(t: &[&str]) -> String {
    let mut buf = unhx(t[1]);
    let offs = ckimport_at_offsets(t[0], &buf) as u8;
    let r = match t[0] {
        "secp" => CombinedKey::secp256k1_from_bytes(&mut buf),
        "ed" => CombinedKey::ed25519_from_bytes(&mut buf),
        _ => return "badcmd".into(),
    };
    match r {
        Ok(k) => {
            let e = Enr::<CombinedKey>::empty(&k);
            let rec = match e {
                Ok(e) => {
                    let mut o = Vec::new();
                    e.encode(&mut o);
                    format!("{}:{}", hx(&o), e.verify() as u8)
                }
                Err(_) => "builderr".into(),
            };
            format!(
                "ok buf={} export={} pub={} rec={} offs={offs}",
                hx(&buf),
                hx(&k.encode()),
                hx(&k.public().encode()),
                rec
            )
        }
        Err(_) => format!("err buf={} offs={offs}", hx(&buf)),
    }
}
