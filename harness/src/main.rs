// enr_impl: drives the real `enr` crate (path dependency on /repo) from a line protocol and prints
// one canonical observation line per command. `enr_impl oracle` answers crypto queries by calling
// k256 / libsecp256k1 / ed25519-dalek directly (never through `enr`).
#![allow(deprecated)]

mod keys;
#[cfg(feature = "full")]
mod oracle;

use alloy_rlp::{Decodable, Encodable};
use bytes::Bytes;
use enr::{Enr, EnrKey, EnrPublicKey, NodeId};
use keys::*;
use std::fmt::Write as _;
use std::hash::{Hash, Hasher};
use std::io::{BufRead, Write};
use std::net::{IpAddr, Ipv4Addr, Ipv6Addr, SocketAddr};
use std::panic::{catch_unwind, AssertUnwindSafe};

pub fn hx(b: &[u8]) -> String {
    if b.is_empty() {
        "-".to_string()
    } else {
        hex::encode(b)
    }
}
pub fn unhx(s: &str) -> Vec<u8> {
    if s == "-" {
        Vec::new()
    } else {
        hex::decode(s).expect("bad hex in command")
    }
}

/// `<hex of 4 or 16 bytes>[%<scope id>[^<flowinfo>]]`: an IPv6 socket address may carry a scope id and flow info,
/// which are not part of what a record stores
fn sock_of(arg: &str, port: u16) -> SocketAddr {
    let (addr, extra) = match arg.split_once('%') {
        Some((a, e)) => (a, Some(e)),
        None => (arg, None),
    };
    match (ip_of(&unhx(addr)), extra) {
        (IpAddr::V6(ip), Some(e)) => {
            let (scope, flow) = match e.split_once('^') {
                Some((s, f)) => (s.parse().unwrap_or(0), f.parse().unwrap_or(0)),
                None => (e.parse().unwrap_or(0), 0),
            };
            SocketAddr::V6(std::net::SocketAddrV6::new(ip, port, flow, scope))
        }
        (ip, _) => SocketAddr::new(ip, port),
    }
}

fn ip_of(b: &[u8]) -> IpAddr {
    if b.len() == 4 {
        let mut a = [0u8; 4];
        a.copy_from_slice(b);
        IpAddr::V4(Ipv4Addr::from(a))
    } else {
        let mut a = [0u8; 16];
        a.copy_from_slice(b);
        IpAddr::V6(Ipv6Addr::from(a))
    }
}
fn ip_hex(ip: &IpAddr) -> String {
    match ip {
        IpAddr::V4(a) => hex::encode(a.octets()),
        IpAddr::V6(a) => hex::encode(a.octets()),
    }
}

fn opt<T>(o: Option<T>, f: impl Fn(T) -> String) -> String {
    match o {
        None => "none".into(),
        Some(v) => f(v),
    }
}

/// Typed value argument `T:arg`, encoded through the real `Encodable` impls.
enum TVal {
    B(Vec<u8>),
    U16(u16),
    U64(u64),
    S(String),
    L(Vec<Bytes>),
    Ip4(Ipv4Addr),
    Ip6(Ipv6Addr),
}
fn parse_tval(s: &str) -> TVal {
    let (t, a) = s.split_once(':').expect("tval");
    match t {
        "b" => TVal::B(unhx(a)),
        "u16" => TVal::U16(a.parse().unwrap()),
        "u64" => TVal::U64(a.parse().unwrap()),
        "s" => TVal::S(String::from_utf8(unhx(a)).expect("utf8")),
        "l" => TVal::L(if a == "-" {
            vec![]
        } else {
            a.split(',').map(|x| Bytes::from(unhx(x))).collect()
        }),
        "ip4" => {
            let b = unhx(a);
            let mut x = [0u8; 4];
            x.copy_from_slice(&b);
            TVal::Ip4(Ipv4Addr::from(x))
        }
        "ip6" => {
            let b = unhx(a);
            let mut x = [0u8; 16];
            x.copy_from_slice(&b);
            TVal::Ip6(Ipv6Addr::from(x))
        }
        _ => panic!("unknown tval {t}"),
    }
}

fn rec_obs<K: EnrKey>(e: &Enr<K>) -> String {
    let mut o = String::new();
    let _ = write!(o, "seq={} nid={} sig={}", e.seq(), hx(&e.node_id().raw()), hx(e.signature()));
    let pairs: Vec<String> = e.iter().map(|(k, v)| format!("{}:{}", hx(k), hx(v))).collect();
    let _ = write!(o, " pairs={}", if pairs.is_empty() { "-".into() } else { pairs.join(",") });
    let pk = e.public_key();
    let _ = write!(o, " pk={} pku={}", hx(pk.encode().as_ref()), hx(pk.encode_uncompressed().as_ref()));
    let _ = write!(o, " nidpk={}", hx(&NodeId::from(e.public_key()).raw()));
    let _ = write!(o, " verify={}", e.verify() as u8);
    let mut enc = Vec::new();
    e.encode(&mut enc);
    let _ = write!(o, " size={} enc={}", e.size(), hx(&enc));
    let text = e.to_base64();
    let disp = format!("{e}");
    let json = serde_json::to_string(e).unwrap_or_else(|_| "JSONERR".into());
    let _ = write!(o, " text={} disp={} json={}", text, (disp == text) as u8, hx(json.as_bytes()));
    let _ = write!(o, " id={}", opt(e.id(), |s| hx(s.as_bytes())));
    let _ = write!(o, " ip4={}", opt(e.ip4(), |a| hex::encode(a.octets())));
    let _ = write!(o, " ip6={}", opt(e.ip6(), |a| hex::encode(a.octets())));
    let _ = write!(o, " tcp4={}", opt(e.tcp4(), |p| p.to_string()));
    let _ = write!(o, " tcp6={}", opt(e.tcp6(), |p| p.to_string()));
    let _ = write!(o, " udp4={}", opt(e.udp4(), |p| p.to_string()));
    let _ = write!(o, " udp6={}", opt(e.udp6(), |p| p.to_string()));
    let _ = write!(o, " s_udp4={}", opt(e.udp4_socket(), |s| format!("{}:{}", hex::encode(s.ip().octets()), s.port())));
    let _ = write!(o, " s_udp6={}", opt(e.udp6_socket(), |s| format!("{}:{}", hex::encode(s.ip().octets()), s.port())));
    let _ = write!(o, " s_tcp4={}", opt(e.tcp4_socket(), |s| format!("{}:{}", hex::encode(s.ip().octets()), s.port())));
    let _ = write!(o, " s_tcp6={}", opt(e.tcp6_socket(), |s| format!("{}:{}", hex::encode(s.ip().octets()), s.port())));
    let _ = write!(o, " r_udp={} r_tcp={}", e.is_udp_reachable() as u8, e.is_tcp_reachable() as u8);
    let _ = write!(
        o,
        " client={}",
        opt(e.client_info(), |(n, v, b)| {
            let mut s = format!("{},{}", hx(n.as_bytes()), hx(v.as_bytes()));
            if let Some(b) = b {
                s.push(',');
                s.push_str(&hx(b.as_bytes()));
            }
            s
        })
    );
    // generic accessors on every stored key: get / get_decodable::<Bytes|u16|u64|Vec<Bytes>>
    let mut acc = Vec::new();
    for (k, _) in e.iter() {
        let g = opt(e.get(k), |b| hx(&b));
        let gb = match e.get_decodable::<Bytes>(k) {
            Some(Ok(b)) => hx(&b),
            _ => "e".into(),
        };
        let g16 = match e.get_decodable::<u16>(k) {
            Some(Ok(v)) => v.to_string(),
            _ => "e".into(),
        };
        let g64 = match e.get_decodable::<u64>(k) {
            Some(Ok(v)) => v.to_string(),
            _ => "e".into(),
        };
        let gl = match e.get_decodable::<Vec<Bytes>>(k) {
            Some(Ok(v)) => {
                if v.is_empty() {
                    "nil".into()
                } else {
                    v.iter().map(|b| hx(b)).collect::<Vec<_>>().join("+")
                }
            }
            _ => "e".into(),
        };
        let raw = opt(e.get_raw_rlp(k), |b| hx(b));
        acc.push(format!("{}:{}:{}:{}:{}:{}:{}", hx(k), raw, g, gb, g16, g64, gl));
    }
    let _ = write!(o, " acc={}", if acc.is_empty() { "-".into() } else { acc.join(",") });
    // absent key, Debug, into_iter, conversions: glue that must not panic
    let absent = e.get_raw_rlp(b"\xff\xfe absent").is_none() && e.get(b"\xff\xfe absent").is_none();
    let dbg = format!("{e:?}");
    // the pretty form passes the alternate flag down to the fields: the node id must still be the plain 0x-hex
    let dbgp = format!("{e:#?}");
    let nid_dbg = format!("{:?}", e.node_id());
    let dbgp_ok = dbgp.contains(&nid_dbg) && !dbgp.contains("0x0x") && dbg.contains(&nid_dbg);
    // formatting with width / precision / fill flags must not panic (the results are not compared: only plain
    // `{}` is pinned by the text-form property)
    let flagged = [
        format!("{e:.400}"), format!("{e:.3}"), format!("{e:.0}"), format!("{e:600}"), format!("{e:>8.2}"), format!("{e:*^700.650}"),
        format!("{:.3}", e.node_id()), format!("{:80}", e.node_id()), format!("{:.100}", e.node_id()), format!("{:.3?}", e.node_id()),
        format!("{e:.5?}"), format!("{e:300?}"),
    ];
    let flagged_ok = flagged.iter().all(|s| s.len() < 1 << 20);
    let into: Vec<(Vec<u8>, Bytes)> = e.clone().into_iter().collect();
    let same_iter = into.len() == e.iter().count()
        && into.iter().zip(e.iter()).all(|((k1, v1), (k2, v2))| k1 == k2 && v1.as_ref() == v2);
    let nid_conv = NodeId::from(e) == e.node_id() && NodeId::from(e.clone()) == e.node_id();
    // Encodable::length() is what an enclosing list header is computed from: it must be the number of bytes written,
    // and a list of records must decode back to the same records
    let mut enc0 = Vec::new();
    e.encode(&mut enc0);
    let len_ok = alloy_rlp::Encodable::length(e) == enc0.len();
    let pair = vec![e.clone(), e.clone()];
    let mut lst = Vec::new();
    alloy_rlp::Encodable::encode(&pair, &mut lst);
    let nested_ok = match <Vec<Enr<K>> as alloy_rlp::Decodable>::decode(&mut lst.as_slice()) {
        Ok(v) => v.len() == 2 && v[0] == *e && v[1] == *e,
        Err(_) => false,
    } || enc0.len() * 2 + 3 > 65536
        // (a record made by a lying signer is not accepted alone either: nothing to compare)
        || !matches!(Enr::<K>::decode(&mut enc0.as_slice()), Ok(d) if d == *e);
    let _ = write!(o, " glue={}", (absent && !dbg.is_empty() && dbgp_ok && same_iter && nid_conv && flagged_ok && len_ok && nested_ok) as u8);
    // is the record accepted again by the decoder, as itself?
    let mut enc2 = Vec::new();
    e.encode(&mut enc2);
    let redec = match Enr::<K>::decode(&mut enc2.as_slice()) {
        Ok(d) => d == *e && d.to_base64() == e.to_base64(),
        Err(_) => false,
    };
    let _ = logs();
    let _ = write!(o, " redec={}", redec as u8);
    o
}

/// an iterator adapter whose size hint is as unhelpful as a lazy iterator's can legally be
struct HugeHint<I>(I);
impl<I: Iterator> Iterator for HugeHint<I> {
    type Item = I::Item;
    fn next(&mut self) -> Option<I::Item> {
        self.0.next()
    }
    fn size_hint(&self) -> (usize, Option<usize>) {
        (0, Some(usize::MAX))
    }
}

fn guarded<F: FnOnce() -> String>(f: F) -> String {
    match catch_unwind(AssertUnwindSafe(f)) {
        Ok(s) => s,
        Err(_) => format!("panic {}", take_panic_msg()),
    }
}

thread_local! {
    static PANIC_MSG: std::cell::RefCell<String> = std::cell::RefCell::new(String::new());
}
fn take_panic_msg() -> String {
    PANIC_MSG.with(|m| {
        let s = m.borrow().clone();
        m.borrow_mut().clear();
        s.replace(' ', "_")
    })
}

fn rec_obs_guarded<K: EnrKey>(e: &Enr<K>) -> String {
    guarded(|| rec_obs(e))
}

fn err_kind(e: &enr::Error) -> &'static str {
    match e {
        enr::Error::ExceedsMaxSize => "ExceedsMaxSize",
        enr::Error::SequenceNumberTooHigh => "SequenceNumberTooHigh",
        enr::Error::SigningError => "SigningError",
        enr::Error::UnsupportedIdentityScheme => "UnsupportedIdentityScheme",
        enr::Error::InvalidRlpData(_) => "InvalidRlpData",
    }
}

fn logs() -> String {
    let s = take_sign_log();
    let v = take_verify_log();
    let sl: Vec<String> = s
        .iter()
        .map(|(m, sg)| format!("{}:{}", hx(m), sg.as_ref().map_or("fail".to_string(), |x| hx(x))))
        .collect();
    let vl: Vec<String> = v.iter().map(|(m, sg, r)| format!("{}:{}:{}", hx(m), hx(sg), *r as u8)).collect();
    format!(
        "sgn={} vfy={}",
        if sl.is_empty() { "-".into() } else { sl.join(";") },
        if vl.is_empty() { "-".into() } else { vl.join(";") }
    )
}

struct State<K: EnrKey> {
    builder: Option<enr::Builder<K>>,
    cur: Option<Enr<K>>,
    saved: std::collections::BTreeMap<usize, Enr<K>>,
    keys: std::collections::BTreeMap<String, K>,
}

fn do_insert<K: EnrKey>(e: &mut Enr<K>, k: &[u8], tv: &TVal, key: &K) -> Result<Option<Bytes>, enr::Error> {
    match tv {
        TVal::B(b) => e.insert(k, &b.as_slice(), key),
        TVal::U16(v) => e.insert(k, v, key),
        TVal::U64(v) => e.insert(k, v, key),
        TVal::S(s) => e.insert(k, s, key),
        TVal::L(l) => e.insert(k, l, key),
        TVal::Ip4(a) => e.insert(k, a, key),
        TVal::Ip6(a) => e.insert(k, a, key),
    }
}

fn run_op<K: Kt>(st: &mut State<K>, t: &[&str]) -> String {
    let name = t[0];
    let slot = t[1];
    let fail: u8 = t[2].parse().unwrap_or(0);
    let a = &t[3..];
    let key = match st.keys.get(slot) {
        Some(k) => k,
        None => return "nokey".into(),
    };
    // a saved record used as a VALUE (insert_enr <key> <slot>): anything Encodable may be inserted, a record included
    let value_enr = if name == "insert_enr" { a.get(1).and_then(|n| n.parse::<usize>().ok()).and_then(|n| st.saved.get(&n).cloned()) } else { None };
    let Some(e) = st.cur.as_mut() else { return "norec".into() };
    set_fail(fail);
    let _ = logs();
    let r: Result<Result<String, enr::Error>, _> = catch_unwind(AssertUnwindSafe(|| {
        let unit = |r: Result<(), enr::Error>| r.map(|_| "unit".to_string());
        let port = |r: Result<Option<u16>, enr::Error>| r.map(|o| opt(o, |p| p.to_string()));
        match name {
            "set_seq" => unit(e.set_seq(a[0].parse().unwrap(), key)),
            "insert" => do_insert(e, &unhx(a[0]), &parse_tval(a[1]), key).map(|o| opt(o, |b| hx(&b))),
            "insert_raw" => e
                .insert_raw_rlp(unhx(a[0]), Bytes::from(unhx(a[1])), key)
                .map(|o| opt(o, |b| hx(&b))),
            "insert_enr" => match &value_enr {
                Some(v) => e.insert(unhx(a[0]), v, key).map(|o| opt(o, |b| hx(&b))),
                None => e.insert(unhx(a[0]), &vec![e.clone()], key).map(|o| opt(o, |b| hx(&b))),
            },
            "set_ip" => e.set_ip(ip_of(&unhx(a[0])), key).map(|o| opt(o, |ip| ip_hex(&ip))),
            "set_udp4" => port(e.set_udp4(a[0].parse().unwrap(), key)),
            "set_udp6" => port(e.set_udp6(a[0].parse().unwrap(), key)),
            "set_tcp4" => port(e.set_tcp4(a[0].parse().unwrap(), key)),
            "set_tcp6" => port(e.set_tcp6(a[0].parse().unwrap(), key)),
            "remove_udp4" => unit(e.remove_udp4(key)),
            "remove_udp6" => unit(e.remove_udp6(key)),
            "remove_tcp" => unit(e.remove_tcp(key)),
            "remove_tcp6" => unit(e.remove_tcp6(key)),
            "set_client_info" => {
                let n = String::from_utf8(unhx(a[0])).unwrap();
                let v = String::from_utf8(unhx(a[1])).unwrap();
                let b = if a[2] == "none" { None } else { Some(String::from_utf8(unhx(a[2])).unwrap()) };
                unit(e.set_client_info(n, v, b, key))
            }
            "set_udp_socket" => unit(e.set_udp_socket(sock_of(a[0], a[1].parse().unwrap()), key)),
            "set_tcp_socket" => unit(e.set_tcp_socket(sock_of(a[0], a[1].parse().unwrap()), key)),
            "remove_udp_socket" => unit(e.remove_udp_socket(key)),
            "remove_udp6_socket" => unit(e.remove_udp6_socket(key)),
            "remove_tcp_socket" => unit(e.remove_tcp_socket(key)),
            "remove_tcp6_socket" => unit(e.remove_tcp6_socket(key)),
            "remove_key" => unit(e.remove_key(unhx(a[0]), key)),
            "remove_insert" => {
                let rk: Vec<Vec<u8>> = if a[0] == "none" { vec![] } else { a[0].split(',').map(unhx).collect() };
                let ik: Vec<(Vec<u8>, Vec<u8>)> = if a[1] == "none" {
                    vec![]
                } else {
                    a[1].split(',')
                        .map(|kv| {
                            let (k, v) = kv.split_once(':').unwrap();
                            (unhx(k), unhx(v))
                        })
                        .collect()
                };
                // every other call passes lazy iterators whose size hints say nothing useful (0, Some(usize::MAX)),
                // as `(0..).map(..).take_while(..)` would: the result must not depend on the hints
                let lazy = (rk.len() + ik.len()) % 2 == 1;
                let res = if lazy {
                    e.remove_insert(HugeHint(rk.iter()), HugeHint(ik.iter().map(|(k, v)| (k.clone(), v.as_slice()))), key)
                } else {
                    e.remove_insert(rk.iter(), ik.iter().map(|(k, v)| (k.clone(), v.as_slice())), key)
                };
                res
                    .map(|(r, i)| {
                        let f = |v: &Vec<Option<Bytes>>| {
                            if v.is_empty() {
                                "nil".to_string()
                            } else {
                                v.iter().map(|o| opt(o.as_ref(), |b| hx(b))).collect::<Vec<_>>().join(",")
                            }
                        };
                        format!("{};{}", f(&r), f(&i))
                    })
            }
            "set_public_key" => {
                let pk = match st.keys.get(a[0]) {
                    Some(k2) => k2.public(),
                    None => panic!("no key slot for set_public_key"),
                };
                unit(e.set_public_key(&pk, key))
            }
            _ => panic!("unknown op {name}"),
        }
    }));
    set_fail(0);
    let lg = logs();
    let head = match r {
        Ok(Ok(ret)) => format!("ok ret={ret}"),
        Ok(Err(er)) => format!("err kind={}", err_kind(&er)),
        Err(_) => {
            let m = take_panic_msg();
            if m.contains("injected_signer_panic") {
                // the caller's own signer panicked and the caller caught the unwind: for the library this call did
                // not happen (same observation as a signer that reports failure)
                "err kind=SigningError".to_string()
            } else {
                format!("panic {m}")
            }
        }
    };
    let rec = rec_obs_guarded(st.cur.as_ref().unwrap());
    let _ = logs();
    format!("{head} {lg} {rec}")
}

fn apply_bcalls<K: EnrKey>(b: &mut enr::Builder<K>, calls: &[&str]) {
    for m in calls {
        let p: Vec<&str> = m.split('/').collect();
        match p[0] {
            "ip4" | "ip6" | "ip" => {
                let ip = ip_of(&unhx(p[1]));
                match (p[0], ip) {
                    ("ip", ip) => {
                        b.ip(ip);
                    }
                    ("ip4", IpAddr::V4(a)) => {
                        b.ip4(a);
                    }
                    ("ip6", IpAddr::V6(a)) => {
                        b.ip6(a);
                    }
                    _ => panic!("bad ip arg"),
                }
            }
            "tcp4" => {
                b.tcp4(p[1].parse().unwrap());
            }
            "tcp6" => {
                b.tcp6(p[1].parse().unwrap());
            }
            "udp4" => {
                b.udp4(p[1].parse().unwrap());
            }
            "udp6" => {
                b.udp6(p[1].parse().unwrap());
            }
            "client" => {
                let n = String::from_utf8(unhx(p[1])).unwrap();
                let v = String::from_utf8(unhx(p[2])).unwrap();
                let bb = if p[3] == "none" { None } else { Some(String::from_utf8(unhx(p[3])).unwrap()) };
                b.client_info(n, v, bb);
            }
            "val" => {
                let k = unhx(p[1]);
                match parse_tval(p[2]) {
                    TVal::B(x) => b.add_value(k, &x.as_slice()),
                    TVal::U16(x) => b.add_value(k, &x),
                    TVal::U64(x) => b.add_value(k, &x),
                    TVal::S(x) => b.add_value(k, &x),
                    TVal::L(x) => b.add_value(k, &x),
                    TVal::Ip4(x) => b.add_value(k, &x),
                    TVal::Ip6(x) => b.add_value(k, &x),
                };
            }
            "raw" => {
                b.add_value_rlp(unhx(p[1]), Bytes::from(unhx(p[2])));
            }
            _ => panic!("unknown builder method {}", p[0]),
        }
    }
}

/// `build <slot> <fail> <seq|-> calls..` starts a new builder; `rebuild <slot> <fail> calls..` applies further
/// calls to the SAME builder object and builds again (a builder can be reused after Ok and after Err)
fn run_build<K: Kt>(st: &mut State<K>, t: &[&str], again: bool) -> String {
    let slot = t[0];
    let fail: u8 = t[1].parse().unwrap_or(0);
    let key = match st.keys.get(slot) {
        Some(k) => k,
        None => return "nokey".into(),
    };
    let mut b = if again {
        match st.builder.take() {
            Some(b) => b,
            None => return "nobuilder".into(),
        }
    } else {
        Enr::<K>::builder()
    };
    set_fail(fail);
    let _ = logs();
    let r = catch_unwind(AssertUnwindSafe(|| {
        if again {
            apply_bcalls(&mut b, &t[2..]);
        } else {
            if t[2] != "-" {
                b.seq(t[2].parse().unwrap());
            }
            apply_bcalls(&mut b, &t[3..]);
        }
        b.build(key)
    }));
    set_fail(0);
    st.builder = Some(b);
    let lg = logs();
    match r {
        Ok(Ok(e)) => {
            let rec = rec_obs_guarded(&e);
            st.cur = Some(e);
            let _ = logs();
            format!("ok {lg} {rec}")
        }
        Ok(Err(er)) => format!("err kind={} {lg}", err_kind(&er)),
        Err(_) => {
            let m = take_panic_msg();
            if m.contains("injected_signer_panic") {
                format!("err kind=SigningError {lg}")
            } else {
                format!("panic {m}")
            }
        }
    }
}

fn hash_of<K: EnrKey>(e: &Enr<K>) -> u64 {
    let mut h = std::collections::hash_map::DefaultHasher::new();
    e.hash(&mut h);
    h.finish()
}

fn run<K: Kt>(input: &mut dyn BufRead, out: &mut dyn Write) {
    let mut st: State<K> = State { builder: None, cur: None, saved: Default::default(), keys: Default::default() };
    for line in input.lines() {
        let line = line.unwrap();
        let t: Vec<&str> = line.split_whitespace().collect();
        if t.is_empty() || t[0].starts_with('#') {
            writeln!(out, "-").unwrap();
            continue;
        }
        let res = match t[0] {
            "key" => guarded(|| match K::make(t[2]) {
                Some(k) => {
                    let p = k.public();
                    let s = format!(
                        "key pk={} pku={} nid={} ek={}",
                        hx(p.encode().as_ref()),
                        hx(p.encode_uncompressed().as_ref()),
                        hx(&NodeId::from(p.clone()).raw()),
                        hx(&p.enr_key())
                    );
                    st.keys.insert(t[1].to_string(), k);
                    s
                }
                None => "err".into(),
            }),
            "decode" | "load" => {
                let b = unhx(t[1]);
                let _ = logs();
                let r = catch_unwind(AssertUnwindSafe(|| {
                    let mut buf = b.as_slice();
                    let r = Enr::<K>::decode(&mut buf);
                    (r, buf.len())
                }));
                let lg = logs();
                match r {
                    Ok((Ok(e), rest)) => {
                        let rec = rec_obs_guarded(&e);
                        st.cur = Some(e);
                        let _ = logs();
                        format!("ok rest={rest} {lg} {rec}")
                    }
                    Ok((Err(er), _)) => format!("err e={}", format!("{er:?}").replace(' ', "_")),
                    Err(_) => format!("panic {}", take_panic_msg()),
                }
            }
            "decvec" => {
                let b = unhx(t[1]);
                guarded(|| {
                    let mut buf = b.as_slice();
                    match Vec::<Enr<K>>::decode(&mut buf) {
                        Ok(v) => {
                            let encs: Vec<String> = v
                                .iter()
                                .map(|e| {
                                    let mut o = Vec::new();
                                    e.encode(&mut o);
                                    hx(&o)
                                })
                                .collect();
                            format!("ok rest={} n={} recs={}", buf.len(), v.len(), if encs.is_empty() { "-".into() } else { encs.join(",") })
                        }
                        Err(_) => "err".into(),
                    }
                })
            }
            "parse" | "json" => {
                let sb = unhx(t[1]);
                let _ = logs();
                let mut alt = true;
                let r = catch_unwind(AssertUnwindSafe(|| -> Option<Enr<K>> {
                    // arbitrary bytes are delivered as a (lossy) string: &str is the API's input type
                    let s = String::from_utf8_lossy(&sb).to_string();
                    if t[0] == "parse" {
                        s.parse::<Enr<K>>().ok()
                    } else {
                        let main = serde_json::from_str::<Enr<K>>(&s).ok();
                        // the other serde_json entry points must agree with from_str
                        let same = |o: &Option<Enr<K>>| match (&main, o) {
                            (Some(a), Some(b)) => a == b && a.to_base64() == b.to_base64(),
                            (None, None) => true,
                            _ => false,
                        };
                        let by_slice = serde_json::from_slice::<Enr<K>>(s.as_bytes()).ok();
                        let by_reader = serde_json::from_reader::<_, Enr<K>>(std::io::Cursor::new(s.as_bytes().to_vec())).ok();
                        let by_value = serde_json::from_str::<serde_json::Value>(&s).ok().and_then(|v| serde_json::from_value::<Enr<K>>(v).ok());
                        alt = same(&by_slice) && same(&by_reader) && same(&by_value);
                        // deserializers of other formats hand over bytes, borrowed strings or owned strings: they may
                        // accept or refuse, but must return (results not compared; a panic makes this whole line a panic)
                        {
                            use serde::de::value::{BorrowedBytesDeserializer, BorrowedStrDeserializer, BytesDeserializer, Error as VErr, StringDeserializer};
                            use serde::Deserialize;
                            for b in [sb.as_slice(), &sb[..sb.len().min(1)], &[][..]] {
                                let _ = Enr::<K>::deserialize(BytesDeserializer::<VErr>::new(b));
                                let _ = Enr::<K>::deserialize(BorrowedBytesDeserializer::<VErr>::new(b));
                            }
                            let _ = Enr::<K>::deserialize(BorrowedStrDeserializer::<VErr>::new(&s));
                            let _ = Enr::<K>::deserialize(StringDeserializer::<VErr>::new(s.clone()));
                            let _ = Enr::<K>::deserialize(StringDeserializer::<VErr>::new(String::new()));
                        }
                        main
                    }
                }));
                let lg = logs();
                let alts = if t[0] == "json" { format!(" alt={}", alt as u8) } else { String::new() };
                match r {
                    Ok(Some(e)) => {
                        let rec = rec_obs_guarded(&e);
                        st.cur = Some(e);
                        let _ = logs();
                        format!("ok {lg}{alts} {rec}")
                    }
                    Ok(None) => format!("err{alts}"),
                    Err(_) => format!("panic {}", take_panic_msg()),
                }
            }
            "reset" => {
                st = State { builder: None, cur: None, saved: Default::default(), keys: Default::default() };
                let _ = logs();
                "reset".into()
            }
            "build" => run_build(&mut st, &t[1..], false),
            "rebuild" => run_build(&mut st, &t[1..], true),
            "op" => run_op(&mut st, &t[1..]),
            "save" => {
                let i: usize = t[1].parse().unwrap();
                match &st.cur {
                    Some(e) => {
                        // an occupied slot is refreshed in place (Clone::clone_from, as Vec / Option do for their
                        // elements); an empty one gets a fresh clone
                        match st.saved.get_mut(&i) {
                            Some(slot) => slot.clone_from(e),
                            None => {
                                st.saved.insert(i, e.clone());
                            }
                        }
                        "saved".into()
                    }
                    None => "norec".into(),
                }
            }
            "use" => {
                let i: usize = t[1].parse().unwrap();
                match st.saved.get(&i) {
                    Some(e) => {
                        st.cur = Some(e.clone());
                        "used".into()
                    }
                    None => "norec".into(),
                }
            }
            "recode" => {
                // decode-after-encode image of the current record, saved in a slot
                let i: usize = t[1].parse().unwrap();
                match &st.cur {
                    Some(e) => {
                        let mut enc = Vec::new();
                        e.encode(&mut enc);
                        let r = catch_unwind(AssertUnwindSafe(|| Enr::<K>::decode(&mut enc.as_slice())));
                        let _ = logs();
                        match r {
                            Ok(Ok(d)) => {
                                st.saved.insert(i, d);
                                "recoded".into()
                            }
                            Ok(Err(_)) => "err".into(),
                            Err(_) => format!("panic {}", take_panic_msg()),
                        }
                    }
                    None => "norec".into(),
                }
            }
            "show" => match &st.cur {
                Some(e) => format!("rec {}", rec_obs_guarded(e)),
                None => "norec".into(),
            },
            "pair" => {
                let i: usize = t[1].parse().unwrap();
                let j: usize = t[2].parse().unwrap();
                match (st.saved.get(&i), st.saved.get(&j)) {
                    (Some(a), Some(b)) => guarded(|| {
                        format!(
                            "pair eq={} heq={} cc={} eqc={}",
                            (a == b) as u8,
                            (hash_of(a) == hash_of(b)) as u8,
                            a.compare_content(b) as u8,
                            (*a == a.clone()) as u8
                        )
                    }),
                    _ => "norec".into(),
                }
            }
            #[cfg(feature = "full")]
            "nodeid" => guarded(|| oracle::nodeid_cmd(&t[1..])),
            #[cfg(feature = "full")]
            "ckimport" => guarded(|| oracle::ckimport_cmd(&t[1..])),
            _ => "badcmd".into(),
        };
        writeln!(out, "{res}").unwrap();
    }
    out.flush().unwrap();
}

fn main() {
    std::panic::set_hook(Box::new(|info| {
        let msg = if let Some(s) = info.payload().downcast_ref::<&str>() {
            s.to_string()
        } else if let Some(s) = info.payload().downcast_ref::<String>() {
            s.clone()
        } else {
            "?".to_string()
        };
        let loc = info.location().map(|l| format!("{}:{}", l.file(), l.line())).unwrap_or_default();
        PANIC_MSG.with(|m| *m.borrow_mut() = format!("{loc}:{msg}"));
    }));
    let args: Vec<String> = std::env::args().collect();
    let stdin = std::io::stdin();
    let mut input = stdin.lock();
    let stdout = std::io::stdout();
    let mut out = std::io::BufWriter::new(stdout.lock());
    #[cfg(feature = "full")]
    if args.len() >= 2 && args[1] == "oracle" {
        oracle::serve(&mut input, &mut out);
        return;
    }
    let kt = args.get(1).map(String::as_str).unwrap_or("k256");
    match kt {
        "k256" => run::<Spy<enr::k256::ecdsa::SigningKey>>(&mut input, &mut out),
        #[cfg(feature = "full")]
        "libsecp" => run::<Spy<enr::secp256k1::SecretKey>>(&mut input, &mut out),
        #[cfg(feature = "full")]
        "ed" => run::<Spy<enr::ed25519_dalek::SigningKey>>(&mut input, &mut out),
        #[cfg(feature = "full")]
        "comb" => run::<Spy<enr::CombinedKey>>(&mut input, &mut out),
        "toy" => run::<ToyKey>(&mut input, &mut out),
        // the plain (unwrapped) key types, as users instantiate them
        "k256_plain" => run::<enr::k256::ecdsa::SigningKey>(&mut input, &mut out),
        #[cfg(feature = "full")]
        "comb_plain" => run::<enr::CombinedKey>(&mut input, &mut out),
        _ => panic!("unknown key type {kt}"),
    }
}
