// Key types driven by the harness: the four built-in ones behind a transparent `Spy` wrapper (written
// against the public EnrKey / EnrPublicKey traits only) that logs what is signed and verified and can
// make the next signing call fail, plus a toy scheme with variable-length signatures.
use alloy_rlp::Decodable;
use bytes::Bytes;
use enr::{EnrKey, EnrPublicKey, SigningError};
use sha3::{Digest, Keccak256};
use std::cell::{Cell, RefCell};
use std::collections::BTreeMap;

thread_local! {
    static SIGN_LOG: RefCell<Vec<(Vec<u8>, Option<Vec<u8>>)>> = RefCell::new(Vec::new());
    static VERIFY_LOG: RefCell<Vec<(Vec<u8>, Vec<u8>, bool)>> = RefCell::new(Vec::new());
    static FAIL: Cell<u8> = Cell::new(0);
}
/// 0 = honest, 1 = the next signing calls return an error, 2 = they return Ok with a signature that does not verify
pub fn set_fail(b: u8) {
    FAIL.with(|f| f.set(b));
}
pub fn take_sign_log() -> Vec<(Vec<u8>, Option<Vec<u8>>)> {
    SIGN_LOG.with(|l| std::mem::take(&mut *l.borrow_mut()))
}
pub fn take_verify_log() -> Vec<(Vec<u8>, Vec<u8>, bool)> {
    VERIFY_LOG.with(|l| std::mem::take(&mut *l.borrow_mut()))
}
fn log_sign(msg: &[u8], sig: Option<&[u8]>) {
    SIGN_LOG.with(|l| l.borrow_mut().push((msg.to_vec(), sig.map(<[u8]>::to_vec))));
}
fn log_verify(msg: &[u8], sig: &[u8], r: bool) {
    VERIFY_LOG.with(|l| l.borrow_mut().push((msg.to_vec(), sig.to_vec(), r)));
}

pub trait Kt: EnrKey + Sized {
    fn make(spec: &str) -> Option<Self>;
}

fn hex32(s: &str) -> Option<[u8; 32]> {
    let b = hex::decode(s).ok()?;
    if b.len() != 32 {
        return None;
    }
    let mut a = [0u8; 32];
    a.copy_from_slice(&b);
    Some(a)
}

impl Kt for enr::k256::ecdsa::SigningKey {
    fn make(spec: &str) -> Option<Self> {
        Self::from_slice(&hex32(spec)?).ok()
    }
}
#[cfg(feature = "full")]
impl Kt for enr::secp256k1::SecretKey {
    fn make(spec: &str) -> Option<Self> {
        Self::from_byte_array(&hex32(spec)?).ok()
    }
}
#[cfg(feature = "full")]
impl Kt for enr::ed25519_dalek::SigningKey {
    fn make(spec: &str) -> Option<Self> {
        Some(Self::from_bytes(&hex32(spec)?))
    }
}
#[cfg(feature = "full")]
impl Kt for enr::CombinedKey {
    fn make(spec: &str) -> Option<Self> {
        let (s, h) = spec.split_once(':')?;
        match s {
            "secp" => Some(Self::from(enr::k256::ecdsa::SigningKey::from_slice(&hex32(h)?).ok()?)),
            "ed" => Some(Self::from(enr::ed25519_dalek::SigningKey::from_bytes(&hex32(h)?))),
            _ => None,
        }
    }
}

pub struct Spy<K>(pub K);
#[derive(Clone, Debug)]
pub struct SpyPub<P>(pub P);

impl<K: Kt> Kt for Spy<K> {
    fn make(spec: &str) -> Option<Self> {
        K::make(spec).map(Spy)
    }
}

impl<K: EnrKey> EnrKey for Spy<K> {
    type PublicKey = SpyPub<K::PublicKey>;
    fn sign_v4(&self, msg: &[u8]) -> Result<Vec<u8>, SigningError> {
        if FAIL.with(Cell::get) == 1 {
            log_sign(msg, None);
            return Err(SigningError::verif_new("injected signing fault"));
        }
        if FAIL.with(Cell::get) == 3 {
            // a signer that panics (a bug in the caller's own key implementation): the caller catches the unwind
            log_sign(msg, None);
            panic!("injected signer panic");
        }
        let mut r = self.0.sign_v4(msg);
        if FAIL.with(Cell::get) == 2 {
            // a signer that fails silently: Ok with one bit of the signature flipped
            if let Ok(s) = r.as_mut() {
                if let Some(last) = s.last_mut() {
                    *last ^= 1;
                }
            }
        }
        log_sign(msg, r.as_ref().ok().map(Vec::as_slice));
        r
    }
    fn public(&self) -> Self::PublicKey {
        SpyPub(self.0.public())
    }
    fn enr_to_public(content: &BTreeMap<Vec<u8>, Bytes>) -> Result<Self::PublicKey, alloy_rlp::Error> {
        K::enr_to_public(content).map(SpyPub)
    }
}

impl<P: EnrPublicKey> EnrPublicKey for SpyPub<P> {
    type Raw = P::Raw;
    type RawUncompressed = P::RawUncompressed;
    fn verify_v4(&self, msg: &[u8], sig: &[u8]) -> bool {
        let r = self.0.verify_v4(msg, sig);
        log_verify(msg, sig, r);
        r
    }
    fn encode(&self) -> Self::Raw {
        self.0.encode()
    }
    fn encode_uncompressed(&self) -> Self::RawUncompressed {
        self.0.encode_uncompressed()
    }
    fn enr_key(&self) -> Vec<u8> {
        self.0.enr_key()
    }
}

/// Toy scheme: public key = 8 bytes under "toy"; signature = pk ++ keccak256(pk ++ msg)[..8] ++ pad,
/// where the pad length follows a schedule, so the signature length changes from call to call.
pub struct ToyKey {
    pk: [u8; 8],
    sched: Vec<usize>,
    n: std::sync::atomic::AtomicUsize,
}
#[derive(Clone, Debug)]
pub struct ToyPub(pub [u8; 8]);

fn toy_tag(pk: &[u8; 8], msg: &[u8]) -> [u8; 8] {
    let d = Keccak256::new().chain_update(pk).chain_update(msg).finalize();
    let mut t = [0u8; 8];
    t.copy_from_slice(&d[..8]);
    t
}

impl Kt for ToyKey {
    fn make(spec: &str) -> Option<Self> {
        // <8-byte pk hex>[:<pad>,<pad>,...]
        let (p, s) = match spec.split_once(':') {
            Some((p, s)) => (p, s),
            None => (spec, "0"),
        };
        let b = hex::decode(p).ok()?;
        if b.len() != 8 {
            return None;
        }
        let mut pk = [0u8; 8];
        pk.copy_from_slice(&b);
        let sched: Vec<usize> = s.split(',').filter_map(|x| x.parse().ok()).collect();
        if sched.is_empty() {
            return None;
        }
        Some(ToyKey { pk, sched, n: std::sync::atomic::AtomicUsize::new(0) })
    }
}

impl EnrKey for ToyKey {
    type PublicKey = ToyPub;
    fn sign_v4(&self, msg: &[u8]) -> Result<Vec<u8>, SigningError> {
        if FAIL.with(Cell::get) == 1 {
            log_sign(msg, None);
            return Err(SigningError::verif_new("injected signing fault"));
        }
        if FAIL.with(Cell::get) == 3 {
            log_sign(msg, None);
            panic!("injected signer panic");
        }
        let i = self.n.fetch_add(1, std::sync::atomic::Ordering::SeqCst);
        let pad = self.sched[i % self.sched.len()];
        let mut s = self.pk.to_vec();
        s.extend_from_slice(&toy_tag(&self.pk, msg));
        s.extend(std::iter::repeat(0xAB).take(pad));
        if FAIL.with(Cell::get) == 2 {
            s[15] ^= 1;
        }
        log_sign(msg, Some(&s));
        Ok(s)
    }
    fn public(&self) -> ToyPub {
        ToyPub(self.pk)
    }
    fn enr_to_public(content: &BTreeMap<Vec<u8>, Bytes>) -> Result<ToyPub, alloy_rlp::Error> {
        let v = content.get(b"toy".as_slice()).ok_or(alloy_rlp::Error::Custom("Unknown signature"))?;
        let b = Bytes::decode(&mut v.as_ref())?;
        if b.len() != 8 {
            return Err(alloy_rlp::Error::Custom("Invalid toy key"));
        }
        let mut pk = [0u8; 8];
        pk.copy_from_slice(&b);
        Ok(ToyPub(pk))
    }
}

impl EnrPublicKey for ToyPub {
    type Raw = [u8; 8];
    type RawUncompressed = [u8; 8];
    fn verify_v4(&self, msg: &[u8], sig: &[u8]) -> bool {
        let r = sig.len() >= 16 && sig[..8] == self.0 && sig[8..16] == toy_tag(&self.0, msg);
        log_verify(msg, sig, r);
        r
    }
    fn encode(&self) -> [u8; 8] {
        self.0
    }
    fn encode_uncompressed(&self) -> [u8; 8] {
        self.0
    }
    fn enr_key(&self) -> Vec<u8> {
        b"toy".to_vec()
    }
}
